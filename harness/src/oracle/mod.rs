//! Independent reference code. Nothing here calls into the code it judges.
pub mod lookup3;
pub mod refcrypt;
pub mod refmpq;
