//! Bob Jenkins' lookup3.c `hashlittle2` (byte-wise variant), transcribed from the public
//! domain source, with the driver5 self-check vectors.

#[inline]
fn rot(x: u32, k: u32) -> u32 {
    x.rotate_left(k)
}

pub fn hashlittle2(key: &[u8], pc: u32, pb: u32) -> (u32, u32) {
    let mut a: u32 = 0xdead_beefu32
        .wrapping_add(key.len() as u32)
        .wrapping_add(pc);
    let mut b = a;
    let mut c = a.wrapping_add(pb);
    let mut k = key;
    let rd = |s: &[u8]| -> u32 { u32::from_le_bytes([s[0], s[1], s[2], s[3]]) };
    while k.len() > 12 {
        a = a.wrapping_add(rd(&k[0..4]));
        b = b.wrapping_add(rd(&k[4..8]));
        c = c.wrapping_add(rd(&k[8..12]));
        // mix
        a = a.wrapping_sub(c); a ^= rot(c, 4); c = c.wrapping_add(b);
        b = b.wrapping_sub(a); b ^= rot(a, 6); a = a.wrapping_add(c);
        c = c.wrapping_sub(b); c ^= rot(b, 8); b = b.wrapping_add(a);
        a = a.wrapping_sub(c); a ^= rot(c, 16); c = c.wrapping_add(b);
        b = b.wrapping_sub(a); b ^= rot(a, 19); a = a.wrapping_add(c);
        c = c.wrapping_sub(b); c ^= rot(b, 4); b = b.wrapping_add(a);
        k = &k[12..];
    }
    if k.is_empty() {
        return (c, b);
    }
    // last block: bytes added little-endian into a, b, c
    for (i, &byte) in k.iter().enumerate() {
        let v = (byte as u32) << (8 * (i % 4));
        match i / 4 {
            0 => a = a.wrapping_add(v),
            1 => b = b.wrapping_add(v),
            _ => c = c.wrapping_add(v),
        }
    }
    // final
    c ^= b; c = c.wrapping_sub(rot(b, 14));
    a ^= c; a = a.wrapping_sub(rot(c, 11));
    b ^= a; b = b.wrapping_sub(rot(a, 25));
    c ^= b; c = c.wrapping_sub(rot(b, 16));
    a ^= c; a = a.wrapping_sub(rot(c, 4));
    b ^= a; b = b.wrapping_sub(rot(a, 14));
    c ^= b; c = c.wrapping_sub(rot(b, 24));
    (c, b)
}

pub fn self_check() -> Result<(), String> {
    let v: [(&[u8], u32, u32, u32, u32); 6] = [
        (b"", 0, 0, 0xdeadbeef, 0xdeadbeef),
        (b"", 0, 0xdeadbeef, 0xbd5b7dde, 0xdeadbeef),
        (b"", 0xdeadbeef, 0xdeadbeef, 0x9c093ccd, 0xbd5b7dde),
        (b"Four score and seven years ago", 0, 0, 0x17770551, 0xce7226e6),
        (b"Four score and seven years ago", 0, 1, 0xe3607cae, 0xbd371de4),
        (b"Four score and seven years ago", 1, 0, 0xcd628161, 0x6cbea4b3),
    ];
    for (s, pc, pb, wc, wb) in v {
        let (c, b) = hashlittle2(s, pc, pb);
        if (c, b) != (wc, wb) {
            return Err(format!(
                "lookup3 self-check: hashlittle2({:?},{pc:#x},{pb:#x}) = ({c:#x},{b:#x}), driver says ({wc:#x},{wb:#x})",
                String::from_utf8_lossy(s)
            ));
        }
    }
    Ok(())
}
