//! MPQ crypt table, name hash and block cipher, written from the published format
//! description (Zezula / "The MoPaQ Archive Format"): table seeded with 0x00100001,
//! HashString with the four hash types, Encrypt/DecryptMpqBlock.

use std::sync::OnceLock;

pub const HASH_TABLE_OFFSET: u32 = 0x000;
pub const HASH_NAME_A: u32 = 0x100;
pub const HASH_NAME_B: u32 = 0x200;
pub const HASH_FILE_KEY: u32 = 0x300;

pub fn table() -> &'static [u32; 0x500] {
    static T: OnceLock<[u32; 0x500]> = OnceLock::new();
    T.get_or_init(|| {
        let mut t = [0u32; 0x500];
        let mut seed: u32 = 0x0010_0001;
        for i in 0..0x100usize {
            let mut idx = i;
            for _ in 0..5 {
                seed = (seed * 125 + 3) % 0x2A_AAAB;
                let hi = (seed & 0xFFFF) << 16;
                seed = (seed * 125 + 3) % 0x2A_AAAB;
                let lo = seed & 0xFFFF;
                t[idx] = hi | lo;
                idx += 0x100;
            }
        }
        t
    })
}

/// ASCII upper-case + '/' → '\\' (bytes ≥ 0x80 untouched)
pub fn fold_byte(b: u8) -> u8 {
    if b == b'/' {
        b'\\'
    } else if b.is_ascii_lowercase() {
        b - 32
    } else {
        b
    }
}

pub fn fold(name: &[u8]) -> Vec<u8> {
    name.iter().map(|&b| fold_byte(b)).collect()
}

pub fn hash_string(name: &[u8], hash_type: u32) -> u32 {
    let t = table();
    let mut seed1: u32 = 0x7FED_7FED;
    let mut seed2: u32 = 0xEEEE_EEEE;
    for &raw in name {
        let ch = fold_byte(raw) as u32;
        seed1 = t[(hash_type + ch) as usize] ^ seed1.wrapping_add(seed2);
        seed2 = ch
            .wrapping_add(seed1)
            .wrapping_add(seed2)
            .wrapping_add(seed2 << 5)
            .wrapping_add(3);
    }
    seed1
}

pub fn encrypt_block(data: &mut [u32], mut key: u32) {
    let t = table();
    let mut seed: u32 = 0xEEEE_EEEE;
    for v in data.iter_mut() {
        seed = seed.wrapping_add(t[0x400 + (key & 0xFF) as usize]);
        let plain = *v;
        *v = plain ^ key.wrapping_add(seed);
        key = ((!key) << 0x15).wrapping_add(0x1111_1111) | (key >> 0x0B);
        seed = plain
            .wrapping_add(seed)
            .wrapping_add(seed << 5)
            .wrapping_add(3);
    }
}

pub fn decrypt_block(data: &mut [u32], mut key: u32) {
    let t = table();
    let mut seed: u32 = 0xEEEE_EEEE;
    for v in data.iter_mut() {
        seed = seed.wrapping_add(t[0x400 + (key & 0xFF) as usize]);
        let plain = *v ^ key.wrapping_add(seed);
        *v = plain;
        key = ((!key) << 0x15).wrapping_add(0x1111_1111) | (key >> 0x0B);
        seed = plain
            .wrapping_add(seed)
            .wrapping_add(seed << 5)
            .wrapping_add(3);
    }
}

/// Encrypt the whole words of a byte buffer, leaving the trailing `len % 4` bytes in clear
/// (what the published format / StormLib do).
pub fn encrypt_bytes(data: &mut [u8], key: u32) {
    let n = data.len() / 4;
    let mut w: Vec<u32> = (0..n)
        .map(|i| u32::from_le_bytes(data[i * 4..i * 4 + 4].try_into().unwrap()))
        .collect();
    encrypt_block(&mut w, key);
    for (i, x) in w.iter().enumerate() {
        data[i * 4..i * 4 + 4].copy_from_slice(&x.to_le_bytes());
    }
}

pub fn decrypt_bytes(data: &mut [u8], key: u32) {
    let n = data.len() / 4;
    let mut w: Vec<u32> = (0..n)
        .map(|i| u32::from_le_bytes(data[i * 4..i * 4 + 4].try_into().unwrap()))
        .collect();
    decrypt_block(&mut w, key);
    for (i, x) in w.iter().enumerate() {
        data[i * 4..i * 4 + 4].copy_from_slice(&x.to_le_bytes());
    }
}

/// plain name = part after the last path separator
pub fn plain_name(name: &[u8]) -> &[u8] {
    match name.iter().rposition(|&b| b == b'\\' || b == b'/') {
        Some(i) => &name[i + 1..],
        None => name,
    }
}

/// File key per the published format: hash of the plain name, optionally adjusted.
pub fn file_key(name: &[u8], fix_key: bool, file_pos: u32, file_size: u32) -> u32 {
    let k = hash_string(plain_name(name), HASH_FILE_KEY);
    if fix_key {
        k.wrapping_add(file_pos) ^ file_size
    } else {
        k
    }
}

/// Self-check against published constants. Err ⇒ the oracle is invalid (exit 2), never the code.
pub fn self_check() -> Result<(), String> {
    let checks: [(&str, u32, u32); 4] = [
        ("(hash table)", HASH_FILE_KEY, 0xC3AF_3770),
        ("(block table)", HASH_FILE_KEY, 0xEC83_B3A3),
        ("(listfile)", HASH_TABLE_OFFSET, 0x5F3D_E859),
        ("arr\\units.dat", HASH_TABLE_OFFSET, 0xF4E6_C69D),
    ];
    for (s, t, want) in checks {
        let got = hash_string(s.as_bytes(), t);
        if got != want {
            return Err(format!("refcrypt hash({s},{t:#x}) = {got:#x}, published {want:#x}"));
        }
    }
    if hash_string(b"unit\\neutral\\acritter.grp", HASH_TABLE_OFFSET) != 0xA260_67F3 {
        return Err("refcrypt spec example 2 mismatch".into());
    }
    let t = table();
    if t[0] != 0x55C6_36E2 {
        return Err(format!("refcrypt table[0] = {:#x}", t[0]));
    }
    // cipher inverts
    let mut w = [1u32, 2, 3, 0xFFFF_FFFF, 0];
    let o = w;
    encrypt_block(&mut w, 0xC3AF_3770);
    if w == o {
        return Err("cipher identity".into());
    }
    decrypt_block(&mut w, 0xC3AF_3770);
    if w != o {
        return Err("cipher does not invert".into());
    }
    Ok(())
}
