//! Independent reader and writer for the published subset of the MPQ format
//! (V1/V2 headers, classic encrypted hash/block tables, linear probing, single-unit and
//! sectored files, sector offset table, per-sector method byte, zlib/bzip2, file keys from the
//! plain name with optional position adjustment, trailing bytes of encrypted data in clear).
//! Written from the format description; does not call into wow-mpq.

use super::refcrypt as rc;
use std::io::{Read, Write};

pub const F_IMPLODE: u32 = 0x0000_0100;
pub const F_COMPRESS: u32 = 0x0000_0200;
pub const F_ENCRYPTED: u32 = 0x0001_0000;
pub const F_FIX_KEY: u32 = 0x0002_0000;
pub const F_PATCH: u32 = 0x0010_0000;
pub const F_SINGLE: u32 = 0x0100_0000;
pub const F_DELETE: u32 = 0x0200_0000;
pub const F_CRC: u32 = 0x0400_0000;
pub const F_EXISTS: u32 = 0x8000_0000;

pub const HASH_EMPTY: u32 = 0xFFFF_FFFF;
pub const HASH_DELETED: u32 = 0xFFFF_FFFE;

#[derive(Clone, Copy, Debug, PartialEq, Eq)]
pub struct HashEnt {
    pub name_a: u32,
    pub name_b: u32,
    pub locale: u16,
    pub platform: u16,
    pub block: u32,
}

#[derive(Clone, Copy, Debug, PartialEq, Eq)]
pub struct BlockEnt {
    pub pos: u32,
    pub csize: u32,
    pub fsize: u32,
    pub flags: u32,
}

#[derive(Clone, Debug)]
pub struct RefHeader {
    pub base: usize,
    pub header_size: u32,
    pub archive_size: u32,
    pub version: u16,
    pub shift: u16,
    pub hash_pos: u64,
    pub block_pos: u64,
    pub hash_count: u32,
    pub block_count: u32,
    pub hi_block_pos: u64,
}

pub struct RefArchive<'a> {
    pub data: &'a [u8],
    pub h: RefHeader,
    pub hash: Vec<HashEnt>,
    pub block: Vec<BlockEnt>,
}

fn u16le(b: &[u8], o: usize) -> u16 {
    u16::from_le_bytes([b[o], b[o + 1]])
}
fn u32le(b: &[u8], o: usize) -> u32 {
    u32::from_le_bytes([b[o], b[o + 1], b[o + 2], b[o + 3]])
}

pub fn parse(data: &[u8]) -> Result<RefArchive<'_>, String> {
    // header search at 512-byte boundaries
    let mut base = None;
    let mut off = 0usize;
    while off + 32 <= data.len() {
        if &data[off..off + 4] == b"MPQ\x1A" {
            base = Some(off);
            break;
        }
        off += 512;
    }
    let base = base.ok_or("no MPQ header at a 512-byte boundary")?;
    let hb = &data[base..];
    let header_size = u32le(hb, 4);
    let archive_size = u32le(hb, 8);
    let version = u16le(hb, 12);
    let shift = u16le(hb, 14);
    let mut hash_pos = u32le(hb, 16) as u64;
    let mut block_pos = u32le(hb, 20) as u64;
    let hash_count = u32le(hb, 24);
    let block_count = u32le(hb, 28);
    let mut hi_block_pos = 0u64;
    match version {
        0 => {
            if header_size != 32 {
                return Err(format!("V1 header size {header_size} != 32"));
            }
        }
        1 => {
            if header_size != 44 {
                return Err(format!("V2 header size {header_size} != 44"));
            }
            if hb.len() < 44 {
                return Err("truncated V2 header".into());
            }
            hi_block_pos = u64::from_le_bytes(hb[32..40].try_into().unwrap());
            hash_pos |= (u16le(hb, 40) as u64) << 32;
            block_pos |= (u16le(hb, 42) as u64) << 32;
        }
        v => return Err(format!("format version {v} outside the published V1/V2 subset")),
    }
    if hash_count == 0 || !hash_count.is_power_of_two() {
        return Err(format!("hash table size {hash_count} is not a power of two"));
    }
    let hend = base as u64 + hash_pos + hash_count as u64 * 16;
    let bend = base as u64 + block_pos + block_count as u64 * 16;
    if hend > data.len() as u64 || bend > data.len() as u64 {
        return Err(format!(
            "tables outside the file: hash end {hend}, block end {bend}, file {}",
            data.len()
        ));
    }
    let mut ht = data[base + hash_pos as usize..hend as usize].to_vec();
    rc::decrypt_bytes(&mut ht, rc::hash_string(b"(hash table)", rc::HASH_FILE_KEY));
    let hash = (0..hash_count as usize)
        .map(|i| HashEnt {
            name_a: u32le(&ht, i * 16),
            name_b: u32le(&ht, i * 16 + 4),
            locale: u16le(&ht, i * 16 + 8),
            platform: u16le(&ht, i * 16 + 10),
            block: u32le(&ht, i * 16 + 12),
        })
        .collect();
    let mut bt = data[base + block_pos as usize..bend as usize].to_vec();
    rc::decrypt_bytes(&mut bt, rc::hash_string(b"(block table)", rc::HASH_FILE_KEY));
    let block = (0..block_count as usize)
        .map(|i| BlockEnt {
            pos: u32le(&bt, i * 16),
            csize: u32le(&bt, i * 16 + 4),
            fsize: u32le(&bt, i * 16 + 8),
            flags: u32le(&bt, i * 16 + 12),
        })
        .collect();
    Ok(RefArchive {
        data,
        h: RefHeader {
            base,
            header_size,
            archive_size,
            version,
            shift,
            hash_pos,
            block_pos,
            hash_count,
            block_count,
            hi_block_pos,
        },
        hash,
        block,
    })
}

fn unpack(method: u8, src: &[u8], want: usize) -> Result<Vec<u8>, String> {
    let mut out = Vec::with_capacity(want);
    match method {
        0x02 => {
            flate2::read::ZlibDecoder::new(src)
                .read_to_end(&mut out)
                .map_err(|e| format!("zlib: {e}"))?;
        }
        0x10 => {
            bzip2::read::BzDecoder::new(src)
                .read_to_end(&mut out)
                .map_err(|e| format!("bzip2: {e}"))?;
        }
        m => return Err(format!("method byte {m:#x} outside the reference subset")),
    }
    if out.len() != want {
        return Err(format!("unpacked {} bytes, expected {want}", out.len()));
    }
    Ok(out)
}

impl<'a> RefArchive<'a> {
    pub fn sector(&self) -> usize {
        512usize << self.h.shift
    }

    /// Reference lookup: (block index, number of slots probed)
    pub fn find(&self, name: &[u8]) -> (Option<usize>, usize) {
        let n = self.hash.len();
        let start = (rc::hash_string(name, rc::HASH_TABLE_OFFSET) as usize) & (n - 1);
        let a = rc::hash_string(name, rc::HASH_NAME_A);
        let b = rc::hash_string(name, rc::HASH_NAME_B);
        let mut i = start;
        let mut probes = 0;
        loop {
            probes += 1;
            let e = &self.hash[i];
            if e.block == HASH_EMPTY {
                return (None, probes);
            }
            if e.block != HASH_DELETED && e.name_a == a && e.name_b == b {
                return (Some(e.block as usize), probes);
            }
            i = (i + 1) & (n - 1);
            if i == start {
                return (None, probes);
            }
        }
    }

    pub fn extract(&self, name: &[u8]) -> Result<Vec<u8>, String> {
        let (bi, _) = self.find(name);
        let bi = bi.ok_or("name not found by reference probing")?;
        let be = *self.block.get(bi).ok_or("block index outside the block table")?;
        if be.flags & F_EXISTS == 0 {
            return Err("block entry without EXISTS flag".into());
        }
        if be.flags & (F_IMPLODE | F_PATCH) != 0 {
            return Err("implode/patch entries are outside the reference subset".into());
        }
        let start = self.h.base + be.pos as usize;
        let fsize = be.fsize as usize;
        let key = if be.flags & F_ENCRYPTED != 0 {
            rc::file_key(name, be.flags & F_FIX_KEY != 0, be.pos, be.fsize)
        } else {
            0
        };
        let enc = be.flags & F_ENCRYPTED != 0;
        let stored = self
            .data
            .get(start..start + be.csize as usize)
            .ok_or("file data outside the archive")?;
        if be.flags & F_SINGLE != 0 {
            let mut d = stored.to_vec();
            if enc {
                rc::decrypt_bytes(&mut d, key);
            }
            if be.flags & F_COMPRESS != 0 && d.len() < fsize {
                if d.is_empty() {
                    return Err("empty compressed unit".into());
                }
                return unpack(d[0], &d[1..], fsize);
            }
            if d.len() != fsize {
                return Err(format!("stored unit {} bytes, file size {fsize}", d.len()));
            }
            return Ok(d);
        }
        let ss = self.sector();
        let nsec = fsize.div_ceil(ss);
        if be.flags & F_COMPRESS == 0 {
            // raw sectors, no offset table
            if stored.len() != fsize {
                return Err(format!(
                    "uncompressed sectored file stores {} bytes for file size {fsize} (the format has no sector offset table here)",
                    stored.len()
                ));
            }
            let mut out = stored.to_vec();
            if enc {
                for (i, ch) in out.chunks_mut(ss).enumerate() {
                    rc::decrypt_bytes(ch, key.wrapping_add(i as u32));
                }
            }
            return Ok(out);
        }
        let entries = nsec + 1 + (be.flags & F_CRC != 0) as usize;
        let mut tab = stored
            .get(..entries * 4)
            .ok_or("sector offset table truncated")?
            .to_vec();
        if enc {
            rc::decrypt_bytes(&mut tab, key.wrapping_sub(1));
        }
        let offs: Vec<usize> = (0..entries).map(|i| u32le(&tab, i * 4) as usize).collect();
        if offs[0] != entries * 4 {
            return Err(format!(
                "first sector offset {} != size of the offset table {}",
                offs[0],
                entries * 4
            ));
        }
        let mut out = Vec::with_capacity(fsize);
        let mut sums: Vec<u32> = vec![];
        for i in 0..nsec {
            let (a, b) = (offs[i], offs[i + 1]);
            if b < a || b > stored.len() {
                return Err(format!("sector {i} offsets {a}..{b} invalid (stored {})", stored.len()));
            }
            let mut sec = stored[a..b].to_vec();
            if enc {
                rc::decrypt_bytes(&mut sec, key.wrapping_add(i as u32));
            }
            sums.push(adler32(&sec));
            let want = ss.min(fsize - out.len());
            if sec.len() < want {
                if sec.is_empty() {
                    return Err(format!("sector {i} empty"));
                }
                out.extend(unpack(sec[0], &sec[1..], want).map_err(|e| format!("sector {i}: {e}"))?);
            } else if sec.len() == want {
                out.extend_from_slice(&sec);
            } else {
                return Err(format!("sector {i} stores {} bytes for {want}", sec.len()));
            }
        }
        if offs[nsec] != be.csize as usize && be.flags & F_CRC == 0 {
            return Err(format!(
                "last sector offset {} != compressed size {}",
                offs[nsec], be.csize
            ));
        }
        if be.flags & F_CRC != 0 {
            // The checksum sector lies between the last two offsets, which end the stored file. It
            // holds one ADLER32 per data sector, computed over the sector as stored before encryption;
            // it is compressed like a data sector when that makes it smaller and is never encrypted;
            // an entry of 0 or 0xFFFFFFFF means "no checksum".
            let (a, b) = (offs[nsec], offs[nsec + 1]);
            if b < a || b != be.csize as usize {
                return Err(format!("checksum sector offsets {a}..{b} do not end at the stored size {}", be.csize));
            }
            let raw = &stored[a..b];
            let table: Vec<u8> = if raw.len() == nsec * 4 {
                raw.to_vec()
            } else if raw.is_empty() {
                vec![]
            } else if raw.len() < nsec * 4 {
                unpack(raw[0], &raw[1..], nsec * 4).map_err(|e| format!("checksum sector: {e}"))?
            } else {
                return Err(format!("checksum sector stores {} bytes for {nsec} sectors", raw.len()));
            };
            for (i, want) in table.chunks_exact(4).enumerate() {
                let want = u32::from_le_bytes(want.try_into().unwrap());
                if want != 0 && want != 0xFFFF_FFFF && want != sums[i] {
                    return Err(format!("sector {i}: checksum entry {want:#010x}, ADLER32 of the stored sector {:#010x}", sums[i]));
                }
            }
        }
        Ok(out)
    }
}

/// ADLER32 (RFC 1950), written out here so that the reference shares no code with the library
pub fn adler32(data: &[u8]) -> u32 {
    let (mut a, mut b) = (1u32, 0u32);
    for chunk in data.chunks(5552) {
        for &x in chunk {
            a += x as u32;
            b += a;
        }
        a %= 65521;
        b %= 65521;
    }
    (b << 16) | a
}

// -----------------------------------------------------------------------------------------
// writer

#[derive(Clone, Debug, PartialEq, Eq, serde::Serialize, serde::Deserialize)]
pub struct RefFile {
    pub name: String,
    pub data_class: crate::gens::mpq::ContentClass,
    pub len: usize,
    pub seed: u32,
    /// 0 = stored, 0x02 zlib, 0x10 bzip2
    pub method: u8,
    pub single_unit: bool,
    pub encrypted: bool,
    pub fix_key: bool,
    /// bytes of slack before this file's data
    pub gap: u16,
    /// sectored + compressed files only: write a checksum sector (SECTOR_CRC flag)
    #[serde(default)]
    pub crc: bool,
}

#[derive(Clone, Debug, PartialEq, Eq, serde::Serialize, serde::Deserialize)]
pub struct RefSpec {
    pub v2: bool,
    pub shift: u16,
    /// log2 of hash table size (2..=8)
    pub hash_log2: u8,
    /// 512-byte units of junk before the header
    pub lead_units: u8,
    /// names inserted and then deleted again (leave DELETED markers in probe chains)
    pub ghosts: Vec<String>,
    /// write files in reverse order
    pub reverse: bool,
    pub files: Vec<RefFile>,
}

fn pack(method: u8, src: &[u8]) -> Vec<u8> {
    let mut out = vec![method];
    match method {
        0x02 => {
            let mut e = flate2::write::ZlibEncoder::new(&mut out, flate2::Compression::new(6));
            e.write_all(src).unwrap();
            e.finish().unwrap();
        }
        0x10 => {
            let mut e = bzip2::write::BzEncoder::new(&mut out, bzip2::Compression::new(9));
            e.write_all(src).unwrap();
            e.finish().unwrap();
        }
        _ => unreachable!(),
    }
    out
}

impl RefSpec {
    pub fn content(&self, i: usize) -> Vec<u8> {
        let f = &self.files[i];
        crate::gens::mpq::materialize(f.data_class, f.len, f.seed)
    }
    pub fn hash_size(&self) -> usize {
        let need = (self.files.len() + self.ghosts.len() + 1).next_power_of_two();
        (1usize << self.hash_log2).max(need).max(4)
    }

    /// Serialise. Returns the archive bytes.
    pub fn write(&self) -> Vec<u8> {
        self.write_malformed(0)
    }

    /// `write`, except that the checksum sector of every file with `crc` lacks its last `crc_drop` entries
    /// (a deliberately malformed archive for the totality check; 0 = well-formed)
    pub fn write_malformed(&self, crc_drop: usize) -> Vec<u8> {
        let ss = 512usize << self.shift;
        let base = self.lead_units as usize * 512;
        let hsize: usize = if self.v2 { 44 } else { 32 };
        let mut out = vec![0u8; base + hsize];
        // leading junk (must not contain the magic at a 512 boundary: use 0xA5)
        for b in out[..base].iter_mut() {
            *b = 0xA5;
        }
        let n = self.hash_size();
        let mut hash = vec![
            HashEnt {
                name_a: 0xFFFF_FFFF,
                name_b: 0xFFFF_FFFF,
                locale: 0xFFFF,
                platform: 0xFFFF,
                block: HASH_EMPTY
            };
            n
        ];
        let mut blocks: Vec<BlockEnt> = vec![];
        let insert = |hash: &mut Vec<HashEnt>, name: &[u8], block: u32| -> usize {
            let mut i = (rc::hash_string(name, rc::HASH_TABLE_OFFSET) as usize) & (n - 1);
            loop {
                if hash[i].block == HASH_EMPTY || hash[i].block == HASH_DELETED {
                    hash[i] = HashEnt {
                        name_a: rc::hash_string(name, rc::HASH_NAME_A),
                        name_b: rc::hash_string(name, rc::HASH_NAME_B),
                        locale: 0,
                        platform: 0,
                        block,
                    };
                    return i;
                }
                i = (i + 1) & (n - 1);
            }
        };
        // ghosts first so that later files probe through their markers
        let mut ghost_slots = vec![];
        for g in &self.ghosts {
            ghost_slots.push(insert(&mut hash, g.as_bytes(), 0));
        }
        let order: Vec<usize> = if self.reverse {
            (0..self.files.len()).rev().collect()
        } else {
            (0..self.files.len()).collect()
        };
        for &fi in &order {
            let f = &self.files[fi];
            let data = self.content(fi);
            out.extend(std::iter::repeat(0xEE).take(f.gap as usize));
            let pos = (out.len() - base) as u32;
            let mut flags = F_EXISTS;
            if f.encrypted {
                flags |= F_ENCRYPTED;
                if f.fix_key {
                    flags |= F_FIX_KEY;
                }
            }
            let key = if f.encrypted {
                rc::file_key(f.name.as_bytes(), f.fix_key, pos, data.len() as u32)
            } else {
                0
            };
            let single = f.single_unit || data.len() <= 0;
            let stored: Vec<u8>;
            if single {
                flags |= F_SINGLE;
                let mut d = if f.method != 0 && !data.is_empty() {
                    flags |= F_COMPRESS;
                    let p = pack(f.method, &data);
                    if p.len() < data.len() { p } else { data.clone() }
                } else {
                    data.clone()
                };
                if f.encrypted {
                    rc::encrypt_bytes(&mut d, key);
                }
                stored = d;
            } else if f.method == 0 {
                let mut d = data.clone();
                if f.encrypted {
                    for (i, ch) in d.chunks_mut(ss).enumerate() {
                        rc::encrypt_bytes(ch, key.wrapping_add(i as u32));
                    }
                }
                stored = d;
            } else {
                flags |= F_COMPRESS;
                if f.crc {
                    flags |= F_CRC;
                }
                let nsec = data.len().div_ceil(ss);
                let tsize = (nsec + 1 + f.crc as usize) * 4;
                let mut offs = vec![tsize as u32];
                let mut body = vec![];
                let mut sums: Vec<u8> = vec![];
                for (i, ch) in data.chunks(ss).enumerate() {
                    let p = pack(f.method, ch);
                    let mut sec = if p.len() < ch.len() { p } else { ch.to_vec() };
                    sums.extend(adler32(&sec).to_le_bytes());
                    if f.encrypted {
                        rc::encrypt_bytes(&mut sec, key.wrapping_add(i as u32));
                    }
                    body.extend_from_slice(&sec);
                    offs.push((tsize + body.len()) as u32);
                }
                if f.crc {
                    sums.truncate(sums.len().saturating_sub(4 * crc_drop));
                    // checksum sector: compressed when smaller, never encrypted
                    let p = pack(0x02, &sums);
                    body.extend_from_slice(if p.len() < sums.len() { &p } else { &sums });
                    offs.push((tsize + body.len()) as u32);
                }
                let mut tab: Vec<u8> = offs.iter().flat_map(|o| o.to_le_bytes()).collect();
                if f.encrypted {
                    rc::encrypt_bytes(&mut tab, key.wrapping_sub(1));
                }
                tab.extend(body);
                stored = tab;
            }
            out.extend_from_slice(&stored);
            let bi = blocks.len() as u32;
            blocks.push(BlockEnt {
                pos,
                csize: stored.len() as u32,
                fsize: data.len() as u32,
                flags,
            });
            insert(&mut hash, f.name.as_bytes(), bi);
        }
        // ghosts become deleted markers, unless a real file took... (insert never reuses a live slot)
        for s in ghost_slots {
            if hash[s].block == 0 && !self.ghost_slot_is_file(&hash, s) {
                hash[s] = HashEnt {
                    name_a: 0xFFFF_FFFF,
                    name_b: 0xFFFF_FFFF,
                    locale: 0xFFFF,
                    platform: 0xFFFF,
                    block: HASH_DELETED,
                };
            }
        }
        let hash_pos = (out.len() - base) as u32;
        let mut ht: Vec<u8> = hash
            .iter()
            .flat_map(|e| {
                let mut v = vec![];
                v.extend(e.name_a.to_le_bytes());
                v.extend(e.name_b.to_le_bytes());
                v.extend(e.locale.to_le_bytes());
                v.extend(e.platform.to_le_bytes());
                v.extend(e.block.to_le_bytes());
                v
            })
            .collect();
        rc::encrypt_bytes(&mut ht, rc::hash_string(b"(hash table)", rc::HASH_FILE_KEY));
        out.extend(ht);
        let block_pos = (out.len() - base) as u32;
        let mut bt: Vec<u8> = blocks
            .iter()
            .flat_map(|b| {
                let mut v = vec![];
                v.extend(b.pos.to_le_bytes());
                v.extend(b.csize.to_le_bytes());
                v.extend(b.fsize.to_le_bytes());
                v.extend(b.flags.to_le_bytes());
                v
            })
            .collect();
        rc::encrypt_bytes(&mut bt, rc::hash_string(b"(block table)", rc::HASH_FILE_KEY));
        out.extend(bt);
        let asize = (out.len() - base) as u32;
        let h = &mut out[base..base + hsize];
        h[0..4].copy_from_slice(b"MPQ\x1A");
        h[4..8].copy_from_slice(&(hsize as u32).to_le_bytes());
        h[8..12].copy_from_slice(&asize.to_le_bytes());
        h[12..14].copy_from_slice(&(self.v2 as u16).to_le_bytes());
        h[14..16].copy_from_slice(&self.shift.to_le_bytes());
        h[16..20].copy_from_slice(&hash_pos.to_le_bytes());
        h[20..24].copy_from_slice(&block_pos.to_le_bytes());
        h[24..28].copy_from_slice(&(n as u32).to_le_bytes());
        h[28..32].copy_from_slice(&(blocks.len() as u32).to_le_bytes());
        if self.v2 {
            // hi-block table pos 0, high words 0
            for b in h[32..44].iter_mut() {
                *b = 0;
            }
        }
        out
    }

    fn ghost_slot_is_file(&self, hash: &[HashEnt], slot: usize) -> bool {
        // a ghost slot still carries the ghost's own hashes; a real file with block 0 has its own
        let e = hash[slot];
        self.files.iter().any(|f| {
            rc::hash_string(f.name.as_bytes(), rc::HASH_NAME_A) == e.name_a
                && rc::hash_string(f.name.as_bytes(), rc::HASH_NAME_B) == e.name_b
        })
    }
}
