pub mod engine;
pub mod gens;
pub mod oracle;
