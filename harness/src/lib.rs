pub mod engine;
pub mod ffi;
pub mod gens;
pub mod oracle;
pub mod targets;
