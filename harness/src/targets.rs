//! Parser-totality targets shared by both engines of C05.
//!
//! `run_target(format, bytes, scratch)` drives every public entry point of one format on one byte
//! string. Engine A (`src/bin/c05`, supervised workers, tracking allocator) and engine B
//! (`/verif/fuzz`, libFuzzer targets) call the same function, and both build panic signatures with
//! `c05_panic_signature`, so a crash found by one engine is classified identically by the other.
use std::io::Cursor;

/// the 15 format families of C05 (= names of the libFuzzer targets)
pub const FORMATS: [&str; 15] =
    ["mpq", "attributes", "listfile", "patch", "decompress", "m2", "skin", "anim", "adt", "wmo_root", "wmo_group", "blp", "dbc", "wdt", "wdl"];

/// largest block count the "attributes" input encoding can ask for
pub const ATTRIBUTES_MAX_BLOCKS: usize = 4096;

/// input encoding of the "attributes" family: `[block_count u16 LE][(attributes) file data]`
/// (`Attributes::parse` takes the block count from the archive's tables, i.e. from the caller);
/// counts above `ATTRIBUTES_MAX_BLOCKS` are clamped
pub fn split_attributes_input(bytes: &[u8]) -> Option<(usize, &[u8])> {
    if bytes.len() < 2 {
        return None;
    }
    Some(((u16::from_le_bytes([bytes[0], bytes[1]]) as usize).min(ATTRIBUTES_MAX_BLOCKS), &bytes[2..]))
}

/// the base file the "patch" target applies parsed patches to (300 bytes of seeded text)
pub fn patch_base() -> Vec<u8> {
    crate::gens::mpq::materialize(crate::gens::mpq::ContentClass::Text, 300, 42)
}

fn ek<E: std::fmt::Debug>(e: &E) -> String {
    let s = format!("{e:?}");
    let k: String = s.chars().take_while(|c| c.is_alphanumeric()).collect();
    format!("err:{k}")
}

/// C05 signature of a panic from the raw `engine::guard(format, ..)` signature
/// `panic@<format>:<site>:<message>`: the root cause is the panic site, not the entry point, so the
/// signature leads with the site: `panic:<site>:<message>@<format>` (one known-finding entry
/// `panic:dep:<crate>/*` then covers a dependency that panics on untrusted data whatever the entry point)
pub fn c05_panic_signature(raw: &str) -> String {
    match raw.strip_prefix("panic@").and_then(|r| r.split_once(':')) {
        Some((fmt, site)) => format!("panic:{site}@{fmt}"),
        None => raw.to_string(),
    }
}

/// Run every public entry point of the format on `bytes`. Returns an outcome class
/// ("ok" / "err:Kind" of the first stage). Panics propagate to the caller's guard.
/// `scratch` is an existing directory the "mpq" and "dbc" targets may write `t.mpq` / `t.dbc` into.
pub fn run_target(format: &str, bytes: &[u8], scratch: &std::path::Path) -> String {
    match format {
        "mpq" => {
            let p = scratch.join("t.mpq");
            std::fs::write(&p, bytes).unwrap();
            let mut a = match wow_mpq::Archive::open(&p) {
                Ok(a) => a,
                Err(e) => return ek(&e),
            };
            let _ = a.get_info();
            let listed = a.list().unwrap_or_default();
            let all = a.list_all().unwrap_or_default();
            let _ = a.list_with_hashes();
            let _ = a.list_all_with_hashes();
            let _ = a.load_attributes();
            let _ = a.verify_signature();
            let mut names: Vec<String> = listed.iter().take(24).map(|e| e.name.clone()).collect();
            for n in ["(listfile)", "(attributes)", "(signature)", "d0\\f0.bin", "d1\\f1.bin", "d0\\f2.bin", "d1\\f3.bin", "d0\\f4.bin", "nope"] {
                names.push(n.to_string());
            }
            for n in &names {
                let _ = a.find_file(n);
                let _ = a.read_file(n);
            }
            for e in all.iter().take(12).chain(listed.iter().take(6)) {
                if let Some((h, b)) = e.table_indices {
                    let _ = a.read_file_by_indices(h, b);
                }
            }
            "ok".into()
        }
        "attributes" => {
            let Some((block_count, data)) = split_attributes_input(bytes) else {
                return "err:short".into();
            };
            let data = bytes::Bytes::copy_from_slice(data);
            match wow_mpq::special_files::Attributes::parse(&data, block_count) {
                Ok(a) => {
                    // touch the per-block data of every block index (and one past the end)
                    let mut acc = 0u64;
                    for i in 0..=block_count {
                        if let Some(f) = a.get_file_attributes(i) {
                            acc = acc
                                .wrapping_add(f.crc32.unwrap_or(0) as u64)
                                .wrapping_add(f.filetime.unwrap_or(0))
                                .wrapping_add(f.md5.map(|m| m[0] as u64).unwrap_or(0))
                                .wrapping_add(f.is_patch.unwrap_or(false) as u64);
                        }
                    }
                    std::hint::black_box(acc);
                    let flags = a.flags;
                    std::hint::black_box((flags.has_crc32(), flags.has_filetime(), flags.has_md5(), flags.has_patch_bit(), flags.as_u32()));
                    if a.file_attributes.len() == block_count { "ok".into() } else { "ok;short-table".into() }
                }
                Err(e) => ek(&e),
            }
        }
        "listfile" => match wow_mpq::special_files::parse_listfile(bytes) {
            Ok(names) => {
                std::hint::black_box(names.iter().map(|n| n.len()).sum::<usize>());
                "ok".into()
            }
            Err(e) => ek(&e),
        },
        "patch" => {
            let pf = match wow_mpq::patch::PatchFile::parse(bytes) {
                Ok(p) => p,
                Err(e) => return ek(&e),
            };
            match wow_mpq::patch::apply_patch(&pf, &patch_base()) {
                Ok(_) => "ok".into(),
                Err(e) => format!("parsed;apply-{}", ek(&e)),
            }
        }
        "decompress" => {
            if bytes.len() < 3 {
                return "err:short".into();
            }
            let want = u16::from_le_bytes([bytes[1], bytes[2]]) as usize;
            match wow_mpq::compression::decompress(&bytes[3..], bytes[0], want) {
                Ok(_) => "ok".into(),
                Err(e) => ek(&e),
            }
        }
        "m2" => match wow_m2::parse_m2(&mut Cursor::new(bytes)) {
            Ok(_) => "ok".into(),
            Err(e) => ek(&e),
        },
        "skin" => {
            let r = wow_m2::parse_skin(&mut Cursor::new(bytes));
            let _ = wow_m2::SkinFile::parse(&mut Cursor::new(bytes));
            match r {
                Ok(_) => "ok".into(),
                Err(e) => ek(&e),
            }
        }
        "anim" => match wow_m2::AnimFile::parse(&mut Cursor::new(bytes)) {
            Ok(_) => "ok".into(),
            Err(e) => ek(&e),
        },
        "adt" => match wow_adt::parse_adt(&mut Cursor::new(bytes)) {
            Ok(_) => "ok".into(),
            Err(e) => ek(&e),
        },
        "wmo_root" | "wmo_group" => {
            let r = wow_wmo::parse_wmo(&mut Cursor::new(bytes));
            let _ = wow_wmo::parse_wmo_with_metadata(&mut Cursor::new(bytes));
            if format == "wmo_root" {
                let _ = wow_wmo::WmoParser::new().parse_root(&mut Cursor::new(bytes));
            } else {
                let _ = wow_wmo::WmoGroupParser::new().parse_group(&mut Cursor::new(bytes), 0);
            }
            match r {
                Ok(_) => "ok".into(),
                Err(e) => ek(&e),
            }
        }
        "blp" => {
            let r = wow_blp::parser::parse_blp(bytes);
            let _ = wow_blp::parser::load_blp_from_buf(bytes);
            match r {
                Ok(img) => {
                    for i in 0..img.image_count().min(4) {
                        let _ = wow_blp::convert::blp_to_image(&img, i);
                    }
                    "ok".into()
                }
                Err(e) => ek(&e),
            }
        }
        "dbc" => {
            let p = match wow_cdbc::DbcParser::parse_bytes(bytes) {
                Ok(p) => p,
                Err(e) => return ek(&e),
            };
            let r = p.parse_records();
            // lazy and mmap paths
            let path = scratch.join("t.dbc");
            std::fs::write(&path, bytes).unwrap();
            if let Ok(m) = wow_cdbc::MmapDbcFile::open(&path) {
                let _ = m.parser().parse_records();
            }
            // schema-driven access paths: every field read as a string reference (the interpretation that
            // dereferences untrusted offsets), then as plain integers with a key — eager, cached-string, lazy
            // (iterator with skips, indexed); the rayon path is left to C17 (a thread pool per fuzz process costs two orders of magnitude in throughput)
            let (fields, rsize) = (p.header().field_count as usize, p.header().record_size as usize);
            // (bounded: the access paths are what matters here, not the table size)
            if (1..=12).contains(&fields) && rsize == fields * 4 && p.header().record_count <= 16 && bytes.len() <= 8192 {
                for strings in [true, false] {
                    let mut schema = wow_cdbc::Schema::new("fuzz");
                    for i in 0..fields {
                        let ty = if strings && i % 2 == 1 || strings && fields == 1 { wow_cdbc::FieldType::String } else { wow_cdbc::FieldType::UInt32 };
                        schema.add_field(wow_cdbc::SchemaField::new(format!("f{i}"), ty));
                    }
                    if !strings {
                        schema.set_key_field_index(0);
                    }
                    let Ok(ps) = wow_cdbc::DbcParser::parse_bytes(bytes).and_then(|q| q.with_schema(schema)) else { continue };
                    let Ok(mut rs) = ps.parse_records() else { continue };
                    let refs: Vec<wow_cdbc::StringRef> = rs
                        .records()
                        .iter()
                        .take(64)
                        .flat_map(|r| r.values().iter().filter_map(|v| if let wow_cdbc::Value::StringRef(sr) = v { Some(*sr) } else { None }).collect::<Vec<_>>())
                        .chain([0u32, 1, p.header().string_block_size.wrapping_sub(1), p.header().string_block_size, p.header().string_block_size.wrapping_add(1), u32::MAX].map(wow_cdbc::StringRef::new))
                        .collect();
                    let mut acc = 0usize;
                    for sr in &refs {
                        acc += rs.get_string(*sr).map(|s| s.len()).unwrap_or(0);
                        acc += rs.string_block().get_string(*sr).map(|s| s.len()).unwrap_or(0);
                    }
                    let cached = wow_cdbc::CachedStringBlock::from_string_block(rs.string_block());
                    for sr in &refs {
                        acc += cached.get_string(*sr).map(|s| s.len()).unwrap_or(0);
                    }
                    rs.enable_string_caching();
                    for sr in &refs {
                        acc += rs.get_string(*sr).map(|s| s.len()).unwrap_or(0);
                    }
                    if !strings {
                        let _ = rs.create_sorted_key_map();
                        for k in [0u32, 1, 2, u32::MAX] {
                            acc += rs.get_record_by_key(k).map(|r| r.len()).unwrap_or(0);
                            acc += rs.get_record_by_key_binary_search(k).map(|r| r.len()).unwrap_or(0);
                        }
                    }
                    let sb = std::sync::Arc::new(rs.string_block().clone());
                    let lazy = wow_cdbc::LazyDbcParser::new(ps.data(), ps.header(), ps.schema(), std::sync::Arc::clone(&sb));
                    acc += lazy.record_iterator().take(64).filter(|r| r.is_ok()).count();
                    let mut it = lazy.record_iterator();
                    acc += it.next().is_some() as usize + it.nth(2).is_some() as usize + it.by_ref().skip(1).step_by(3).take(8).count();
                    for i in [0u32, 1, p.header().record_count.wrapping_sub(1), p.header().record_count, u32::MAX] {
                        acc += lazy.get_record(i).map(|r| r.len()).unwrap_or(0);
                    }
                    drop(sb);
                    std::hint::black_box(acc);
                }
            }
            match r {
                Ok(_) => "ok".into(),
                Err(e) => format!("header-ok;records-{}", ek(&e)),
            }
        }
        "wdt" => {
            let mut first = String::new();
            for v in [wow_wdt::version::WowVersion::Classic, wow_wdt::version::WowVersion::WotLK, wow_wdt::version::WowVersion::BfA] {
                let r = wow_wdt::WdtReader::new(Cursor::new(bytes), v).read();
                if first.is_empty() {
                    first = match r {
                        Ok(_) => "ok".into(),
                        Err(e) => ek(&e),
                    };
                }
            }
            first
        }
        "wdl" => {
            let r = wow_wdl::parser::WdlParser::new().parse(&mut Cursor::new(bytes));
            let _ = wow_wdl::parser::WdlParser::with_version(wow_wdl::version::WdlVersion::Legion).parse(&mut Cursor::new(bytes));
            match r {
                Ok(_) => "ok".into(),
                Err(e) => ek(&e),
            }
        }
        other => format!("err:unknown-format-{other}"),
    }
}
