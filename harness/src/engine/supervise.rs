//! Supervised workers: cases that may crash, abort, overflow the stack, hang or allocate
//! absurdly are executed in a child process (`<same exe> --worker <mode>`). The parent sends
//! one JSON line per case and reads one JSON line back; a child death is attributed to the
//! in-flight case and the child is restarted for the next case.
//!
//! Per-case CPU budget: ITIMER_PROF (process CPU time, not wall time) → SIGPROF kills the
//! worker. A worker that neither answers nor burns CPU (two samples 1 s apart after a wall
//! grace period) is classified `Deadlock`.

use serde_json::Value;
use std::alloc::{GlobalAlloc, Layout, System};
use std::io::{BufRead, BufReader, Write};
use std::os::unix::process::ExitStatusExt;
use std::process::{Child, ChildStdin, Command, Stdio};
use std::sync::atomic::{AtomicBool, AtomicUsize, Ordering};
use std::sync::mpsc::{Receiver, RecvTimeoutError, channel};
use std::time::Duration;

#[derive(Debug, Clone)]
pub enum Outcome {
    Done(Value),
    /// worker died; `how` ∈ cpu-limit | abort | segv | stack-overflow | alloc-limit | oom | exit(N) | signal(N)
    Died { how: String, stderr_tail: String },
    Deadlock { stderr_tail: String },
}

pub struct Spec {
    pub mode: String,
    pub extra_args: Vec<String>,
    /// CPU seconds per case (ITIMER_PROF in the worker)
    pub cpu_secs: u64,
    /// wall seconds of silence before the parent starts looking at CPU deltas
    pub wall_grace_secs: u64,
    /// address-space limit for the worker (bytes); 0 = none
    pub rlimit_as: u64,
    pub env: Vec<(String, String)>,
}

impl Spec {
    pub fn new(mode: &str) -> Spec {
        Spec {
            mode: mode.to_string(),
            extra_args: vec![],
            cpu_secs: 20,
            wall_grace_secs: 30,
            rlimit_as: 8 << 30,
            env: vec![],
        }
    }
}

struct Worker {
    child: Child,
    stdin: ChildStdin,
    rx: Receiver<String>,
    err_rx: Receiver<String>,
}

fn spawn(spec: &Spec) -> Worker {
    let exe = std::env::current_exe().expect("current_exe");
    let mut cmd = Command::new(exe);
    cmd.arg("--worker").arg(&spec.mode);
    for a in &spec.extra_args {
        cmd.arg(a);
    }
    cmd.env("VERIF_WORKER_CPU_SECS", spec.cpu_secs.to_string());
    for (k, v) in &spec.env {
        cmd.env(k, v);
    }
    cmd.stdin(Stdio::piped())
        .stdout(Stdio::piped())
        .stderr(Stdio::piped());
    let rl = spec.rlimit_as;
    unsafe {
        use std::os::unix::process::CommandExt;
        cmd.pre_exec(move || {
            if rl > 0 {
                let lim = libc::rlimit {
                    rlim_cur: rl,
                    rlim_max: rl,
                };
                libc::setrlimit(libc::RLIMIT_AS, &lim);
            }
            let core = libc::rlimit {
                rlim_cur: 0,
                rlim_max: 0,
            };
            libc::setrlimit(libc::RLIMIT_CORE, &core);
            Ok(())
        });
    }
    let mut child = cmd.spawn().expect("spawn worker");
    let stdin = child.stdin.take().unwrap();
    let stdout = child.stdout.take().unwrap();
    let stderr = child.stderr.take().unwrap();
    let (tx, rx) = channel();
    std::thread::spawn(move || {
        let r = BufReader::new(stdout);
        for line in r.lines() {
            match line {
                Ok(l) => {
                    if tx.send(l).is_err() {
                        break;
                    }
                }
                Err(_) => break,
            }
        }
    });
    let (etx, err_rx) = channel();
    std::thread::spawn(move || {
        let r = BufReader::new(stderr);
        for line in r.split(b'\n') {
            match line {
                Ok(l) => {
                    let _ = etx.send(String::from_utf8_lossy(&l).to_string());
                }
                Err(_) => break,
            }
        }
    });
    Worker {
        child,
        stdin,
        rx,
        err_rx,
    }
}

fn cpu_ticks(pid: u32) -> Option<u64> {
    // sum over all threads: /proc/pid/stat fields 14,15 (process-wide utime, stime)
    let s = std::fs::read_to_string(format!("/proc/{pid}/stat")).ok()?;
    let rp = s.rfind(')')?;
    let f: Vec<&str> = s[rp + 2..].split_whitespace().collect();
    let ut: u64 = f.get(11)?.parse().ok()?;
    let st: u64 = f.get(12)?.parse().ok()?;
    Some(ut + st)
}

fn drain_err(w: &Worker) -> String {
    let mut lines: Vec<String> = vec![];
    // read until the stderr reader thread sees EOF (sender dropped), at most ~2 s
    let deadline = std::time::Instant::now() + Duration::from_secs(2);
    loop {
        match w.err_rx.recv_timeout(Duration::from_millis(100)) {
            Ok(l) => {
                lines.push(l);
                if lines.len() > 400 {
                    lines.remove(0);
                }
            }
            Err(RecvTimeoutError::Disconnected) => break,
            Err(RecvTimeoutError::Timeout) => {
                if std::time::Instant::now() > deadline {
                    break;
                }
            }
        }
    }
    let n = lines.len();
    lines[n.saturating_sub(40)..].join("\n")
}

fn classify_death(status: std::process::ExitStatus, stderr: &str) -> String {
    if stderr.contains("ALLOC-LIMIT") {
        return "alloc-limit".into();
    }
    if stderr.contains("has overflowed its stack") {
        return "stack-overflow".into();
    }
    if stderr.contains("memory allocation of") {
        return "oom".into();
    }
    if let Some(sig) = status.signal() {
        return match sig {
            libc::SIGPROF | libc::SIGXCPU | libc::SIGVTALRM => "cpu-limit".into(),
            libc::SIGABRT => "abort".into(),
            libc::SIGSEGV | libc::SIGBUS => "segv".into(),
            libc::SIGKILL => "killed".into(),
            s => format!("signal({s})"),
        };
    }
    format!("exit({})", status.code().unwrap_or(-1))
}

/// Run all cases through supervised workers, `parallel` workers at a time. Results are
/// returned in case order.
pub fn run_cases(spec: &Spec, cases: &[Value], parallel: usize) -> Vec<Outcome> {
    let n = cases.len();
    let next = AtomicUsize::new(0);
    let results: Vec<std::sync::Mutex<Option<Outcome>>> =
        (0..n).map(|_| std::sync::Mutex::new(None)).collect();
    std::thread::scope(|scope| {
        for _ in 0..parallel.max(1).min(n.max(1)) {
            scope.spawn(|| {
                let mut worker: Option<Worker> = None;
                loop {
                    let i = next.fetch_add(1, Ordering::SeqCst);
                    if i >= n {
                        break;
                    }
                    if worker.is_none() {
                        worker = Some(spawn(spec));
                    }
                    let w = worker.as_mut().unwrap();
                    let line = serde_json::to_string(&cases[i]).unwrap();
                    let sent = writeln!(w.stdin, "{line}").and_then(|_| w.stdin.flush());
                    let mut outcome: Option<Outcome> = None;
                    if sent.is_ok() {
                        let mut waited = 0u64;
                        loop {
                            match w.rx.recv_timeout(Duration::from_secs(1)) {
                                Ok(l) => {
                                    if let Some(rest) = l.strip_prefix("R ") {
                                        let v: Value =
                                            serde_json::from_str(rest).unwrap_or(Value::Null);
                                        outcome = Some(Outcome::Done(v));
                                        break;
                                    }
                                    // other stdout noise from the library under test: ignore
                                }
                                Err(RecvTimeoutError::Timeout) => {
                                    waited += 1;
                                    if waited >= spec.wall_grace_secs {
                                        let pid = w.child.id();
                                        let a = cpu_ticks(pid);
                                        std::thread::sleep(Duration::from_secs(1));
                                        let b = cpu_ticks(pid);
                                        std::thread::sleep(Duration::from_secs(1));
                                        let c = cpu_ticks(pid);
                                        if a.is_some() && a == b && b == c {
                                            // stable: no CPU progress and no answer
                                            let _ = w.child.kill();
                                            let _ = w.child.wait();
                                            let tail = drain_err(w);
                                            outcome = Some(Outcome::Deadlock { stderr_tail: tail });
                                            worker = None;
                                            break;
                                        }
                                    }
                                }
                                Err(RecvTimeoutError::Disconnected) => break,
                            }
                        }
                    }
                    if outcome.is_none() {
                        // worker died
                        let w = worker.as_mut().unwrap();
                        let status = w.child.wait().expect("wait");
                        let tail = drain_err(w);
                        outcome = Some(Outcome::Died {
                            how: classify_death(status, &tail),
                            stderr_tail: tail,
                        });
                        worker = None;
                    }
                    *results[i].lock().unwrap() = outcome;
                }
                if let Some(mut w) = worker {
                    drop(w.stdin);
                    let _ = w.child.wait();
                }
            });
        }
    });
    results
        .into_iter()
        .map(|m| m.into_inner().unwrap().expect("result"))
        .collect()
}

// ---------------------------------------------------------------------------------------
// worker side

fn arm_cpu_timer(secs: u64) {
    let tv = libc::itimerval {
        it_interval: libc::timeval {
            tv_sec: 0,
            tv_usec: 0,
        },
        it_value: libc::timeval {
            tv_sec: secs as libc::time_t,
            tv_usec: 0,
        },
    };
    unsafe {
        libc::setitimer(libc::ITIMER_PROF, &tv, std::ptr::null_mut());
    }
}

/// Worker main loop: read a JSON case per line, answer `R <json>`.
pub fn worker_loop(mut f: impl FnMut(Value) -> Value) -> ! {
    let cpu: u64 = std::env::var("VERIF_WORKER_CPU_SECS")
        .ok()
        .and_then(|s| s.parse().ok())
        .unwrap_or(20);
    unsafe {
        libc::signal(libc::SIGPROF, libc::SIG_DFL);
    }
    let stdin = std::io::stdin();
    let mut line = String::new();
    loop {
        line.clear();
        match stdin.lock().read_line(&mut line) {
            Ok(0) | Err(_) => break,
            Ok(_) => {}
        }
        let v: Value = match serde_json::from_str(line.trim()) {
            Ok(v) => v,
            Err(_) => continue,
        };
        arm_cpu_timer(cpu);
        let r = f(v);
        arm_cpu_timer(0);
        let out = std::io::stdout();
        let mut o = out.lock();
        let _ = writeln!(o, "R {}", serde_json::to_string(&r).unwrap());
        let _ = o.flush();
    }
    std::process::exit(0)
}

// ---------------------------------------------------------------------------------------
// tracking allocator (opt-in per binary via #[global_allocator])

pub struct TrackingAlloc;

static SINGLE_LIMIT: AtomicUsize = AtomicUsize::new(usize::MAX);
static LIVE: AtomicUsize = AtomicUsize::new(0);
static LIVE_LIMIT: AtomicUsize = AtomicUsize::new(usize::MAX);
static PEAK_SINGLE: AtomicUsize = AtomicUsize::new(0);
static REPORTING: AtomicBool = AtomicBool::new(false);

/// Set limits for the next case: one request above `single` or live bytes above `live`
/// aborts the worker with an `ALLOC-LIMIT` line on stderr.
pub fn set_alloc_limits(single: usize, live: usize) {
    SINGLE_LIMIT.store(single, Ordering::SeqCst);
    LIVE_LIMIT.store(live, Ordering::SeqCst);
    PEAK_SINGLE.store(0, Ordering::SeqCst);
}
pub fn clear_alloc_limits() {
    SINGLE_LIMIT.store(usize::MAX, Ordering::SeqCst);
    LIVE_LIMIT.store(usize::MAX, Ordering::SeqCst);
}
pub fn peak_single() -> usize {
    PEAK_SINGLE.load(Ordering::SeqCst)
}
pub fn live_bytes() -> usize {
    LIVE.load(Ordering::SeqCst)
}

#[cold]
fn alloc_violation(kind: &str, size: usize) -> ! {
    if !REPORTING.swap(true, Ordering::SeqCst) {
        SINGLE_LIMIT.store(usize::MAX, Ordering::SeqCst);
        LIVE_LIMIT.store(usize::MAX, Ordering::SeqCst);
        let bt = std::backtrace::Backtrace::force_capture().to_string();
        // first frames inside /repo
        let mut frames = vec![];
        let lines: Vec<&str> = bt.lines().collect();
        for i in 0..lines.len() {
            let l = lines[i].trim();
            if l.starts_with("at ") && (l.contains("/repo/") || l.contains("file-formats/")) {
                if i > 0 {
                    frames.push(format!("{} {}", lines[i - 1].trim(), l));
                }
                if frames.len() >= 4 {
                    break;
                }
            }
        }
        eprintln!(
            "ALLOC-LIMIT kind={kind} size={size} live={} frames={}",
            LIVE.load(Ordering::SeqCst),
            frames.join(" | ")
        );
    }
    std::process::abort()
}

unsafe impl GlobalAlloc for TrackingAlloc {
    unsafe fn alloc(&self, layout: Layout) -> *mut u8 {
        let sz = layout.size();
        if sz > SINGLE_LIMIT.load(Ordering::Relaxed) {
            alloc_violation("single", sz);
        }
        let live = LIVE.fetch_add(sz, Ordering::Relaxed) + sz;
        if live > LIVE_LIMIT.load(Ordering::Relaxed) {
            alloc_violation("live", sz);
        }
        if sz > PEAK_SINGLE.load(Ordering::Relaxed) {
            PEAK_SINGLE.store(sz, Ordering::Relaxed);
        }
        unsafe { System.alloc(layout) }
    }
    unsafe fn alloc_zeroed(&self, layout: Layout) -> *mut u8 {
        let sz = layout.size();
        if sz > SINGLE_LIMIT.load(Ordering::Relaxed) {
            alloc_violation("single", sz);
        }
        let live = LIVE.fetch_add(sz, Ordering::Relaxed) + sz;
        if live > LIVE_LIMIT.load(Ordering::Relaxed) {
            alloc_violation("live", sz);
        }
        if sz > PEAK_SINGLE.load(Ordering::Relaxed) {
            PEAK_SINGLE.store(sz, Ordering::Relaxed);
        }
        unsafe { System.alloc_zeroed(layout) }
    }
    unsafe fn dealloc(&self, ptr: *mut u8, layout: Layout) {
        LIVE.fetch_sub(layout.size(), Ordering::Relaxed);
        unsafe { System.dealloc(ptr, layout) }
    }
    unsafe fn realloc(&self, ptr: *mut u8, layout: Layout, new_size: usize) -> *mut u8 {
        if new_size > SINGLE_LIMIT.load(Ordering::Relaxed) {
            alloc_violation("single", new_size);
        }
        let old = layout.size();
        if new_size >= old {
            let live = LIVE.fetch_add(new_size - old, Ordering::Relaxed) + (new_size - old);
            if live > LIVE_LIMIT.load(Ordering::Relaxed) {
                alloc_violation("live", new_size);
            }
        } else {
            LIVE.fetch_sub(old - new_size, Ordering::Relaxed);
        }
        if new_size > PEAK_SINGLE.load(Ordering::Relaxed) {
            PEAK_SINGLE.store(new_size, Ordering::Relaxed);
        }
        unsafe { System.realloc(ptr, layout, new_size) }
    }
}
