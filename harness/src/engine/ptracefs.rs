//! ptrace-based file-system fault injector (x86_64 Linux).
//! Runs a command under PTRACE_SYSCALL, numbers the file-system calls that touch a sandbox
//! directory, and at call k kills the tracee (before / after the call), makes the call fail
//! with a chosen errno, shortens a write, or enforces a byte quota ("disk full").
//! tempfile::persist renames through raw system calls, so libc interposition would miss the
//! decisive rename; ptrace sees every call.

use std::collections::HashMap;
use std::os::unix::process::CommandExt;
use std::process::Command;

#[derive(Clone, Debug, PartialEq, serde::Serialize, serde::Deserialize)]
pub enum Mode {
    /// just count and record the calls
    Count,
    KillBefore(usize),
    KillAfter(usize),
    /// make call k fail with errno
    Fail(usize, i32),
    /// halve the length of write-class call k, then fail the next write-class call with ENOSPC
    ShortWrite(usize),
    /// at most this many bytes may be written into the sandbox in total; then ENOSPC
    Quota(u64),
}

#[derive(Clone, Debug)]
pub struct CallRec {
    pub nr: i64,
    pub name: &'static str,
    pub target: String,
    pub len: u64,
}

#[derive(Debug)]
pub struct Report {
    pub calls: Vec<CallRec>,
    /// exit code if the tracee exited by itself
    pub exit_code: Option<i32>,
    pub killed_by_injector: bool,
    pub signal: Option<i32>,
    pub stdout: String,
    pub injected: bool,
}

fn sys_name(nr: i64) -> Option<&'static str> {
    Some(match nr {
        1 => "write",
        2 => "open",
        8 => "lseek",
        18 => "pwrite64",
        20 => "writev",
        40 => "sendfile",
        74 => "fsync",
        75 => "fdatasync",
        76 => "truncate",
        77 => "ftruncate",
        82 => "rename",
        85 => "creat",
        86 => "link",
        87 => "unlink",
        257 => "openat",
        263 => "unlinkat",
        264 => "renameat",
        265 => "linkat",
        285 => "fallocate",
        316 => "renameat2",
        326 => "copy_file_range",
        437 => "openat2",
        _ => return None,
    })
}

pub fn is_write_class(name: &str) -> bool {
    matches!(name, "write" | "pwrite64" | "writev" | "sendfile" | "copy_file_range")
}

fn read_cstr(pid: i32, addr: u64) -> String {
    use std::io::{Read, Seek, SeekFrom};
    let mut out = vec![];
    if let Ok(mut f) = std::fs::File::open(format!("/proc/{pid}/mem")) {
        let mut buf = [0u8; 256];
        let mut a = addr;
        for _ in 0..16 {
            if f.seek(SeekFrom::Start(a)).is_err() {
                break;
            }
            let n = f.read(&mut buf).unwrap_or(0);
            if n == 0 {
                break;
            }
            if let Some(p) = buf[..n].iter().position(|&b| b == 0) {
                out.extend_from_slice(&buf[..p]);
                break;
            }
            out.extend_from_slice(&buf[..n]);
            a += n as u64;
        }
    }
    String::from_utf8_lossy(&out).to_string()
}

fn fd_path(pid: i32, fd: i64) -> String {
    std::fs::read_link(format!("/proc/{pid}/fd/{fd}"))
        .map(|p| p.to_string_lossy().to_string())
        .unwrap_or_default()
}

/// which path/fd does this call touch
fn target_of(pid: i32, name: &str, r: &libc::user_regs_struct) -> String {
    match name {
        "open" | "creat" | "truncate" | "unlink" | "link" => read_cstr(pid, r.rdi),
        "rename" => format!("{} -> {}", read_cstr(pid, r.rdi), read_cstr(pid, r.rsi)),
        "openat" | "openat2" | "unlinkat" => read_cstr(pid, r.rsi),
        "renameat" | "renameat2" | "linkat" => format!("{} -> {}", read_cstr(pid, r.rsi), read_cstr(pid, r.r10)),
        "sendfile" | "copy_file_range" => {
            let out_fd = if name == "sendfile" { r.rdi } else { r.rdx };
            fd_path(pid, out_fd as i64)
        }
        _ => fd_path(pid, r.rdi as i64),
    }
}

const ENOSPC: i32 = 28;

/// Run `cmd` traced. `sandbox` is the absolute directory prefix that makes a call relevant.
pub fn run(mut cmd: Command, sandbox: &str, mode: &Mode) -> Result<Report, String> {
    cmd.stdout(std::process::Stdio::piped());
    cmd.stderr(std::process::Stdio::null());
    cmd.stdin(std::process::Stdio::null());
    unsafe {
        cmd.pre_exec(|| {
            if libc::ptrace(libc::PTRACE_TRACEME, 0, 0, 0) < 0 {
                return Err(std::io::Error::last_os_error());
            }
            Ok(())
        });
    }
    let mut child = cmd.spawn().map_err(|e| format!("spawn: {e}"))?;
    let pid = child.id() as i32;
    let mut status = 0i32;
    unsafe {
        if libc::waitpid(pid, &mut status, libc::__WALL) < 0 {
            return Err("waitpid(initial) failed".into());
        }
        if !libc::WIFSTOPPED(status) {
            return Err(format!("tracee did not stop at exec (status {status:#x})"));
        }
        let opts = libc::PTRACE_O_TRACESYSGOOD
            | libc::PTRACE_O_EXITKILL
            | libc::PTRACE_O_TRACECLONE
            | libc::PTRACE_O_TRACEFORK
            | libc::PTRACE_O_TRACEVFORK;
        if libc::ptrace(libc::PTRACE_SETOPTIONS, pid, 0, opts as libc::c_long) < 0 {
            return Err("PTRACE_SETOPTIONS failed".into());
        }
        libc::ptrace(libc::PTRACE_SYSCALL, pid, 0, 0);
    }
    let mut rep = Report {
        calls: vec![],
        exit_code: None,
        killed_by_injector: false,
        signal: None,
        stdout: String::new(),
        injected: false,
    };
    // per-thread: are we inside a syscall, and what to do at its exit
    struct TState {
        in_call: bool,
        pending_errno: Option<i32>,
        kill_at_exit: bool,
    }
    let mut threads: HashMap<i32, TState> = HashMap::new();
    let mut k = 0usize;
    let mut written: u64 = 0;
    let mut fail_next_write = false;
    let mut live = 1usize;
    loop {
        let mut st = 0i32;
        let tid = unsafe { libc::waitpid(-1, &mut st, libc::__WALL) };
        if tid < 0 {
            break;
        }
        if libc::WIFEXITED(st) || libc::WIFSIGNALED(st) {
            if tid == pid {
                if libc::WIFEXITED(st) {
                    rep.exit_code = Some(libc::WEXITSTATUS(st));
                } else {
                    rep.signal = Some(libc::WTERMSIG(st));
                }
            }
            live = live.saturating_sub(1);
            threads.remove(&tid);
            if tid == pid || live == 0 {
                break;
            }
            continue;
        }
        if !libc::WIFSTOPPED(st) {
            continue;
        }
        let sig = libc::WSTOPSIG(st);
        let event = (st >> 16) & 0xff;
        if event != 0 {
            // clone/fork/vfork event: the new task is auto-attached and will report a stop
            if event == libc::PTRACE_EVENT_CLONE || event == libc::PTRACE_EVENT_FORK || event == libc::PTRACE_EVENT_VFORK {
                live += 1;
            }
            unsafe { libc::ptrace(libc::PTRACE_SYSCALL, tid, 0, 0) };
            continue;
        }
        if sig != (libc::SIGTRAP | 0x80) {
            // a real signal (or the initial SIGSTOP of a new thread): deliver everything but SIGSTOP/SIGTRAP
            let deliver = if sig == libc::SIGSTOP || sig == libc::SIGTRAP { 0 } else { sig };
            unsafe { libc::ptrace(libc::PTRACE_SYSCALL, tid, 0, deliver as libc::c_long) };
            continue;
        }
        let ts = threads.entry(tid).or_insert(TState { in_call: false, pending_errno: None, kill_at_exit: false });
        let mut regs: libc::user_regs_struct = unsafe { std::mem::zeroed() };
        unsafe {
            libc::ptrace(libc::PTRACE_GETREGS, tid, 0, &mut regs as *mut _ as *mut libc::c_void);
        }
        if !ts.in_call {
            // syscall entry
            ts.in_call = true;
            let nr = regs.orig_rax as i64;
            if let Some(name) = sys_name(nr) {
                let target = target_of(pid, name, &regs);
                if target.contains(sandbox) {
                    k += 1;
                    let len = if is_write_class(name) { regs.rdx } else { 0 };
                    rep.calls.push(CallRec { nr, name, target, len });
                    let mut fail: Option<i32> = None;
                    match mode {
                        Mode::Count => {}
                        Mode::KillBefore(n) if *n == k => {
                            rep.injected = true;
                            rep.killed_by_injector = true;
                            unsafe {
                                libc::kill(pid, libc::SIGKILL);
                            }
                        }
                        Mode::KillAfter(n) if *n == k => {
                            rep.injected = true;
                            ts.kill_at_exit = true;
                        }
                        Mode::Fail(n, e) if *n == k => {
                            rep.injected = true;
                            fail = Some(*e);
                        }
                        Mode::ShortWrite(n) => {
                            if *n == k && is_write_class(name) && regs.rdx > 1 {
                                rep.injected = true;
                                regs.rdx /= 2;
                                unsafe {
                                    libc::ptrace(libc::PTRACE_SETREGS, tid, 0, &regs as *const _ as *const libc::c_void);
                                }
                                fail_next_write = true;
                            } else if fail_next_write && k > *n && is_write_class(name) {
                                fail_next_write = false;
                                fail = Some(ENOSPC);
                            }
                        }
                        Mode::Quota(q) => {
                            if is_write_class(name) {
                                if written >= *q {
                                    rep.injected = true;
                                    fail = Some(ENOSPC);
                                } else if written + regs.rdx > *q {
                                    rep.injected = true;
                                    regs.rdx = *q - written;
                                    written = *q;
                                    unsafe {
                                        libc::ptrace(libc::PTRACE_SETREGS, tid, 0, &regs as *const _ as *const libc::c_void);
                                    }
                                } else {
                                    written += regs.rdx;
                                }
                            }
                        }
                        _ => {}
                    }
                    if let Some(e) = fail {
                        // turn the call into an invalid one; patch the result at exit
                        regs.orig_rax = u64::MAX;
                        unsafe {
                            libc::ptrace(libc::PTRACE_SETREGS, tid, 0, &regs as *const _ as *const libc::c_void);
                        }
                        ts.pending_errno = Some(e);
                    }
                }
            }
        } else {
            // syscall exit
            ts.in_call = false;
            if let Some(e) = ts.pending_errno.take() {
                regs.rax = (-(e as i64)) as u64;
                unsafe {
                    libc::ptrace(libc::PTRACE_SETREGS, tid, 0, &regs as *const _ as *const libc::c_void);
                }
            }
            if ts.kill_at_exit {
                rep.killed_by_injector = true;
                unsafe {
                    libc::kill(pid, libc::SIGKILL);
                }
            }
        }
        unsafe { libc::ptrace(libc::PTRACE_SYSCALL, tid, 0, 0) };
    }
    // collect stdout
    if let Some(mut so) = child.stdout.take() {
        use std::io::Read;
        let _ = so.read_to_string(&mut rep.stdout);
    }
    let _ = child.wait();
    Ok(rep)
}
