//! proptest driver: fixed seeds, no persistence, parallel workers, shrinking, and
//! "continue past a known / already reported signature".

use super::{CaseResult, Check, Fail, guard, mix};
use proptest::strategy::Strategy;
use proptest::test_runner::{Config, RngAlgorithm, TestCaseError, TestError, TestRng, TestRunner};
use serde_json::Value;
use std::cell::Cell;

thread_local! {
    static SUPPRESS: Cell<bool> = const { Cell::new(false) };
}

/// true while proptest is shrinking on this thread: bookkeeping must not count re-runs
pub fn suppressed() -> bool {
    SUPPRESS.with(|s| s.get())
}

fn rng_for(seed: u64) -> TestRng {
    let mut bytes = [0u8; 32];
    for i in 0..4 {
        let v = mix(seed, &format!("rngword{i}"));
        bytes[i * 8..i * 8 + 8].copy_from_slice(&v.to_le_bytes());
    }
    TestRng::from_seed(RngAlgorithm::ChaCha, &bytes)
}

pub struct Opts {
    pub workers: usize,
    pub max_shrink_iters: u32,
    /// how many distinct new violations one worker keeps searching past
    pub max_distinct: usize,
}

impl Default for Opts {
    fn default() -> Self {
        Opts {
            workers: super::WORKERS,
            max_shrink_iters: 1500,
            max_distinct: 4,
        }
    }
}

/// Run `cases` generated cases (split over workers). `mk` builds the strategy (per worker),
/// `to_json` materialises a case for the replay file, `f` is the property.
pub fn run<S, MK, J, F>(check: &Check, label: &str, cases: u32, opts: Opts, mk: MK, to_json: J, f: F)
where
    S: Strategy,
    S::Value: std::fmt::Debug,
    MK: Fn() -> S + Sync,
    J: Fn(&S::Value) -> Value + Sync,
    F: Fn(&S::Value) -> CaseResult + Sync,
{
    let workers = opts.workers.max(1);
    let per = cases.div_ceil(workers as u32).max(1);
    std::thread::scope(|scope| {
        for w in 0..workers {
            let mk = &mk;
            let f = &f;
            let to_json = &to_json;
            let opts = &opts;
            std::thread::Builder::new()
                .stack_size(64 << 20)
                .spawn_scoped(scope, move || {
                    let mut remaining = per;
                    let mut round = 0usize;
                    while remaining > 0 && round <= opts.max_distinct {
                        let seed = mix(check.seed, &format!("{label}#w{w}#r{round}"));
                        let cfg = Config {
                            cases: remaining,
                            failure_persistence: None,
                            max_shrink_iters: opts.max_shrink_iters,
                            max_shrink_time: 0,
                            verbose: 0,
                            max_global_rejects: 65536,
                            max_local_rejects: 65536,
                            ..Config::default()
                        };
                        let mut runner = TestRunner::new_with_rng(cfg, rng_for(seed));
                        let strat = mk();
                        let done = Cell::new(0u32);
                        SUPPRESS.with(|s| s.set(false));
                        let res = runner.run(&strat, |v| {
                            let r = guard(label, || f(&v)).and_then(|x| x);
                            if !suppressed() {
                                done.set(done.get() + 1);
                            }
                            match r {
                                Ok(()) => Ok(()),
                                Err(fail) => {
                                    if check.is_known(&fail.signature) {
                                        if !suppressed() {
                                            check.known_hit(&fail.signature, &fail.message);
                                        }
                                        Ok(())
                                    } else if check.already_reported(&fail.signature) {
                                        if !suppressed() {
                                            check.bump("repeat_violation_hits", 1);
                                        }
                                        Ok(())
                                    } else {
                                        SUPPRESS.with(|s| s.set(true));
                                        Err(TestCaseError::fail(fail.signature))
                                    }
                                }
                            }
                        });
                        match res {
                            Ok(()) => {
                                SUPPRESS.with(|s| s.set(false));
                                break;
                            }
                            Err(TestError::Fail(_, value)) => {
                                // re-run the minimal case (still suppressed: no double counting)
                                let r = guard(label, || f(&value)).and_then(|x| x);
                                SUPPRESS.with(|s| s.set(false));
                                let fail = match r {
                                    Err(fl) => fl,
                                    Ok(()) => Fail::new(
                                        format!("flaky@{label}"),
                                        "shrunk case passed on re-run (non-deterministic property?)",
                                    ),
                                };
                                check.fail(&fail, to_json(&value));
                                remaining = remaining.saturating_sub(done.get().max(1));
                                round += 1;
                            }
                            Err(TestError::Abort(why)) => {
                                SUPPRESS.with(|s| s.set(false));
                                check.inconclusive(&format!("proptest aborted in {label}: {why}"));
                                break;
                            }
                        }
                    }
                })
                .expect("spawn");
        }
    });
}

/// monotone index mapping (shrinks well): u16 selector → 0..len
pub fn pick_idx(sel: u16, len: usize) -> usize {
    if len == 0 {
        0
    } else {
        ((sel as usize) * len) >> 16
    }
}
