//! Shared engine: seeding, classification, evidence, known findings, replay files,
//! proptest driver, panic capture.
//!
//! Exit protocol: 0 = held on everything explored; 1 = unlisted violation (with a
//! `VIOLATION property=<id> replay=<path>` line); 2 = the check itself could not run.

use serde_json::{Value, json};
use std::collections::{BTreeMap, BTreeSet};
use std::path::{Path, PathBuf};
use std::sync::Mutex;
use std::sync::atomic::{AtomicBool, AtomicU64, Ordering};
use std::time::Instant;

pub mod pt;
pub mod ptracefs;
pub mod supervise;

/// root for evidence/, replays/, known_findings.json (env VERIF_ROOT overrides; used by mutant runs)
pub fn verif_root() -> PathBuf {
    PathBuf::from(std::env::var("VERIF_ROOT").unwrap_or_else(|_| "/verif".to_string()))
}
pub const DEFAULT_SEED: u64 = 20260929;
pub const WORKERS: usize = 16;

#[derive(Clone, Copy, PartialEq, Eq, Debug)]
pub enum Tier {
    Quick,
    Thorough,
}

impl Tier {
    pub fn name(self) -> &'static str {
        match self {
            Tier::Quick => "quick",
            Tier::Thorough => "thorough",
        }
    }
    /// pick a work count by tier
    pub fn pick<T>(self, quick: T, thorough: T) -> T {
        match self {
            Tier::Quick => quick,
            Tier::Thorough => thorough,
        }
    }
}

#[derive(Clone, Debug)]
pub struct Fail {
    /// stable class key (no line numbers, no addresses); matched against known findings
    pub signature: String,
    /// human-readable detail for this concrete case
    pub message: String,
}

impl Fail {
    pub fn new(signature: impl Into<String>, message: impl Into<String>) -> Self {
        Fail {
            signature: signature.into(),
            message: message.into(),
        }
    }
}

pub type CaseResult = Result<(), Fail>;

#[macro_export]
macro_rules! vfail {
    ($sig:expr, $($arg:tt)*) => {
        return Err($crate::engine::Fail::new($sig, format!($($arg)*)))
    };
}

#[derive(Clone, Debug)]
pub struct KnownFinding {
    pub property: String,
    pub status: String, // "open" | "fixed"
    pub signature: String,
    pub description: String,
}

pub struct Args {
    pub tier: Tier,
    pub seed: u64,
    pub replay: Option<PathBuf>,
    pub strict: bool,
    pub rest: Vec<String>,
}

pub fn parse_args() -> Args {
    let mut tier = match std::env::var("VERIF_TIER").ok().as_deref() {
        Some("thorough") => Tier::Thorough,
        _ => Tier::Quick,
    };
    let seed = std::env::var("VERIF_SEED")
        .ok()
        .and_then(|s| s.trim().parse::<i128>().ok())
        .map(|v| v as u64)
        .unwrap_or(DEFAULT_SEED);
    let mut replay = None;
    let mut strict = false;
    let mut rest = Vec::new();
    let mut it = std::env::args().skip(1);
    while let Some(a) = it.next() {
        match a.as_str() {
            "--tier" => {
                tier = match it.next().as_deref() {
                    Some("thorough") => Tier::Thorough,
                    Some("quick") => Tier::Quick,
                    other => {
                        eprintln!("bad --tier {other:?}");
                        std::process::exit(2)
                    }
                }
            }
            "--replay" => replay = it.next().map(PathBuf::from),
            "--strict" => strict = true,
            _ => rest.push(a),
        }
    }
    Args {
        tier,
        seed,
        replay,
        strict,
        rest,
    }
}

struct ViolationRec {
    signature: String,
    message: String,
    replay: PathBuf,
}

pub struct Check {
    pub id: &'static str,
    pub level: &'static str,
    pub tier: Tier,
    pub seed: u64,
    pub replay: Option<PathBuf>,
    /// strict: known findings are treated as violations (used for replay)
    pub strict: bool,
    started: Instant,
    evals: AtomicU64,
    classes: Mutex<BTreeMap<String, u64>>,
    nontrivial: Mutex<BTreeSet<String>>,
    samples: Mutex<Vec<Value>>,
    sample_keys: Mutex<BTreeSet<String>>,
    max_samples: usize,
    violations: Mutex<Vec<ViolationRec>>,
    seen_sigs: Mutex<BTreeSet<String>>,
    known: Vec<KnownFinding>,
    known_hits: Mutex<BTreeMap<String, (u64, String)>>,
    counters: Mutex<BTreeMap<String, u64>>,
    rule: Mutex<String>,
    assumptions: Mutex<Vec<String>>,
    extra: Mutex<BTreeMap<String, Value>>,
    exhaustive: AtomicBool,
    inconclusive: Mutex<Vec<String>>,
}

fn load_known(id: &str) -> Vec<KnownFinding> {
    let mut files = vec![PathBuf::from("/verif/known_findings.json")];
    if let Ok(x) = std::env::var("VERIF_KNOWN_EXTRA") {
        files.push(PathBuf::from(x));
    }
    let mut all = vec![];
    for p in files {
        let Ok(s) = std::fs::read_to_string(&p) else {
            continue;
        };
        let v: Value = match serde_json::from_str(&s) {
            Ok(v) => v,
            Err(e) => {
                eprintln!("{p:?} unreadable: {e}");
                std::process::exit(2)
            }
        };
        all.extend(v["findings"].as_array().cloned().unwrap_or_default());
    }
    let mut out = vec![];
    for f in all {
        if f["property"].as_str() == Some(id) {
            out.push(KnownFinding {
                property: id.to_string(),
                status: f["status"].as_str().unwrap_or("open").to_string(),
                signature: f["signature"].as_str().unwrap_or("").to_string(),
                description: f["description"].as_str().unwrap_or("").to_string(),
            });
        }
    }
    out
}

impl Check {
    pub fn new(id: &'static str, level: &'static str) -> (Check, Args) {
        let args = parse_args();
        install_panic_hook();
        let c = Check {
            id,
            level,
            tier: args.tier,
            seed: args.seed,
            replay: args.replay.clone(),
            strict: args.strict,
            started: Instant::now(),
            evals: AtomicU64::new(0),
            classes: Mutex::new(BTreeMap::new()),
            nontrivial: Mutex::new(BTreeSet::new()),
            samples: Mutex::new(Vec::new()),
            sample_keys: Mutex::new(BTreeSet::new()),
            max_samples: 8,
            violations: Mutex::new(Vec::new()),
            seen_sigs: Mutex::new(BTreeSet::new()),
            known: load_known(id),
            known_hits: Mutex::new(BTreeMap::new()),
            counters: Mutex::new(BTreeMap::new()),
            rule: Mutex::new(String::new()),
            assumptions: Mutex::new(Vec::new()),
            extra: Mutex::new(BTreeMap::new()),
            exhaustive: AtomicBool::new(false),
            inconclusive: Mutex::new(Vec::new()),
        };
        (c, args)
    }

    pub fn set_rule(&self, r: &str) {
        *self.rule.lock().unwrap() = r.to_string();
    }
    pub fn assume(&self, a: &str) {
        self.assumptions.lock().unwrap().push(a.to_string());
    }
    pub fn set_extra(&self, k: &str, v: Value) {
        self.extra.lock().unwrap().insert(k.to_string(), v);
    }
    pub fn set_exhaustive(&self, e: bool) {
        self.exhaustive.store(e, Ordering::SeqCst);
    }

    /// Derive a sub-seed from (VERIF_SEED, label)
    pub fn sub_seed(&self, label: &str) -> u64 {
        mix(self.seed, label)
    }

    /// Record one evaluated case. `class` is the class signature (histogrammed);
    /// `nontrivial` says whether it satisfies the property's non-trivial rule.
    pub fn count(&self, class: &str, nontrivial: bool) {
        if pt::suppressed() {
            return;
        }
        self.evals.fetch_add(1, Ordering::Relaxed);
        *self
            .classes
            .lock()
            .unwrap()
            .entry(class.to_string())
            .or_insert(0) += 1;
        if nontrivial {
            let mut nt = self.nontrivial.lock().unwrap();
            if nt.len() < 2_000_000 {
                nt.insert(class.to_string());
            }
        }
    }
    /// Add evaluations without class bookkeeping (bulk enumerations)
    pub fn count_n(&self, class: &str, n: u64, nontrivial_distinct: &[String]) {
        if pt::suppressed() {
            return;
        }
        self.evals.fetch_add(n, Ordering::Relaxed);
        *self
            .classes
            .lock()
            .unwrap()
            .entry(class.to_string())
            .or_insert(0) += n;
        let mut nt = self.nontrivial.lock().unwrap();
        for s in nontrivial_distinct {
            nt.insert(s.clone());
        }
    }
    pub fn bump(&self, counter: &str, n: u64) {
        if pt::suppressed() {
            return;
        }
        *self
            .counters
            .lock()
            .unwrap()
            .entry(counter.to_string())
            .or_insert(0) += n;
    }
    pub fn counter(&self, counter: &str) -> u64 {
        *self.counters.lock().unwrap().get(counter).unwrap_or(&0)
    }
    pub fn evaluations(&self) -> u64 {
        self.evals.load(Ordering::Relaxed)
    }
    pub fn class_count(&self, class: &str) -> u64 {
        *self.classes.lock().unwrap().get(class).unwrap_or(&0)
    }
    pub fn classes_with_prefix(&self, prefix: &str) -> u64 {
        self.classes
            .lock()
            .unwrap()
            .iter()
            .filter(|(k, _)| k.starts_with(prefix))
            .map(|(_, v)| *v)
            .sum()
    }

    /// Keep a sample (first `max_samples` with distinct `key`)
    pub fn sample(&self, key: &str, v: impl FnOnce() -> Value) {
        if pt::suppressed() {
            return;
        }
        let mut keys = self.sample_keys.lock().unwrap();
        if keys.len() >= self.max_samples || keys.contains(key) {
            return;
        }
        keys.insert(key.to_string());
        drop(keys);
        self.samples.lock().unwrap().push(v());
    }

    pub fn is_known(&self, signature: &str) -> bool {
        if self.strict {
            return false;
        }
        self.known
            .iter()
            .any(|k| k.status == "open" && sig_match(&k.signature, signature))
    }

    /// A signature already reported as a violation in this run (search continues past it)
    pub fn already_reported(&self, signature: &str) -> bool {
        self.seen_sigs.lock().unwrap().contains(signature)
    }

    pub fn known_hit(&self, signature: &str, message: &str) {
        let key = self
            .known
            .iter()
            .find(|k| k.status == "open" && sig_match(&k.signature, signature))
            .map(|k| k.signature.clone())
            .unwrap_or_else(|| signature.to_string());
        let mut h = self.known_hits.lock().unwrap();
        let e = h.entry(key).or_insert((0, message.to_string()));
        e.0 += 1;
    }

    /// Report a failing case. Known (open) findings are counted; anything else becomes a
    /// violation with a replay file. Returns true when it was a new violation.
    pub fn fail(&self, f: &Fail, case: Value) -> bool {
        if self.is_known(&f.signature) {
            self.known_hit(&f.signature, &f.message);
            return false;
        }
        {
            let mut seen = self.seen_sigs.lock().unwrap();
            if seen.contains(&f.signature) {
                self.bump("repeat_violation_hits", 1);
                return false;
            }
            seen.insert(f.signature.clone());
        }
        let dir = verif_root().join("replays").join(self.id);
        let _ = std::fs::create_dir_all(&dir);
        let body = json!({
            "property": self.id,
            "signature": f.signature,
            "message": f.message,
            "seed": self.seed,
            "tier": self.tier.name(),
            "case": case,
        });
        let text = serde_json::to_string_pretty(&body).unwrap();
        let h = fnv(text.as_bytes());
        let path = dir.join(format!("{:016x}.json", h));
        if self.replay.is_none() {
            let _ = std::fs::write(&path, text);
        }
        let path = self.replay.clone().unwrap_or(path);
        self.violations.lock().unwrap().push(ViolationRec {
            signature: f.signature.clone(),
            message: f.message.clone(),
            replay: path,
        });
        true
    }

    /// The check could not do its job (vacuous generator, missing tool...). Exit 2 at finish.
    pub fn inconclusive(&self, why: &str) {
        self.inconclusive.lock().unwrap().push(why.to_string());
    }

    pub fn violation_count(&self) -> usize {
        self.violations.lock().unwrap().len()
    }

    pub fn finish(&self) -> ! {
        let wall = self.started.elapsed().as_secs_f64();
        let classes = self.classes.lock().unwrap().clone();
        let nt = self.nontrivial.lock().unwrap().len();
        let viol = self.violations.lock().unwrap();
        let known_hits = self.known_hits.lock().unwrap().clone();
        let mut cov = serde_json::Map::new();
        cov.insert("evaluations".into(), json!(self.evaluations()));
        cov.insert("distinct_nontrivial".into(), json!(nt));
        cov.insert("rule".into(), json!(self.rule.lock().unwrap().clone()));
        cov.insert(
            "samples".into(),
            Value::Array(self.samples.lock().unwrap().clone()),
        );
        cov.insert(
            "exhaustive".into(),
            json!(self.exhaustive.load(Ordering::SeqCst)),
        );
        cov.insert("distinct_classes".into(), json!(classes.len()));
        // class histogram: keep it readable (top 60 by count)
        let mut hv: Vec<(&String, &u64)> = classes.iter().collect();
        hv.sort_by(|a, b| b.1.cmp(a.1).then(a.0.cmp(b.0)));
        let hist: serde_json::Map<String, Value> = hv
            .iter()
            .take(60)
            .map(|(k, v)| ((*k).clone(), json!(**v)))
            .collect();
        cov.insert("class_histogram_top".into(), Value::Object(hist));
        let counters = self.counters.lock().unwrap().clone();
        cov.insert("counters".into(), json!(counters));
        cov.insert(
            "known_findings_hit".into(),
            json!(
                known_hits
                    .iter()
                    .map(|(k, (n, m))| json!({"signature": k, "hits": n, "example": m}))
                    .collect::<Vec<_>>()
            ),
        );
        cov.insert(
            "violations_detail".into(),
            json!(
                viol.iter()
                    .map(|v| json!({"signature": v.signature, "message": v.message, "replay": v.replay}))
                    .collect::<Vec<_>>()
            ),
        );
        for (k, v) in self.extra.lock().unwrap().iter() {
            cov.insert(k.clone(), v.clone());
        }
        let ev = json!({
            "property_id": self.id,
            "tier": self.tier.name(),
            "seed": self.seed as i64,
            "level": self.level,
            "coverage": Value::Object(cov),
            "assumptions": self.assumptions.lock().unwrap().clone(),
            "wall_s": wall,
            "violations": viol.len(),
        });
        if self.replay.is_none() {
            let dir = verif_root().join("evidence");
            let _ = std::fs::create_dir_all(&dir);
            let p = dir.join(format!("{}.json", self.id));
            if let Err(e) = std::fs::write(&p, serde_json::to_string_pretty(&ev).unwrap()) {
                eprintln!("cannot write evidence {p:?}: {e}");
                std::process::exit(2);
            }
        }
        println!(
            "{} tier={} seed={} evaluations={} distinct_nontrivial={} classes={} wall={:.1}s",
            self.id,
            self.tier.name(),
            self.seed,
            self.evaluations(),
            nt,
            classes.len(),
            wall
        );
        for (sig, (n, msg)) in known_hits.iter() {
            let desc = self
                .known
                .iter()
                .find(|k| &k.signature == sig)
                .map(|k| k.description.clone())
                .unwrap_or_default();
            println!(
                "KNOWN-FINDING: property={} {} — {} (hits={}, e.g. {})",
                self.id,
                sig,
                desc,
                n,
                truncate(msg, 200)
            );
        }
        for v in viol.iter() {
            println!(
                "VIOLATION property={} replay={}",
                self.id,
                v.replay.display()
            );
            println!("  signature: {}", v.signature);
            println!("  detail: {}", truncate(&v.message, 600));
        }
        if !viol.is_empty() {
            std::process::exit(1);
        }
        let inc = self.inconclusive.lock().unwrap();
        if !inc.is_empty() {
            for w in inc.iter() {
                println!("INCONCLUSIVE property={} {}", self.id, w);
            }
            std::process::exit(2);
        }
        std::process::exit(0);
    }
}

/// known signature matching: exact, or prefix when the known signature ends with '*'
pub fn sig_match(known: &str, got: &str) -> bool {
    if let Some(p) = known.strip_suffix('*') {
        got.starts_with(p)
    } else {
        known == got
    }
}

pub fn truncate(s: &str, n: usize) -> String {
    if s.len() <= n {
        s.to_string()
    } else {
        let mut end = n;
        while !s.is_char_boundary(end) {
            end -= 1;
        }
        format!("{}…", &s[..end])
    }
}

pub fn fnv(b: &[u8]) -> u64 {
    let mut h: u64 = 0xcbf29ce484222325;
    for &x in b {
        h ^= x as u64;
        h = h.wrapping_mul(0x100000001b3);
    }
    h
}

pub fn mix(seed: u64, label: &str) -> u64 {
    let mut z = seed ^ fnv(label.as_bytes()).rotate_left(17);
    // splitmix64 finaliser
    z = z.wrapping_add(0x9e3779b97f4a7c15);
    z = (z ^ (z >> 30)).wrapping_mul(0xbf58476d1ce4e5b9);
    z = (z ^ (z >> 27)).wrapping_mul(0x94d049bb133111eb);
    z ^ (z >> 31)
}

pub fn rng(seed: u64) -> rand_chacha::ChaCha8Rng {
    use rand::SeedableRng;
    rand_chacha::ChaCha8Rng::seed_from_u64(seed)
}

// ---------------------------------------------------------------------------------------
// panic capture

thread_local! {
    static LAST_PANIC: std::cell::RefCell<Option<(String, String)>> = const { std::cell::RefCell::new(None) };
    static IN_GUARD: std::cell::Cell<u32> = const { std::cell::Cell::new(0) };
}

static VERBOSE: AtomicBool = AtomicBool::new(false);

pub fn install_panic_hook() {
    if std::env::var("VERIF_VERBOSE").is_ok() {
        VERBOSE.store(true, Ordering::SeqCst);
    }
    std::panic::set_hook(Box::new(|info| {
        let loc = info
            .location()
            .map(|l| format!("{}#L{}", l.file(), l.line()))
            .unwrap_or_else(|| "?".into());
        let msg = if let Some(s) = info.payload().downcast_ref::<&str>() {
            s.to_string()
        } else if let Some(s) = info.payload().downcast_ref::<String>() {
            s.clone()
        } else {
            "<non-string panic>".into()
        };
        if VERBOSE.load(Ordering::SeqCst) || IN_GUARD.with(|g| g.get()) == 0 {
            eprintln!("[panic] {loc}: {msg}");
        }
        LAST_PANIC.with(|p| *p.borrow_mut() = Some((loc, msg)));
    }));
}

/// Normalise a panic message: digits → '#', shortened
pub fn normalise_msg(m: &str) -> String {
    let mut out = String::new();
    let mut last_hash = false;
    for ch in m.chars() {
        if ch.is_ascii_digit() {
            if !last_hash {
                out.push('#');
                last_hash = true;
            }
        } else {
            out.push(ch);
            last_hash = false;
        }
        if out.len() > 90 {
            break;
        }
    }
    out
}

/// shorten a source path to its crate-relative tail
pub fn short_loc(file: &str) -> String {
    // the line number (kept after '#L' for messages) is not part of a signature
    let file = file.split("#L").next().unwrap_or(file);
    if let Some(i) = file.find("/file-formats/") {
        return file[i + 1..].to_string();
    }
    if let Some(i) = file.find("/ffi/") {
        return file[i + 1..].to_string();
    }
    if let Some(i) = file.find("/registry/src/") {
        let t = &file[i + 14..];
        if let Some(j) = t.find('/') {
            return format!("dep:{}", &t[j + 1..]);
        }
    }
    if let Some(i) = file.find("/rustc/") {
        let t = &file[i + 7..];
        if let Some(j) = t.find('/') {
            return format!("std:{}", &t[j + 1..]);
        }
    }
    file.to_string()
}

/// Run `f`, converting a panic into a `Fail` with signature `panic@<entry>:<file>:<msg>`
pub fn guard<T>(entry: &str, f: impl FnOnce() -> T) -> Result<T, Fail> {
    LAST_PANIC.with(|p| *p.borrow_mut() = None);
    IN_GUARD.with(|g| g.set(g.get() + 1));
    let res = std::panic::catch_unwind(std::panic::AssertUnwindSafe(f));
    IN_GUARD.with(|g| g.set(g.get() - 1));
    match res {
        Ok(v) => Ok(v),
        Err(_) => {
            let (loc, msg) = LAST_PANIC
                .with(|p| p.borrow_mut().take())
                .unwrap_or(("?".into(), "?".into()));
            Err(Fail::new(
                format!(
                    "panic@{entry}:{}:{}",
                    short_loc(&loc),
                    normalise_msg(&msg)
                ),
                format!("panic in {entry} at {loc}: {msg}"),
            ))
        }
    }
}

/// Scratch directory on tmpfs-like storage, removed on drop. Never under /repo or /verif.
pub fn scratch(label: &str) -> tempfile::TempDir {
    let base = std::env::var("VERIF_SCRATCH").unwrap_or_else(|_| {
        if Path::new("/dev/shm").is_dir() {
            "/dev/shm".to_string()
        } else {
            "/tmp".to_string()
        }
    });
    tempfile::Builder::new()
        .prefix(&format!("vchk-{label}-"))
        .tempdir_in(base)
        .expect("scratch dir")
}

pub fn hex_short(b: &[u8]) -> String {
    if b.len() <= 48 {
        hex::encode(b)
    } else {
        format!(
            "{}…{} (len {})",
            hex::encode(&b[..24]),
            hex::encode(&b[b.len() - 8..]),
            b.len()
        )
    }
}
