//! C04 — hashing and encryption equal the MPQ algorithms and are mutually inverse.
use proptest::prelude::*;
use serde_json::json;
use vcheck::engine::{pt, CaseResult, Check, Fail};
use vcheck::oracle::{lookup3, refcrypt};
use vcheck::vfail;
use wow_mpq::crypto::{
    decrypt_block, decrypt_dword, encrypt_block, hash_string, het_hash, jenkins_hash,
    ENCRYPTION_TABLE,
};

const TYPES: [u32; 4] = [0x000, 0x100, 0x200, 0x300];

fn swap_case_slash(s: &str) -> String {
    s.chars()
        .map(|c| {
            if c.is_ascii_lowercase() {
                c.to_ascii_uppercase()
            } else if c.is_ascii_uppercase() {
                c.to_ascii_lowercase()
            } else if c == '/' {
                '\\'
            } else if c == '\\' {
                '/'
            } else {
                c
            }
        })
        .collect()
}

fn has_foldable(s: &str) -> bool {
    s.bytes().any(|b| b.is_ascii_lowercase() || b == b'/')
}

/// hash property on one string: equality with reference for the four types; invariance
fn check_hash(s: &str) -> CaseResult {
    for t in TYPES {
        let got = hash_string(s, t);
        let want = refcrypt::hash_string(s.as_bytes(), t);
        if got != want {
            vfail!(
                format!("hash-differs-from-reference:type{:#x}", t),
                "hash_string({:?},{:#x}) = {:#010x}, reference {:#010x}",
                s,
                t,
                got,
                want
            );
        }
        let v = swap_case_slash(s);
        let gv = hash_string(&v, t);
        if gv != got {
            vfail!(
                format!("hash-not-fold-invariant:type{:#x}", t),
                "hash_string({:?}) = {:#010x} but hash_string({:?}) = {:#010x}",
                s,
                got,
                v,
                gv
            );
        }
    }
    Ok(())
}

/// The HET name hash as StormLib computes it (`HashStringJenkins` + the HET masks): the name is
/// folded to LOWER case with '/' → '\\' (`AsciiToLowerTable`; the classic MPQ hash folds to
/// upper case, this one does not), hashed with `hashlittle2(name, &secondary = 2, &primary = 1)`,
/// masked to the table's hash width and or-ed with the top bit of that width — for every width,
/// 64 included. `upper` gives the same computation with upper-case folding (the library's
/// deviation, kept as a separate, listed finding so that any other deviation is still seen).
fn ref_het_folded(name: &str, bits: u32, upper: bool) -> (u64, u8) {
    let folded: Vec<u8> = name
        .as_bytes()
        .iter()
        .map(|&b| if b == b'/' { b'\\' } else if upper { b.to_ascii_uppercase() } else { b.to_ascii_lowercase() })
        .collect();
    let (c, b) = lookup3::hashlittle2(&folded, 2, 1);
    let full = ((b as u64) << 32) | c as u64;
    let and_mask = if bits < 64 { (1u64 << bits) - 1 } else { u64::MAX };
    let or_mask = 1u64 << (bits - 1);
    let h = (full & and_mask) | or_mask;
    (h, (h >> (bits - 8)) as u8)
}

fn ref_het(name: &str, bits: u32) -> (u64, u8) {
    ref_het_folded(name, bits, false)
}

fn check_jenkins(s: &str, bits: u32) -> CaseResult {
    let (h, n1) = het_hash(s, bits);
    let (wh, wn1) = ref_het(s, bits);
    // the clauses that do not depend on the folding direction come first: the listed upper-case deviation
    // (reported at the end) must not hide them for names with ASCII letters
    let v = swap_case_slash(s);
    let (hv, nv) = het_hash(&v, bits);
    if (hv, nv) != (h, n1) {
        vfail!("het-hash-not-fold-invariant", "het_hash({:?},{}) != het_hash({:?},{})", s, bits, v, bits);
    }
    if jenkins_hash(s) != jenkins_hash(&v) {
        vfail!("jenkins-hash-not-fold-invariant", "jenkins_hash({:?}) != jenkins_hash({:?})", s, v);
    }
    // wrapper used by the extended tables: the same pair as het_hash (MPQ folding touches ASCII letters only)
    let (fh0, nh0) = wow_mpq::calculate_het_hashes(s, bits as u8);
    if (fh0, nh0) != (h, n1 as u64) {
        vfail!(
            "calculate-het-hashes-differs-from-het-hash",
            "calculate_het_hashes({:?},{}) = ({:#x},{:#x}) but het_hash gives ({:#x},{:#x}); lookup3 reference ({:#x},{:#x})",
            s,
            bits,
            fh0,
            nh0,
            h,
            n1,
            wh,
            wn1
        );
    }
    if (h, n1) != (wh, wn1) && (h, n1) == ref_het_folded(s, bits, true) {
        // exactly the upper-case variant: the listed deviation, nothing else
        vfail!(
            "het-hash-folds-name-to-upper-case",
            "het_hash({:?},{}) = ({:#x},{:#x}) is hashlittle2 of the UPPER-cased name; the MPQ HET hash (StormLib HashStringJenkins) folds to lower case: ({:#x},{:#x})",
            s,
            bits,
            h,
            n1,
            wh,
            wn1
        );
    }
    if (h, n1) != (wh, wn1) {
        vfail!(
            "het-hash-differs-from-lookup3",
            "het_hash({:?},{}) = ({:#x},{:#x}), lookup3 reference ({:#x},{:#x})",
            s,
            bits,
            h,
            n1,
            wh,
            wn1
        );
    }
    let v = swap_case_slash(s);
    let (hv, nv) = het_hash(&v, bits);
    if (hv, nv) != (h, n1) {
        vfail!(
            "het-hash-not-fold-invariant",
            "het_hash({:?},{}) != het_hash({:?},{})",
            s,
            bits,
            v,
            bits
        );
    }
    if jenkins_hash(s) != jenkins_hash(&v) {
        vfail!(
            "jenkins-hash-not-fold-invariant",
            "jenkins_hash({:?}) != jenkins_hash({:?})",
            s,
            v
        );
    }
    // wrapper used by the extended tables
    let (fh, nh) = wow_mpq::calculate_het_hashes(s, bits as u8);
    if (fh, nh) != (wh, wn1 as u64) {
        vfail!(
            "calculate-het-hashes-differs-from-lookup3",
            "calculate_het_hashes({:?},{}) = ({:#x},{:#x}), reference ({:#x},{:#x})",
            s,
            bits,
            fh,
            nh,
            wh,
            wn1
        );
    }
    Ok(())
}

fn check_cipher_words(key: u32, words: &[u32]) -> CaseResult {
    let mut e = words.to_vec();
    encrypt_block(&mut e, key);
    if key != 0 {
        let mut r = words.to_vec();
        refcrypt::encrypt_block(&mut r, key);
        if r != e {
            vfail!(
                "ciphertext-differs-from-reference",
                "encrypt_block(key={:#x}, {} words) differs from the reference cipher",
                key,
                words.len()
            );
        }
    }
    if let Some(&first) = e.first() {
        let d0 = decrypt_dword(first, key);
        if d0 != words[0] {
            vfail!(
                "decrypt-dword-disagrees",
                "decrypt_dword(first ciphertext word, key={:#x}) = {:#x}, plaintext {:#x}",
                key,
                d0,
                words[0]
            );
        }
    }
    let mut d = e.clone();
    decrypt_block(&mut d, key);
    if d != words {
        vfail!(
            "decrypt-does-not-invert-encrypt",
            "decrypt_block(encrypt_block(x)) != x for key={:#x}, {} words",
            key,
            words.len()
        );
    }
    Ok(())
}

fn check_cipher_bytes(key: u32, bytes: &[u8]) -> CaseResult {
    let b = wow_mpq::ArchiveBuilder::new();
    let mut e = bytes.to_vec();
    b.encrypt_data(&mut e, key);
    if e.len() != bytes.len() {
        vfail!("byte-cipher-changes-length", "len {} -> {}", bytes.len(), e.len());
    }
    let mut d = e.clone();
    wow_mpq::decrypt_file_data(&mut d, key);
    if d != bytes {
        vfail!(
            format!("byte-cipher-not-inverse:len%4={}", bytes.len() % 4),
            "decrypt_file_data(encrypt_data(x)) != x for key={:#x}, len {}",
            key,
            bytes.len()
        );
    }
    // the result must not depend on where the slice lives: the same ciphertext placed at every
    // byte offset 1..7 inside a larger buffer (a packed sector decrypted in place) and, for the
    // encrypting side, the same plaintext placed there
    for shift in 1..8usize {
        let mut big = vec![0xA5u8; shift + e.len() + 9];
        big[shift..shift + e.len()].copy_from_slice(&e);
        wow_mpq::decrypt_file_data(&mut big[shift..shift + e.len()], key);
        if &big[shift..shift + e.len()] != bytes || big[..shift].iter().any(|&x| x != 0xA5) || big[shift + e.len()..].iter().any(|&x| x != 0xA5) {
            vfail!(
                format!("byte-cipher-depends-on-buffer-position:decrypt:len%4={}", bytes.len() % 4),
                "decrypt_file_data on a sub-slice at byte offset {shift} of a larger buffer (key={:#x}, len {}) differs from the result on a whole buffer, or touched bytes outside the slice",
                key,
                bytes.len()
            );
        }
        let mut big = vec![0x5Au8; shift + bytes.len() + 9];
        big[shift..shift + bytes.len()].copy_from_slice(bytes);
        b.encrypt_data(&mut big[shift..shift + bytes.len()], key);
        if big[shift..shift + bytes.len()] != e[..] || big[..shift].iter().any(|&x| x != 0x5A) || big[shift + bytes.len()..].iter().any(|&x| x != 0x5A) {
            vfail!(
                format!("byte-cipher-depends-on-buffer-position:encrypt:len%4={}", bytes.len() % 4),
                "encrypt_data on a sub-slice at byte offset {shift} of a larger buffer (key={:#x}, len {}) differs from the result on a whole buffer, or touched bytes outside the slice",
                key,
                bytes.len()
            );
        }
    }
    // whole words must equal the reference ciphertext
    if key != 0 {
        let mut r = bytes.to_vec();
        refcrypt::encrypt_bytes(&mut r, key);
        let n = bytes.len() / 4 * 4;
        if r[..n] != e[..n] {
            vfail!(
                "byte-cipher-words-differ-from-reference",
                "encrypt_data key={:#x} len {}: whole-word part differs from reference",
                key,
                bytes.len()
            );
        }
    }
    Ok(())
}

fn small_utf8_strings() -> Vec<String> {
    let mut v = vec![String::new()];
    for a in 0u8..128 {
        v.push(String::from_utf8(vec![a]).unwrap());
    }
    for a in 0u8..128 {
        for b in 0u8..128 {
            v.push(String::from_utf8(vec![a, b]).unwrap());
        }
    }
    for a in 0xC2u8..=0xDF {
        for b in 0x80u8..=0xBF {
            v.push(String::from_utf8(vec![a, b]).unwrap());
        }
    }
    v
}

fn name_strategy() -> impl Strategy<Value = String> {
    prop_oneof![
        4 => "[A-Za-z0-9_ ().\\-]{1,12}([\\\\/][A-Za-z0-9_ ().\\-]{1,12}){0,4}",
        2 => "[ -~]{0,40}",
        1 => "\\PC{0,24}",
        1 => "[a-z/\\\\]{0,300}",
        1 => proptest::collection::vec(any::<char>(), 0..40).prop_map(|v| v.into_iter().collect()),
    ]
}

fn main() {
    let (check, _args) = Check::new("C04", "exploration");
    check.set_rule(
        "exhaustive: all 1280 crypt-table entries; every valid UTF-8 string of ≤2 bytes × 4 hash \
         types (the API takes &str, so non-UTF-8 byte pairs cannot be passed); every word length \
         0..=17 × 3 patterns × 259 keys; every byte length 0..=67. random: proptest names \
         (paths, printable, unicode, long) × 4 types + case/slash-swapped variant; keys × buffers \
         up to 64 KiB; het_hash for bits 8..=64 vs lookup3. non-trivial = string contains a \
         foldable character (a-z or '/') or buffer byte length not divisible by 4; distinct = \
         (sub-check, length class, foldable?, bits / len%4)",
    );
    check.assume("refcrypt / lookup3 are my transcriptions of the published algorithms, self-checked against published constants");
    check.assume("het fold = ASCII lower + '/'→'\\' (StormLib's HashStringJenkins; the library's upper-case folding is a listed finding reported under its own signature)");
    check.assume("ciphertext equality with the reference is only demanded for key != 0 (the library treats key 0 as 'no encryption'; inverse property is still checked there)");

    if let Err(e) = refcrypt::self_check().and(lookup3::self_check()) {
        check.inconclusive(&format!("oracle self-check failed: {e}"));
        check.finish();
    }

    if let Some(p) = check.replay.clone() {
        replay(&check, &p);
        check.finish();
    }

    table_cipher_end_to_end(&check, None);
    stored_jenkins_pair(&check);
    file_key_behind_prefix(&check);

    // 1. table, exhaustive
    let rt = refcrypt::table();
    let mut bad = None;
    for i in 0..0x500 {
        if ENCRYPTION_TABLE[i] != rt[i] {
            bad = Some(i);
            break;
        }
    }
    check.count_n("table-entry", 0x500, &[]);
    if let Some(i) = bad {
        check.fail(
            &Fail::new(
                "crypt-table-differs",
                format!(
                    "ENCRYPTION_TABLE[{i:#x}] = {:#x}, reference {:#x}",
                    ENCRYPTION_TABLE[i], rt[i]
                ),
            ),
            json!({"kind":"table","index":i}),
        );
    }

    // 2. all UTF-8 strings of ≤ 2 bytes
    let small = small_utf8_strings();
    for s in &small {
        let nt = has_foldable(s);
        check.count(
            &format!("hash-small:len{}:fold{}", s.len(), nt as u8),
            nt,
        );
        if let Err(f) = check_hash(s) {
            check.fail(&f, json!({"kind":"hash","s":s}));
        }
        for bits in [8u32, 48, 64] {
            check.count(&format!("het-small:bits{bits}:fold{}", nt as u8), nt);
            if let Err(f) = check_jenkins(s, bits) {
                check.fail(&f, json!({"kind":"het","s":s,"bits":bits}));
            }
        }
    }
    check.sample("small", || json!({"kind":"hash","s":"a/","note":"one of the 18433 strings of ≤2 bytes"}));

    // 3. cipher, exhaustive small lengths
    let mut keys: Vec<u32> = (0u32..256).map(|b| b | (0x5A5A_A500u32.rotate_left(b % 13) & !0xFF)).collect();
    keys.extend([0, 1, 0xFFFF_FFFF]);
    for &key in &keys {
        for len in 0..=17usize {
            for pat in 0..3u32 {
                let words: Vec<u32> = (0..len as u32)
                    .map(|i| match pat {
                        0 => 0,
                        1 => 0xFFFF_FFFF,
                        _ => i.wrapping_mul(0x9E37_79B9) ^ key,
                    })
                    .collect();
                check.count(&format!("cipher-words-small:len{len}"), false);
                if let Err(f) = check_cipher_words(key, &words) {
                    check.fail(&f, json!({"kind":"words","key":key,"words":words}));
                }
            }
        }
        for len in 0..=67usize {
            let bytes: Vec<u8> = (0..len).map(|i| (i as u8).wrapping_mul(37) ^ (key as u8)).collect();
            check.count(&format!("cipher-bytes-small:len%4={}", len % 4), len % 4 != 0);
            if let Err(f) = check_cipher_bytes(key, &bytes) {
                check.fail(&f, json!({"kind":"bytes","key":key,"bytes":hex::encode(&bytes)}));
            }
        }
    }
    check.set_exhaustive(false); // only the enumerated sub-domains are exhaustive; see rule
    check.set_extra(
        "exhaustive_subdomains",
        json!({"crypt_table_entries":1280, "utf8_strings_len_le_2": small.len(), "word_lengths":"0..=17 × 3 patterns × 259 keys", "byte_lengths":"0..=67 × 259 keys"}),
    );

    // 4. random strings
    let n_str = check.tier.pick(800_000u32, 8_000_000);
    pt::run(
        &check,
        "hash-random",
        n_str,
        pt::Opts::default(),
        || (name_strategy(), 8u32..=64),
        |(s, bits)| json!({"kind":"hashhet","s":s,"bits":bits}),
        |(s, bits)| {
            let nt = has_foldable(s);
            let lc = match s.len() {
                0 => "0",
                1..=2 => "1-2",
                3..=12 => "3-12",
                13..=24 => "13-24",
                25..=100 => "25-100",
                _ => ">100",
            };
            check.count(
                &format!(
                    "hash-random:len{lc}:fold{}:ascii{}:bits{}",
                    nt as u8,
                    s.is_ascii() as u8,
                    bits
                ),
                nt,
            );
            check.sample(&format!("hr{lc}{}", nt as u8), || json!({"kind":"hashhet","s":s,"bits":bits}));
            check_hash(s)?;
            check_jenkins(s, *bits)
        },
    );

    // 5. random cipher
    let n_c = check.tier.pick(160_000u32, 2_000_000);
    pt::run(
        &check,
        "cipher-random",
        n_c,
        pt::Opts::default(),
        || {
            (
                prop_oneof![any::<u32>(), (0u32..256), Just(0u32), Just(u32::MAX)],
                prop_oneof![
                    6 => proptest::collection::vec(any::<u8>(), 0..200),
                    2 => proptest::collection::vec(any::<u8>(), 200..5000),
                    1 => proptest::collection::vec(any::<u8>(), 60_000..66_000),
                ],
            )
        },
        |(k, b)| json!({"kind":"bytes","key":k,"bytes":hex::encode(b)}),
        |(key, bytes)| {
            let lc = match bytes.len() {
                0..=17 => "0-17",
                18..=199 => "18-199",
                200..=4999 => "200-4999",
                _ => "60k+",
            };
            check.count(
                &format!("cipher-random:len{lc}:mod{}:key0={}", bytes.len() % 4, (*key == 0) as u8),
                bytes.len() % 4 != 0,
            );
            check.sample(&format!("cr{lc}"), || json!({"kind":"bytes","key":key,"len":bytes.len(),"head":vcheck::engine::hex_short(bytes)}));
            check_cipher_bytes(*key, bytes)?;
            let words: Vec<u32> = bytes
                .chunks_exact(4)
                .map(|c| u32::from_le_bytes(c.try_into().unwrap()))
                .collect();
            check_cipher_words(*key, &words)
        },
    );

    check.finish();
}

/// The Jenkins pair as the builder stores it: for names without letters (both case foldings coincide, so
/// the listed upper-case deviation cannot interfere) name hash 1 in the HET table and name hash 2 in the
/// BET table of a builder-made V3/V4 archive must be the two parts of the reference lookup3 value.
fn stored_jenkins_pair(check: &Check) {
    for version in [wow_mpq::FormatVersion::V3, wow_mpq::FormatVersion::V4] {
        let dir = vcheck::engine::scratch("c04j");
        let p = dir.path().join("j.mpq");
        let n = 300usize;
        let name = |i: usize| format!("{:04}\\{:03}/{:05}_{}.{:03}", i % 7, i % 11, i * 7919 % 100000, "0123456789-+=!#$%&()[]{}~^@ ".chars().nth(i % 28).unwrap(), i % 1000);
        let mut b = wow_mpq::ArchiveBuilder::new().version(version);
        for i in 0..n {
            b = b.add_file_data(format!("{i}").into_bytes(), &name(i));
        }
        let r: Result<(), Fail> = (|| {
            vcheck::engine::guard("ArchiveBuilder::build", || b.build(&p))?.map_err(|e| Fail::new("stored-jenkins-pair:build-fails", e.to_string()))?;
            let a = vcheck::engine::guard("Archive::open", || wow_mpq::Archive::open(&p))?.map_err(|e| Fail::new("stored-jenkins-pair:archive-does-not-open", e.to_string()))?;
            let (Some(het), Some(bet)) = (a.het_table(), a.bet_table()) else {
                return Err(Fail::new("stored-jenkins-pair:extended-tables-not-loaded", format!("{version:?}: a builder-made archive opens without its HET/BET tables")));
            };
            let bits = bet.header.bet_hash_size;
            let mask = if bits >= 64 { u64::MAX } else { (1u64 << bits) - 1 };
            for i in 0..n {
                let nm = name(i);
                let want = ref_het(&nm, (bits + 8).min(64)).0 & mask;
                let (_, candidates) = het.find_file_with_collision_info(&nm);
                let stored: Vec<Option<u64>> = candidates.iter().map(|&c| bet.get_file_hash(c)).collect();
                if !stored.iter().any(|h| *h == Some(want)) {
                    return Err(Fail::new(
                        "stored-jenkins-pair:bet-name-hash-differs-from-lookup3",
                        format!("{version:?}: {nm:?} — reference name hash 2 ({bits} bits) is {want:#x}; the HET table offers {} candidate(s) whose stored BET hashes are {stored:x?}", candidates.len()),
                    ));
                }
            }
            check.count(&format!("stored-jenkins-pair:{version:?}:{n}-names:{bits}-bit"), true);
            Ok(())
        })();
        if let Err(f) = r {
            check.fail(&f, json!({"kind": "stored_jenkins_pair", "version": format!("{version:?}")}));
        }
    }
}

/// The position-adjusted file key is derived from the position relative to the MPQ header: the same
/// archive bytes behind a prefix of k×512 bytes must read identically.
fn file_key_behind_prefix(check: &Check) {
    for version in [wow_mpq::FormatVersion::V1, wow_mpq::FormatVersion::V2, wow_mpq::FormatVersion::V4] {
        let dir = vcheck::engine::scratch("c04k");
        let p = dir.path().join("k.mpq");
        // full cross product length × position-adjusted key × method: every storage layout of the builder
        // (empty, single unit, exactly one sector, several sectors; compressed or not) with either key kind
        let files: Vec<(String, Vec<u8>, bool, u8)> = (0..32usize)
            .map(|i| {
                let len = [0usize, 3, 17, 4095, 4096, 4097, 9000, 20000][i % 8];
                let body: Vec<u8> = (0..len).map(|k| ((k * 31 + i * 7) % 251) as u8 ^ if i % 3 == 0 { (k / 9) as u8 } else { 0 }).collect();
                (format!("Keys\\Dir{}\\file_{i}.bin", i % 3), body, (i / 8) % 2 == 0, if i / 16 == 0 { wow_mpq::compression::flags::ZLIB } else { 0 })
            })
            .collect();
      for crcs in [false, true] {
        let mut b = wow_mpq::ArchiveBuilder::new().version(version).generate_crcs(crcs);
        for (n, d, fix, m) in &files {
            b = b.add_file_data_with_encryption(d.clone(), n, *m, *fix, 0);
        }
        let r: Result<(), Fail> = (|| {
            vcheck::engine::guard("ArchiveBuilder::build", || b.build(&p))?.map_err(|e| Fail::new("file-key-behind-prefix:build-fails", e.to_string()))?;
            let raw = std::fs::read(&p).map_err(|e| Fail::new("harness:io", e.to_string()))?;
            // the independent reader decrypts every table and sector with the published key schedule (sector
            // offset table as ONE block under key-1, checksum entry included) and verifies the checksum sectors
            if version != wow_mpq::FormatVersion::V4 {
                let ra = vcheck::oracle::refmpq::parse(&raw).map_err(|e| Fail::new("encrypted-files:reference-cannot-parse-archive", format!("{version:?} crcs {crcs}: {e}")))?;
                for (n, d, fix, m) in &files {
                    match ra.extract(n.as_bytes()) {
                        Ok(g) if g == *d => {}
                        other => {
                            return Err(Fail::new(
                                format!("encrypted-files:reference-extraction-differs:{}", if crcs { "sector-crc" } else { "no-crc" }),
                                format!("{version:?}, sector checksums {crcs}: {n:?} ({} bytes, method {m:#x}, fix_key {fix}) — reference reader: {}", d.len(), match other { Ok(g) => format!("{} other bytes", g.len()), Err(e) => format!("Err({e})") }),
                            ))
                        }
                    }
                }
                check.count(&format!("encrypted-files-read-by-reference:{version:?}:crc{}", crcs as u8), true);
            }
            for units in [0usize, 1, 3, 64] {
                let q = dir.path().join(format!("k{units}.mpq"));
                let mut img = vec![0x5Au8; units * 512];
                img.extend_from_slice(&raw);
                std::fs::write(&q, &img).map_err(|e| Fail::new("harness:io", e.to_string()))?;
                let mut a = vcheck::engine::guard("Archive::open", || wow_mpq::Archive::open(&q))?
                    .map_err(|e| Fail::new("file-key-behind-prefix:archive-does-not-open", format!("{version:?} behind {units}×512 bytes: {e}")))?;
                for (n, d, fix, m) in &files {
                  // the key comes from the plain name (behind the last separator of either kind): both spellings
                  for n in [n.clone(), n.replace('\\', "/"), n.to_ascii_uppercase().replacen('\\', "/", 1)] {
                    let n = &n;
                    match vcheck::engine::guard("Archive::read_file", || a.read_file(n))? {
                        Ok(g) if g == *d => {}
                        other => {
                            return Err(Fail::new(
                                format!("file-key-behind-prefix:{}", if *fix { "fix-key" } else { "plain-key" }),
                                format!("{version:?}, archive behind {units}×512 bytes: {n:?} ({} bytes, method {m:#x}, fix_key {fix}) reads {}", d.len(), match other { Ok(g) => format!("{} other bytes", g.len()), Err(e) => format!("Err({e})") }),
                            ))
                        }
                    }
                  }
                }
                check.count(&format!("file-key-behind-prefix:{version:?}:{units}-units"), units > 0);
            }
            Ok(())
        })();
        if let Err(f) = r {
            check.fail(&f, json!({"kind": "file_key_behind_prefix", "version": format!("{version:?}")}));
        }
      }
    }
}

fn table_cipher_end_to_end(check: &Check, only: Option<&str>) {
    // 0. the table cipher end to end (tables/common.rs is crate-private): extended tables of
    //    builder-made V3/V4 archives with thousands of files are larger than any internal buffer of
    //    the table decryption; every name must still resolve to its own content, absent names to nothing
    for (version, n) in [(wow_mpq::FormatVersion::V3, 1700usize), (wow_mpq::FormatVersion::V4, 3100)] {
        if only.is_some_and(|o| o != format!("{version:?}")) {
            continue;
        }
        let dir = vcheck::engine::scratch("c04t");
        let p = dir.path().join("big.mpq");
        let name = |i: usize| format!("Interface\\Glue\\set{}\\file_{i:05}.blp", i % 37);
        let body = |i: usize| format!("content of file {i} / {}", i * 2654435761usize % 1000003).into_bytes();
        let mut b = wow_mpq::ArchiveBuilder::new().version(version).listfile_option(wow_mpq::ListfileOption::Generate);
        for i in 0..n {
            b = b.add_file_data(body(i), &name(i));
        }
        check.count(&format!("table-cipher-end-to-end:{version:?}:{n}-files"), true);
        let r: Result<(), Fail> = (|| {
            vcheck::engine::guard("ArchiveBuilder::build", || b.build(&p))?.map_err(|e| Fail::new("large-archive-build-fails", e.to_string()))?;
            let mut a = vcheck::engine::guard("Archive::open", || wow_mpq::Archive::open(&p))?.map_err(|e| Fail::new("extended-table-cipher:archive-does-not-open", e.to_string()))?;
            for i in 0..n {
                match vcheck::engine::guard("Archive::read_file", || a.read_file(&name(i)))? {
                    Ok(d) if d == body(i) => {}
                    Ok(d) => {
                        return Err(Fail::new(
                            "extended-table-cipher:name-resolves-to-other-content",
                            format!("{version:?} archive with {n} files: {:?} reads {} bytes that are not its content", name(i), d.len()),
                        ))
                    }
                    Err(e) => return Err(Fail::new("extended-table-cipher:name-not-read", format!("{version:?} archive with {n} files: {:?}: {e}", name(i)))),
                }
            }
            // the table readers given the stored (encrypted) table vs the same readers given the body
            // decrypted as ONE block by the reference cipher (key 0 = already plain): every lookup agrees
            if let Some(v4) = a.header().v4_data.clone() {
                let raw = std::fs::read(&p).map_err(|e| Fail::new("harness:io", e.to_string()))?;
                let (hp, bp) = (a.header().het_table_pos.unwrap_or(0) as usize, a.header().bet_table_pos.unwrap_or(0) as usize);
                let (hs, bs) = (v4.het_table_size_64 as usize, v4.bet_table_size_64 as usize);
                if hp != 0 && bp != 0 && hp + hs <= raw.len() && bp + bs <= raw.len() && hs > 12 && bs > 12 {
                    let reference = |pos: usize, size: usize, keyname: &[u8]| -> Vec<u8> {
                        let mut plain = raw[pos..pos + size].to_vec();
                        refcrypt::decrypt_bytes(&mut plain[12..], refcrypt::hash_string(keyname, refcrypt::HASH_FILE_KEY));
                        plain
                    };
                    let hkey = refcrypt::hash_string(b"(hash table)", refcrypt::HASH_FILE_KEY);
                    let bkey = refcrypt::hash_string(b"(block table)", refcrypt::HASH_FILE_KEY);
                    let het_ref = wow_mpq::HetTable::read(&mut std::io::Cursor::new(reference(hp, hs, b"(hash table)")), 0, hs as u64, 0);
                    let het_got = vcheck::engine::guard("HetTable::read", || wow_mpq::HetTable::read(&mut std::io::Cursor::new(&raw[hp..hp + hs]), 0, hs as u64, hkey))?;
                    let bet_ref = wow_mpq::BetTable::read(&mut std::io::Cursor::new(reference(bp, bs, b"(block table)")), 0, bs as u64, 0);
                    let bet_got = vcheck::engine::guard("BetTable::read", || wow_mpq::BetTable::read(&mut std::io::Cursor::new(&raw[bp..bp + bs]), 0, bs as u64, bkey))?;
                    match (het_ref, het_got, bet_ref, bet_got) {
                        (Ok(hr), Ok(hg), Ok(br), Ok(bg)) => {
                            for i in 0..n {
                                if hr.find_file(&name(i)) != hg.find_file(&name(i)) {
                                    return Err(Fail::new("extended-table-cipher:het-table-decrypts-differently-from-reference", format!("{version:?}, {n} files, HET table of {hs} bytes: lookup of {:?} differs between the table decrypted by the reader and by the reference cipher", name(i))));
                                }
                                if br.get_file_hash(i as u32) != bg.get_file_hash(i as u32) {
                                    return Err(Fail::new("extended-table-cipher:bet-table-decrypts-differently-from-reference", format!("{version:?}, {n} files, BET table of {bs} bytes: name hash 2 of file {i} differs between the table decrypted by the reader and by the reference cipher")));
                                }
                            }
                            check.count(&format!("table-cipher-differential:{version:?}:het{}k:bet{}k", hs / 1024, bs / 1024), true);
                        }
                        (Ok(_), Err(e), _, _) | (_, _, Ok(_), Err(e)) => {
                            return Err(Fail::new("extended-table-cipher:stored-table-does-not-load", format!("{version:?}, {n} files: the reader fails on the stored table ({e}) although the reference-decrypted table loads")));
                        }
                        _ => check.bump("table_cipher_differential_not_applicable", 1),
                    }
                }
            }
            for i in 0..200 {
                let absent = format!("Interface\\Glue\\set{}\\nofile_{i:05}.blp", i % 37);
                if let Ok(Some(_)) = a.find_file(&absent) {
                    return Err(Fail::new("extended-table-cipher:absent-name-found", format!("{version:?} archive with {n} files: {absent:?} was never added")));
                }
            }
            Ok(())
        })();
        if let Err(f) = r {
            check.fail(&f, json!({"kind": "table_cipher", "version": format!("{version:?}"), "files": n}));
        }
    }

}

fn replay(check: &Check, p: &std::path::Path) {
    let v: serde_json::Value = serde_json::from_str(&std::fs::read_to_string(p).expect("replay file")).expect("json");
    let c = &v["case"];
    let r: CaseResult = match c["kind"].as_str().unwrap_or("") {
        "table_cipher" => {
            table_cipher_end_to_end(check, c["version"].as_str());
            Ok(())
        }
        "stored_jenkins_pair" => {
            stored_jenkins_pair(check);
            Ok(())
        }
        "file_key_behind_prefix" => {
            file_key_behind_prefix(check);
            Ok(())
        }
        "hash" => check_hash(c["s"].as_str().unwrap()),
        "het" => check_jenkins(c["s"].as_str().unwrap(), c["bits"].as_u64().unwrap() as u32),
        "hashhet" => check_hash(c["s"].as_str().unwrap())
            .and_then(|_| check_jenkins(c["s"].as_str().unwrap(), c["bits"].as_u64().unwrap() as u32)),
        "words" => {
            let w: Vec<u32> = c["words"].as_array().unwrap().iter().map(|x| x.as_u64().unwrap() as u32).collect();
            check_cipher_words(c["key"].as_u64().unwrap() as u32, &w)
        }
        "bytes" => {
            let b = hex::decode(c["bytes"].as_str().unwrap()).unwrap();
            let key = c["key"].as_u64().unwrap() as u32;
            check_cipher_bytes(key, &b).and_then(|_| {
                let words: Vec<u32> = b.chunks_exact(4).map(|c| u32::from_le_bytes(c.try_into().unwrap())).collect();
                check_cipher_words(key, &words)
            })
        }
        "table" => {
            let i = c["index"].as_u64().unwrap() as usize;
            if ENCRYPTION_TABLE[i] != refcrypt::table()[i] {
                Err(Fail::new("crypt-table-differs", format!("index {i:#x}")))
            } else {
                Ok(())
            }
        }
        k => {
            eprintln!("unknown replay kind {k}");
            std::process::exit(2)
        }
    };
    check.count("replay", true);
    check.count("replay2", true);
    if let Err(f) = r {
        check.fail(&f, c.clone());
    }
}
