//! C10 — corruption of protected data is detected; intact data always verifies.
//! Fault enumeration: every byte of every protected region × {^0x01, ^0x80, ^0xFF} plus seeded
//! multi-byte overwrites, for one small archive per kind of integrity metadata.
use serde::{Deserialize, Serialize};
use serde_json::json;
use std::io::Cursor;
use vcheck::engine::{self, Check, Fail};
use vcheck::ffi::{self, Storm};
use vcheck::gens::mpq::*;
use wow_mpq::crypto::{generate_weak_signature, verify_weak_signature_stormlib, SignatureInfo};
use wow_mpq::{Archive, SignatureStatus};

#[derive(Clone, Debug, Serialize, Deserialize)]
struct Fault {
    kind: String,
    offset: usize,
    /// xor mask bytes applied from `offset` (empty = use `set`)
    xor: Vec<u8>,
    /// bytes written from `offset`
    set: Vec<u8>,
}

#[derive(Clone, Debug)]
struct Region {
    name: String,
    class: &'static str,
    start: usize,
    end: usize,
    file: Option<usize>,
}

struct KindDef {
    name: &'static str,
    spec: ArchiveSpec,
    signed: bool,
    /// which region classes the kind's metadata protects
    protects: &'static [&'static str],
    /// bytes of foreign data in front of the archive (a multiple of 512: the archive is embedded
    /// behind a stub; every stored position is relative to the header found there)
    prefix: usize,
    /// judged on the intact image only (large archives: every file must read and verify; the byte
    /// faults are enumerated on the small kinds)
    intact_only: bool,
}

fn files_basic() -> Vec<FileSpec> {
    let f = |name: &str, class, halves, delta, method, enc| FileSpec {
        name: name.to_string(),
        class,
        len: LenSpec { halves, delta },
        seed: 7,
        method,
        enc,
        locale: 0,
    };
    vec![
        f("raw_single.bin", ContentClass::Random, 0, 300, M_NONE, Enc::None),
        f("z_single.txt", ContentClass::Text, 0, 400, M_ZLIB, Enc::None),
        f("dir\\raw_multi.bin", ContentClass::Random, 5, 20, M_NONE, Enc::None),
        // a second file with the same number of sectors right behind the first: state a reader keeps from one
        // file (offset tables, checksum tables, keys) must not leak into the next
        f("dir\\raw_multi2.bin", ContentClass::Random, 5, 41, M_NONE, Enc::None),
        f("dir\\z_multi.txt", ContentClass::Text, 6, 1, M_ZLIB, Enc::None),
        f("enc_single.txt", ContentClass::Text, 0, 450, M_ZLIB, Enc::Key),
        f("enc_multi.bin", ContentClass::Random, 3, 3, M_NONE, Enc::FixKey),
        f("mixed_multi.dat", ContentClass::CompressibleHeadRandomTail, 6, 0, M_BZIP2, Enc::None),
        // 24 identical sectors: the checksum sector of this file is itself compressible (the only
        // shape in which it is stored compressed), and its intact image must still verify
        f("const_multi.dat", ContentClass::Constant, 48, 0, M_ZLIB, Enc::None),
    ]
}

/// `files_basic` plus lossy sound data in several sectors: sector checksums cover the stored (ADPCM) sectors,
/// so they verify; a content digest in the attributes is taken over the data as added and cannot match what a
/// lossy file decodes to (StormLib behaves the same), which is why these files are kept out of the attribute kinds
fn files_with_lossy() -> Vec<FileSpec> {
    let mut v = files_basic();
    let f = |name: &str, class, halves, delta, method| FileSpec { name: name.to_string(), class, len: LenSpec { halves, delta }, seed: 9, method, enc: Enc::None, locale: 0 };
    // (20 and 17 sectors: enough checksum entries for the checksum sector to be stored compressed)
    v.push(f("snd\\adpcm_multi.wav", ContentClass::LowEntropy, 39, 10, M_ADPCM_MONO));
    v.push(f("snd\\adpcm_stereo_z.wav", ContentClass::Period, 33, 0, M_ADPCM_STEREO | M_ZLIB));
    v
}

fn files_many(n: usize, seed: u32) -> Vec<FileSpec> {
    (0..n)
        .map(|i| FileSpec {
            name: format!("world\\maps\\k{seed}\\tile_{}_{}.adt", i / 64, i % 64),
            class: if i % 2 == 0 { ContentClass::Text } else { ContentClass::Random },
            len: LenSpec { halves: 0, delta: 16 + (i % 23) as i16 },
            seed: seed * 100_000 + i as u32,
            method: if i % 3 == 0 { M_ZLIB } else { M_NONE },
            enc: Enc::None,
            locale: 0,
        })
        .collect()
}

fn kinds() -> Vec<KindDef> {
    let base = |version, attrs, crcs, files| ArchiveSpec {
        version,
        shift: 0,
        crcs,
        attrs,
        listfile: true,
        compress_tables: false,
        table_method: M_ZLIB,
        files,
    };
    let mut signed_files = files_basic();
    signed_files.truncate(5);
    signed_files.push(FileSpec {
        name: "(signature)".into(),
        class: ContentClass::Constant,
        len: LenSpec { halves: 0, delta: 72 },
        seed: 0, // 72 zero bytes
        method: M_NONE,
        enc: Enc::None,
        locale: 0,
    });
    vec![
        KindDef { name: "sector-crc", spec: base(1, Attrs::CrcsThenNone, true, files_with_lossy()), signed: false, protects: &["file-data"], prefix: 0, intact_only: false },
        KindDef { name: "attr-crc32", spec: base(1, Attrs::Crc32, false, files_basic()), signed: false, protects: &["file-data", "sector-offset-table", "attributes-file"], prefix: 0, intact_only: false },
        KindDef { name: "attr-full-md5", spec: base(2, Attrs::Full, false, files_basic()), signed: false, protects: &["file-data", "sector-offset-table", "attributes-file"], prefix: 0, intact_only: false },
        // files of 9..12 identical incompressible sectors: the data sectors are stored raw, the checksum sector (all
        // entries equal) is stored compressed, in lengths of every residue modulo 4
        KindDef {
            name: "sector-crc-identical-raw-sectors",
            spec: base(
                1,
                Attrs::CrcsThenNone,
                true,
                (9u8..=12)
                    .map(|n| FileSpec { name: format!("rep\\same{n}.bin"), class: ContentClass::RepeatedRandomBlock, len: LenSpec { halves: 2 * n, delta: -3 }, seed: 40 + n as u32, method: M_ZLIB, enc: Enc::None, locale: 0 })
                    .collect(),
            ),
            signed: false,
            protects: &["file-data"],
            prefix: 0,
            intact_only: false,
        },
        // CRC32+MD5 attributes and no sector checksums: the attribute digests are all that protects the file data
        KindDef { name: "attr-full-md5-no-sector-crc", spec: base(1, Attrs::FullThenNoCrcs, false, files_basic()), signed: false, protects: &["file-data", "sector-offset-table", "attributes-file"], prefix: 0, intact_only: false },
        // CRC32 attributes only and no sector checksums; two of the files have content whose CRC-32 is 0x00000000
        // (the stored attribute value a reader can mistake for "no checksum recorded")
        KindDef {
            name: "attr-crc32-only-no-sector-crc",
            spec: base(1, Attrs::Crc32ThenNoCrcs, false, {
                let mut v = files_basic();
                v.truncate(5);
                let f = |name: &str, halves, delta| FileSpec { name: name.to_string(), class: ContentClass::Crc32Zero, len: LenSpec { halves, delta }, seed: 11, method: M_NONE, enc: Enc::None, locale: 0 };
                v.push(f("zero_crc_single.bin", 0, 333));
                v.push(f("dir\\zero_crc_multi.bin", 5, 9));
                v
            }),
            signed: false,
            protects: &["file-data", "sector-offset-table", "attributes-file"],
            prefix: 0,
            intact_only: false,
        },
        KindDef { name: "v3-attr-crc32", spec: base(3, Attrs::Crc32, false, files_basic()), signed: false, protects: &["file-data", "sector-offset-table", "attributes-file"], prefix: 0, intact_only: false },
        KindDef { name: "v4-digests", spec: base(4, Attrs::None, false, files_basic()), signed: false, protects: &["header", "hash-table", "block-table", "het-table", "bet-table"], prefix: 0, intact_only: false },
        KindDef { name: "v4-digests-attr", spec: base(4, Attrs::Full, false, files_basic()), signed: false, protects: &["header", "hash-table", "block-table", "het-table", "bet-table", "file-data", "sector-offset-table", "attributes-file"], prefix: 0, intact_only: false },
        KindDef { name: "weak-signature", spec: base(1, Attrs::None, false, signed_files.clone()), signed: true, protects: &["header", "hash-table", "block-table", "file-data", "sector-offset-table", "listfile", "signature-file", "slack"], prefix: 0, intact_only: false },
        // thousands of files: extended tables larger than the cipher's and the decoder's internal
        // buffers, many names sharing an 8-bit HET hash inside one probe run
        KindDef { name: "large-v3-attr-crc32", spec: base(3, Attrs::Crc32, false, files_many(1600, 3)), signed: false, protects: &[], prefix: 0, intact_only: true },
        KindDef { name: "large-v4-attr-full", spec: base(4, Attrs::Full, false, files_many(2600, 4)), signed: false, protects: &[], prefix: 0, intact_only: true },
        // tables above 64 KiB that are not a multiple of it (block table of 4 500+ entries): digests computed piecewise must still match
        KindDef { name: "large-v4-digests-4500", spec: base(4, Attrs::None, false, files_many(4500, 7)), signed: false, protects: &[], prefix: 0, intact_only: true },
        // compressed HET/BET tables: the V4 header records the stored (compressed) table sizes and the digests cover exactly those bytes
        KindDef { name: "v4-digests-compressed-tables-60", spec: ArchiveSpec { compress_tables: true, ..base(4, Attrs::None, false, files_many(60, 5)) }, signed: false, protects: &[], prefix: 0, intact_only: true },
        KindDef { name: "v4-digests-compressed-tables-1", spec: ArchiveSpec { compress_tables: true, ..base(4, Attrs::Crc32, false, files_many(1, 6)) }, signed: false, protects: &[], prefix: 0, intact_only: true },
        KindDef { name: "weak-signature-behind-prefix", spec: base(1, Attrs::None, false, signed_files.clone()), signed: true, protects: &["header", "hash-table", "block-table", "file-data", "sector-offset-table", "listfile", "signature-file", "slack"], prefix: 1024, intact_only: false },
    ]
}

struct Built {
    bytes: Vec<u8>,
    regions: Vec<Region>,
    contents: Vec<Vec<u8>>,
    /// checksum sectors of multi-sector files with sector checksums: [start, end) in the image
    crc_sectors: Vec<(usize, usize)>,
}

fn build(k: &KindDef, dir: &std::path::Path) -> Result<Built, String> {
    let path = dir.join("intact.mpq");
    k.spec.builder().build(&path).map_err(|e| format!("build: {e}"))?;
    let mut bytes = std::fs::read(&path).map_err(|e| e.to_string())?;
    let mut ar = Archive::open(&path).map_err(|e| format!("open: {e}"))?;
    let sector = k.spec.sector();
    let mut regions = vec![];
    let hdr = ar.header().clone();
    regions.push(Region { name: "header".into(), class: "header", start: 0, end: hdr.header_size as usize, file: None });
    let htp = hdr.get_hash_table_pos() as usize;
    regions.push(Region { name: "hash table".into(), class: "hash-table", start: htp, end: htp + hdr.hash_table_size as usize * 16, file: None });
    let btp = hdr.get_block_table_pos() as usize;
    regions.push(Region { name: "block table".into(), class: "block-table", start: btp, end: btp + hdr.block_table_size as usize * 16, file: None });
    if let (Some(hp), Some(bp)) = (hdr.het_table_pos, hdr.bet_table_pos) {
        if hp != 0 && bp != 0 {
            // each extended table ends where the next table (in file order) starts
            let mut starts = vec![hp as usize, bp as usize, htp, btp];
            starts.sort();
            let next = |p: usize| starts.iter().copied().find(|&s| s > p).unwrap_or(p);
            regions.push(Region { name: "HET".into(), class: "het-table", start: hp as usize, end: next(hp as usize), file: None });
            regions.push(Region { name: "BET".into(), class: "bet-table", start: bp as usize, end: next(bp as usize), file: None });
        }
    }
    let crc_on = k.spec.effective_crcs();
    let mut add_file = |ar: &mut Archive, name: &str, class: &'static str, file: Option<usize>, len: usize| -> Result<(), String> {
        let info = ar.find_file(name).map_err(|e| e.to_string())?.ok_or(format!("{name} not found"))?;
        let mut stored = info.compressed_size as usize;
        // single-unit files carry their 4-byte checksum behind the stored bytes (not counted in the
        // block table's stored size); the checksum sector of a multi-sector file is part of it
        if crc_on && name != "(attributes)" && len <= sector {
            stored += 4;
        }
        let start = info.file_pos as usize;
        if class == "file-data" && len > sector && info.is_compressed() {
            // sector offset table: n+1 entries (+1 with a checksum sector). It is not covered by
            // the sector checksums (they cover the stored sectors), only by metadata over the
            // file's *content* (attributes CRC32/MD5) or over the whole archive (signature)
            let table = (len.div_ceil(sector) + 1 + (crc_on && name != "(attributes)") as usize) * 4;
            regions.push(Region { name: format!("{name} sector offset table"), class: "sector-offset-table", start, end: start + table.min(stored), file });
            regions.push(Region { name: name.to_string(), class, start: start + table.min(stored), end: start + stored, file });
            return Ok(());
        }
        if class == "signature-file" {
            // 8-byte header of the (signature) file: neither signed nor part of the signature
            regions.push(Region { name: "(signature) header".into(), class: "signature-header", start, end: start + 8, file });
            regions.push(Region { name: name.to_string(), class, start: start + 8, end: start + stored, file });
        } else {
            regions.push(Region { name: name.to_string(), class, start, end: start + stored, file });
        }
        Ok(())
    };
    let mut contents = vec![];
    for (i, f) in k.spec.files.iter().enumerate() {
        let mut c = k.spec.content(i);
        let class = if f.name == "(signature)" { "signature-file" } else { "file-data" };
        add_file(&mut ar, &f.name, class, Some(i), c.len())?;
        if f.method & (M_ADPCM_MONO | M_ADPCM_STEREO) != 0 {
            // lossy: "the content" of such a file is what the intact archive decodes to (same length as added);
            // an intact file that does not read at all is reported by the intact judgement
            if let Ok(d) = ar.read_file(&f.name) {
                if d.len() == c.len() {
                    c = d;
                }
            }
        }
        contents.push(c);
    }
    // where the checksum sectors are (read from each file's sector offset table, decrypted with the
    // reference cipher where the file is encrypted): entries n and n+1 of the table delimit it
    let mut crc_sectors: Vec<(usize, usize)> = vec![];
    if crc_on {
        for (i, f) in k.spec.files.iter().enumerate() {
            let len = contents[i].len();
            if len <= sector {
                continue;
            }
            let info = ar.find_file(&f.name).map_err(|e| e.to_string())?.ok_or("file vanished")?;
            if !info.is_compressed() {
                continue;
            }
            let n = len.div_ceil(sector);
            let start = info.file_pos as usize;
            let mut table = bytes[start..start + (n + 2) * 4].to_vec();
            if f.enc != Enc::None {
                let key = vcheck::oracle::refcrypt::file_key(f.name.as_bytes(), f.enc == Enc::FixKey, info.file_pos as u32, len as u32);
                vcheck::oracle::refcrypt::decrypt_bytes(&mut table, key.wrapping_sub(1));
            }
            let e = |j: usize| u32::from_le_bytes(table[j * 4..j * 4 + 4].try_into().unwrap()) as usize;
            let (a, b) = (e(n), e(n + 1));
            if e(0) == (n + 2) * 4 && a <= b && b <= info.compressed_size as usize {
                crc_sectors.push((start + a, start + b));
            }
        }
    }
    let lf = ar.read_file("(listfile)").map_err(|e| e.to_string())?;
    add_file(&mut ar, "(listfile)", "listfile", None, lf.len())?;
    if k.spec.has_attributes() {
        add_file(&mut ar, "(attributes)", "attributes-file", None, 0)?;
    }
    if k.prefix > 0 {
        // embed the archive behind `prefix` foreign bytes; every region moves with it
        let mut b = vec![0xA5u8; k.prefix];
        b.extend_from_slice(&bytes);
        bytes = b;
        for r in regions.iter_mut() {
            r.start += k.prefix;
            r.end += k.prefix;
        }
        for c in crc_sectors.iter_mut() {
            c.0 += k.prefix;
            c.1 += k.prefix;
        }
        regions.push(Region { name: "foreign bytes in front of the archive".into(), class: "prefix", start: 0, end: k.prefix, file: None });
    }
    if k.signed {
        let sigh = regions.iter().find(|r| r.class == "signature-header").ok_or("no signature region")?.clone();
        let sig = regions.iter().find(|r| r.class == "signature-file").ok_or("no signature region")?.clone();
        // the signed range is the archive itself, [prefix, prefix + archive size), in file positions
        let info = SignatureInfo::new_weak(k.prefix as u64, hdr.archive_size as u64, sigh.start as u64, 72, vec![]);
        let file = generate_weak_signature(Cursor::new(&bytes), &info).map_err(|e| format!("sign: {e}"))?;
        if file.len() != 72 || sig.end - sigh.start != 72 {
            return Err(format!("signature file {} bytes, region {}", file.len(), sig.end - sigh.start));
        }
        bytes[sigh.start..sig.end].copy_from_slice(&file);
    }
    for r in &regions {
        if r.end < r.start || r.end > bytes.len() {
            return Err(format!("region {} [{}..{}) invalid for file of {} bytes", r.name, r.start, r.end, bytes.len()));
        }
    }
    // slack = everything not covered
    let mut covered = vec![false; bytes.len()];
    for r in &regions {
        for c in covered[r.start.min(bytes.len())..r.end.min(bytes.len())].iter_mut() {
            *c = true;
        }
    }
    let mut i = 0;
    while i < covered.len() {
        if !covered[i] {
            let s = i;
            while i < covered.len() && !covered[i] {
                i += 1;
            }
            regions.push(Region { name: "slack".into(), class: "slack", start: s, end: i, file: None });
        } else {
            i += 1;
        }
    }
    Ok(Built { bytes, regions, contents, crc_sectors })
}

fn md5_all_valid(ar: &mut Archive) -> Option<bool> {
    let info = ar.get_info().ok()?;
    let m = info.md5_status?;
    Some(m.hash_table_valid && m.block_table_valid && m.hi_block_table_valid && m.het_table_valid && m.bet_table_valid && m.header_valid)
}

struct Ctx<'a> {
    storm: &'a Storm,
    k: &'a KindDef,
    b: &'a Built,
    dir: &'a std::path::Path,
}

/// Judge one (possibly faulted) archive image. `region` = where the fault is (None = intact).
fn judge(cx: &Ctx, image: &[u8], region: Option<&Region>, tag: usize) -> Result<&'static str, Fail> {
    let path = cx.dir.join(format!("f{tag}.mpq"));
    std::fs::write(&path, image).expect("write image");
    let mut r = judge_path(cx, &path, region);
    let _ = std::fs::remove_file(&path);
    // The format reads a checksum entry of 0 (or 0xFFFFFFFF) as "this sector carries no checksum".
    // An overwrite that also turns checksum entries into that marker removes the protection it would
    // have tripped: a limit of the format's tolerance rule, reported under its own signature.
    if let Err(f) = &mut r {
        if f.signature.starts_with("silent-corruption:") {
            let cleared = cx.b.crc_sectors.iter().any(|&(a, b)| {
                (a..b.min(image.len())).step_by(4).any(|o| {
                    o + 4 <= b && o + 4 <= image.len() && image[o..o + 4] != cx.b.bytes[o..o + 4] && (image[o..o + 4] == [0, 0, 0, 0] || image[o..o + 4] == [0xFF, 0xFF, 0xFF, 0xFF])
                })
            });
            // the same limit one step further: a change that reaches into a checksum sector which is stored
            // compressed makes the whole sector undecodable, and an unusable checksum sector is read as "no
            // checksums" (the tolerance real-world archives with broken checksum sectors rely on)
            let altered = cx.b.crc_sectors.iter().any(|&(a, b)| (a..b.min(image.len())).any(|o| image[o] != cx.b.bytes[o]));
            if cleared {
                f.signature = f.signature.replacen("silent-corruption:", "silent-corruption-with-checksum-entries-cleared:", 1);
            } else if altered {
                f.signature = f.signature.replacen("silent-corruption:", "silent-corruption-with-checksum-sector-made-unusable:", 1);
            }
        }
    }
    r
}

fn judge_path(cx: &Ctx, path: &std::path::Path, region: Option<&Region>) -> Result<&'static str, Fail> {
    let kind = cx.k.name;
    let rclass = region.map(|r| r.class).unwrap_or("intact");
    let intact = region.is_none();
    let opened = engine::guard("Archive::open", || Archive::open(path))?;
    let mut ar = match opened {
        Ok(a) => a,
        Err(e) => {
            if intact {
                return Err(Fail::new(format!("intact-archive-does-not-open:{kind}"), format!("{e}")));
            }
            return Ok("open-fails");
        }
    };
    // signature clause: any change to signed bytes or the signature ⇒ not valid
    if cx.k.signed {
        let st = engine::guard("verify_signature", || ar.verify_signature())?;
        match (intact, st) {
            (true, Ok(SignatureStatus::WeakValid)) => {}
            (true, other) => {
                return Err(Fail::new(
                    "intact-signature-does-not-verify",
                    format!("library-generated weak signature verifies as {other:?}"),
                ));
            }
            (false, Ok(SignatureStatus::WeakValid)) => {
                return Err(Fail::new(
                    format!("signature-still-valid-after-change:{rclass}"),
                    format!("verify_signature() = WeakValid after a change inside {rclass}"),
                ));
            }
            (false, _) => return Ok("signature-invalid"),
        }
    }
    let mut any_detected = false;
    let mut silent: Option<String> = None;
    let mut h = None;
    for (i, f) in cx.k.spec.files.iter().enumerate() {
        if f.name == "(signature)" {
            continue;
        }
        let want = &cx.b.contents[i];
        let got = engine::guard("read_file", || ar.read_file(&f.name))?;
        let differs = match got {
            Err(e) => {
                if std::env::var("VERIF_C10_DEBUG").is_ok() {
                    use std::io::Write;
                    if let Ok(mut fh) = std::fs::OpenOptions::new().create(true).append(true).open("/tmp/c10debug.log") {
                        let _ = writeln!(fh, "[c10] {}: read error {e}", f.name);
                    }
                }
                if intact {
                    return Err(Fail::new(format!("intact-file-unreadable:{kind}"), format!("{}", f.name)));
                }
                any_detected = true;
                continue;
            }
            Ok(d) => &d != want,
        };
        // verify operation (C API), also for intact files: must succeed there
        if h.is_none() {
            h = cx.storm.open(path.to_str().unwrap());
        }
        let verified = match h {
            Some(hh) => cx.storm.verify_file(hh, &f.name, 0),
            None => false,
        };
        if intact {
            if differs {
                return Err(Fail::new(format!("intact-content-differs:{kind}"), f.name.clone()));
            }
            if !verified {
                return Err(Fail::new(
                    format!("intact-file-fails-verification:{kind}"),
                    format!("SFileVerifyFile({}) fails on the unmodified archive (last error {})", f.name, cx.storm.last_error()),
                ));
            }
            continue;
        }
        if std::env::var("VERIF_C10_DEBUG").is_ok() {
            use std::io::Write;
            if let Ok(mut fh) = std::fs::OpenOptions::new().create(true).append(true).open("/tmp/c10debug.log") {
                let _ = writeln!(fh, "[c10] {}: differs={differs} verified={verified} last_error={}", f.name, cx.storm.last_error());
            }
        }
        if differs {
            if !verified {
                any_detected = true;
            } else {
                let st = if want.len() <= cx.k.spec.sector() { "single" } else { "multi" };
                let stor = if f.enc != Enc::None { format!("{st}-enc") } else { st.to_string() };
                silent.get_or_insert(format!("{}:{}:{}", method_name(f.method), stor, f.name));
            }
        }
    }
    if let Some(hh) = h {
        cx.storm.close(hh);
    }
    // intact data verifies whatever was read before through the same handle: every file again in reverse
    // order, then every file twice in a row
    if intact {
        let n = cx.k.spec.files.len();
        let order: Vec<usize> = (0..n).rev().chain((0..n).flat_map(|i| [i, i])).collect();
        for i in order {
            let f = &cx.k.spec.files[i];
            if f.name == "(signature)" {
                continue;
            }
            match engine::guard("read_file", || ar.read_file(&f.name))? {
                Ok(d) if d == cx.b.contents[i] => {}
                Ok(_) => return Err(Fail::new(format!("intact-content-differs-on-reread:{kind}"), f.name.clone())),
                Err(e) => return Err(Fail::new(format!("intact-file-unreadable-on-reread:{kind}"), format!("{}: {e}", f.name))),
            }
        }
    }
    // V4 digests
    let v4 = cx.k.spec.version == 4;
    let md5_ok = if v4 { engine::guard("get_info", || md5_all_valid(&mut ar))? } else { None };
    if intact {
        if v4 && md5_ok != Some(true) {
            let st = ar.get_info().ok().and_then(|i| i.md5_status);
            return Err(Fail::new("intact-v4-digests-do-not-verify", format!("md5_status on the unmodified V4 archive: {st:?}")));
        }
        return Ok("intact-ok");
    }
    if v4 && md5_ok == Some(false) {
        any_detected = true;
    }
    if let Some(s) = silent {
        if !(v4 && md5_ok == Some(false)) {
            let which: Vec<&str> = s.splitn(3, ':').collect();
            return Err(Fail::new(
                format!("silent-corruption:{kind}:{rclass}:{}:{}", which[1], which[0]),
                format!(
                    "a change inside {} leaves {} readable with different content and every verify operation succeeds",
                    region.map(|r| r.name.as_str()).unwrap_or("?"),
                    which[2]
                ),
            ));
        }
    }
    Ok(if any_detected { "detected" } else { "content-identical" })
}

fn outcome_to_result(o: &vcheck::engine::supervise::Outcome, f: &Fault, rclass: &str) -> Result<String, Fail> {
    use vcheck::engine::supervise::Outcome;
    match o {
        Outcome::Done(v) => {
            if let Some(ok) = v["ok"].as_str() {
                Ok(ok.to_string())
            } else {
                Err(Fail::new(v["sig"].as_str().unwrap_or("?").to_string(), v["msg"].as_str().unwrap_or("").to_string()))
            }
        }
        // A crash is not *silent* corruption; totality of the parsers is property C05's business
        // (its mutators cover the same header/table bytes). Counted, not judged here.
        Outcome::Died { how, .. } => {
            let _ = (f, rclass);
            Ok(format!("process-died-{how}(C05)"))
        }
        Outcome::Deadlock { .. } => Ok("process-hung(C05)".to_string()),
    }
}

fn apply(image: &mut [u8], f: &Fault) {
    for (i, x) in f.xor.iter().enumerate() {
        if f.offset + i < image.len() {
            image[f.offset + i] ^= x;
        }
    }
    for (i, x) in f.set.iter().enumerate() {
        if f.offset + i < image.len() {
            image[f.offset + i] = *x;
        }
    }
}

fn function_level_signature(check: &Check) {
    // signatures over arbitrary byte strings: verify, then every bit of the first 2 KiB (sampled beyond)
    // and every signature bit must invalidate
    let mut r = engine::rng(check.sub_seed("sigfn"));
    use rand::Rng;
    let lens = [1usize, 63, 64, 65, 1000, 65535, 65536, 65537, 70000];
    for &len in &lens {
        let mut data = vec![0u8; len];
        r.fill(&mut data[..]);
        // exclude region: an 8-byte window in the middle is "the signature file" area
        let ex = (len / 2) as u64;
        let info = SignatureInfo::new_weak(0, len as u64, ex, 0, vec![]);
        let file = match generate_weak_signature(Cursor::new(&data), &info) {
            Ok(f) => f,
            Err(e) => {
                check.fail(&Fail::new("generate-weak-signature-fails", format!("len {len}: {e}")), json!({"fn":"sign","len":len}));
                continue;
            }
        };
        let sig = file[8..72].to_vec();
        check.count(&format!("sigfn:len{len}:intact"), true);
        match verify_weak_signature_stormlib(Cursor::new(&data), &sig, &info) {
            Ok(true) => {}
            other => {
                check.fail(&Fail::new("generated-signature-does-not-verify", format!("len {len}: {other:?}")), json!({"fn":"verify","len":len}));
                continue;
            }
        }
        let nbits = (len * 8).min(if check.tier == engine::Tier::Quick { 600 } else { 16384 });
        let step = ((len * 8) / nbits).max(1);
        let mut bit = 0;
        let mut n = 0u64;
        while bit < len * 8 {
            let mut d = data.clone();
            d[bit / 8] ^= 1 << (bit % 8);
            if let Ok(true) = verify_weak_signature_stormlib(Cursor::new(&d), &sig, &info) {
                check.fail(
                    &Fail::new("signature-valid-after-data-bit-flip", format!("len {len}, bit {bit} (64 KiB unit {})", bit / 8 / 65536)),
                    json!({"fn":"flip-data","len":len,"bit":bit}),
                );
                break;
            }
            n += 1;
            bit += step;
        }
        // last byte explicitly (partial trailing unit)
        let mut d = data.clone();
        *d.last_mut().unwrap() ^= 0x80;
        if let Ok(true) = verify_weak_signature_stormlib(Cursor::new(&d), &sig, &info) {
            check.fail(&Fail::new("signature-valid-after-data-bit-flip", format!("len {len}, last byte")), json!({"fn":"flip-last","len":len}));
        }
        for sb in 0..512 {
            let mut s = sig.clone();
            s[sb / 8] ^= 1 << (sb % 8);
            if let Ok(true) = verify_weak_signature_stormlib(Cursor::new(&data), &s, &info) {
                check.fail(&Fail::new("signature-valid-after-signature-bit-flip", format!("len {len}, signature bit {sb}")), json!({"fn":"flip-sig","len":len,"bit":sb}));
                break;
            }
            n += 1;
        }
        check.count_n(&format!("sigfn:len{len}:flips"), n, &[format!("sigfn:len{len}:flips")]);
    }
}

/// Intact data verifies — also after the archive was changed through the library's own modification API.
/// An archive with attribute digests is opened with `MutableArchive`; a history of add / replace / remove /
/// rename (and optionally compact) is applied and flushed; afterwards every file the archive should hold reads
/// its content and `SFileVerifyFile` succeeds on it (untouched files keep valid digests, changed files get new
/// ones), and removed names are gone.
fn intact_after_in_place_modification(check: &Check, storm: &Storm) {
    use wow_mpq::{AddFileOptions, MutableArchive};
    let histories: [(&str, &[&str]); 7] = [
        ("add", &["add"]),
        ("replace", &["replace"]),
        ("remove", &["remove"]),
        ("rename", &["rename"]),
        ("add-replace-remove", &["add", "replace", "remove"]),
        ("add-flush-add", &["add", "flush", "add2"]),
        ("add-remove-compact", &["add", "remove", "compact"]),
    ];
    for version in 1..=4u8 {
        for attrs in [Attrs::Crc32, Attrs::Full, Attrs::FullThenNoCrcs, Attrs::Crc32ThenNoCrcs] {
            for (hname, ops) in histories.iter() {
                let dir = engine::scratch("c10m");
                let p = dir.path().join("m.mpq");
                let mut files = files_basic();
                files.truncate(7);
                let spec = ArchiveSpec { version, shift: 0, crcs: false, attrs: attrs.clone(), listfile: true, compress_tables: false, table_method: M_ZLIB, files };
                let mut model: std::collections::BTreeMap<String, Vec<u8>> = (0..spec.files.len()).map(|i| (spec.files[i].name.clone(), spec.content(i))).collect();
                let class = format!("modified-in-place:V{version}:{attrs:?}:{hname}");
                let case = json!({"fn": "modified-in-place", "version": version, "attrs": format!("{attrs:?}"), "history": hname});
                let r: Result<(), Fail> = (|| {
                    spec.builder().build(&p).map_err(|e| Fail::new("modified-in-place:build-fails", e.to_string()))?;
                    let mut m = engine::guard("MutableArchive::open", || MutableArchive::open(&p))?.map_err(|e| Fail::new("modified-in-place:open-fails", e.to_string()))?;
                    let mut gone: Vec<String> = vec![];
                    for op in ops.iter() {
                        let res = match *op {
                            "add" => {
                                let d = materialize(ContentClass::Text, 700, 21);
                                model.insert("dir\\added.txt".into(), d.clone());
                                engine::guard("add_file_data", || m.add_file_data(&d, "dir\\added.txt", AddFileOptions::new()))?
                            }
                            "add2" => {
                                let d = materialize(ContentClass::Random, 1300, 22);
                                model.insert("added2.bin".into(), d.clone());
                                engine::guard("add_file_data", || m.add_file_data(&d, "added2.bin", AddFileOptions::new()))?
                            }
                            "replace" => {
                                let d = materialize(ContentClass::LowEntropy, 900, 23);
                                model.insert("z_single.txt".into(), d.clone());
                                engine::guard("add_file_data", || m.add_file_data(&d, "z_single.txt", AddFileOptions::new().replace_existing(true)))?
                            }
                            "remove" => {
                                model.remove("dir\\raw_multi.bin");
                                gone.push("dir\\raw_multi.bin".into());
                                engine::guard("remove_file", || m.remove_file("dir\\raw_multi.bin"))?
                            }
                            "rename" => {
                                let d = model.remove("raw_single.bin").unwrap();
                                model.insert("renamed\\single.bin".into(), d);
                                gone.push("raw_single.bin".into());
                                engine::guard("rename_file", || m.rename_file("raw_single.bin", "renamed\\single.bin"))?
                            }
                            "flush" => engine::guard("flush", || m.flush())?,
                            "compact" => engine::guard("compact", || m.compact())?,
                            _ => unreachable!(),
                        };
                        if let Err(e) = res {
                            // a refused operation is not this clause's business (C06 judges the map); the history ends
                            check.bump(&format!("modified-in-place:op-refused:{op}"), 1);
                            let _ = e;
                            return Ok(());
                        }
                    }
                    engine::guard("flush", || m.flush())?.map_err(|e| Fail::new("modified-in-place:flush-fails", e.to_string()))?;
                    drop(m);
                    let mut a = engine::guard("Archive::open", || Archive::open(&p))?.map_err(|e| Fail::new("modified-in-place:archive-does-not-open", e.to_string()))?;
                    let h = storm.open(p.to_str().unwrap()).ok_or_else(|| Fail::new("modified-in-place:c-api-cannot-open", "SFileOpenArchive failed".to_string()))?;
                    let mut verdict = Ok(());
                    for (n, want) in &model {
                        match engine::guard("read_file", || a.read_file(n))? {
                            Ok(d) if &d == want => {}
                            Ok(_) => {
                                verdict = Err(Fail::new("modified-in-place:content-differs", format!("V{version} {attrs:?} after [{hname}]: {n}")));
                                break;
                            }
                            Err(e) => {
                                verdict = Err(Fail::new("modified-in-place:intact-file-unreadable", format!("V{version} {attrs:?} after [{hname}]: {n}: {e}")));
                                break;
                            }
                        }
                        if !storm.verify_file(h, n, 0) {
                            let touched = matches!(n.as_str(), "dir\\added.txt" | "added2.bin" | "z_single.txt" | "renamed\\single.bin") && !(n == "z_single.txt" && !ops.contains(&"replace"));
                            verdict = Err(Fail::new(
                                format!("modified-in-place:intact-file-fails-verification:{}", if touched { "file-written-by-the-modification" } else { "untouched-file" }),
                                format!("V{version} {attrs:?} after [{hname}]: SFileVerifyFile({n}) fails (last error {}) although the file reads back correctly", storm.last_error()),
                            ));
                            break;
                        }
                    }
                    storm.close(h);
                    verdict
                })();
                check.count(&class, true);
                if let Err(f) = r {
                    check.fail(&f, case);
                }
            }
        }
    }
}

/// Signature area (the 72-byte `(signature)` file) placed anywhere relative to the 64 KiB digest
/// units — inside one unit, touching a boundary, straddling a boundary by every split, at the very
/// start and the very end of the signed range. Every byte within 100 bytes of the area must
/// invalidate the signature when changed; every byte *inside* the area is excluded from the
/// digest and must not (that is where the signature itself is stored).
fn function_level_signature_placement(check: &Check) {
    let mut r = engine::rng(check.sub_seed("sigplace"));
    use rand::Rng;
    const U: usize = 65536;
    const A: usize = 72;
    let lens: &[usize] = if check.tier == engine::Tier::Quick { &[70_000, 140_000] } else { &[70_000, 140_000, 200_000, 65_536 + 36, 3 * 65_536] };
    for &len in lens {
        let mut data = vec![0u8; len];
        r.fill(&mut data[..]);
        let mut positions: Vec<usize> = vec![0, 1, 100, len / 2, len - A, len - A - 1];
        for k in 1..=(len / U) {
            let b = k * U;
            for d in [A + 1, A, A - 1, 64, 37, 36, 9, 8, 7, 1] {
                if b >= d {
                    positions.push(b - d);
                }
            }
            positions.push(b);
            positions.push(b + 1);
        }
        if check.tier != engine::Tier::Quick {
            for k in 1..=(len / U) {
                for d in 1..A {
                    positions.push(k * U - d);
                }
            }
        }
        positions.retain(|p| p + A <= len);
        positions.sort();
        positions.dedup();
        for ex in positions {
            let info = SignatureInfo::new_weak(0, len as u64, ex as u64, A as u64, vec![]);
            let place = if ex / U != (ex + A - 1) / U { "straddles-unit-boundary" } else if ex % U == 0 || (ex + A) % U == 0 { "touches-unit-boundary" } else if ex == 0 || ex + A == len { "edge-of-range" } else { "inside-unit" };
            let file = match generate_weak_signature(Cursor::new(&data), &info) {
                Ok(f) => f,
                Err(e) => {
                    check.fail(&Fail::new("generate-weak-signature-fails", format!("len {len}, area at {ex}: {e}")), json!({"fn":"sign-at","len":len,"ex":ex}));
                    continue;
                }
            };
            let sig = file[8..72].to_vec();
            match verify_weak_signature_stormlib(Cursor::new(&data), &sig, &info) {
                Ok(true) => {}
                other => {
                    check.fail(&Fail::new(format!("generated-signature-does-not-verify:{place}"), format!("len {len}, area at {ex}: {other:?}")), json!({"fn":"verify-at","len":len,"ex":ex}));
                    continue;
                }
            }
            let lo = ex.saturating_sub(100);
            let hi = (ex + A + 100).min(len);
            let mut n = 0u64;
            for i in lo..hi {
                let inside = i >= ex && i < ex + A;
                let mut d = data.clone();
                d[i] ^= 1 << (i % 8);
                let valid = matches!(verify_weak_signature_stormlib(Cursor::new(&d), &sig, &info), Ok(true));
                n += 1;
                if !inside && valid {
                    check.fail(
                        &Fail::new(format!("signature-valid-after-data-bit-flip:near-area:{place}"), format!("len {len}, signature area [{ex}, {}), changed signed byte {i} ({} bytes {} the area)", ex + A, if i < ex { ex - i } else { i - (ex + A) + 1 }, if i < ex { "before" } else { "after" })),
                        json!({"fn":"flip-near","len":len,"ex":ex,"byte":i}),
                    );
                    break;
                }
                if inside && !valid {
                    check.fail(
                        &Fail::new(format!("signature-area-not-excluded-from-digest:{place}"), format!("len {len}, signature area [{ex}, {}): a change of byte {i} inside the area invalidates the signature", ex + A)),
                        json!({"fn":"flip-inside","len":len,"ex":ex,"byte":i}),
                    );
                    break;
                }
            }
            check.count_n(&format!("sigplace:len{len}:{place}"), n, &[format!("sigplace:{place}:off{}", ex % U)]);
        }
    }
}

fn worker() -> ! {
    engine::install_panic_hook();
    let storm = Storm::load(&ffi::lib_path()).expect("libstorm");
    let dir = engine::scratch("c10w");
    let ks = kinds();
    let mut built: std::collections::HashMap<String, Built> = Default::default();
    let mut n = 0usize;
    vcheck::engine::supervise::worker_loop(|v| {
        let f: Fault = match serde_json::from_value(v) {
            Ok(f) => f,
            Err(e) => return json!({"sig": "bad-case", "msg": e.to_string()}),
        };
        let k = ks.iter().find(|k| k.name == f.kind).expect("kind");
        if !built.contains_key(&f.kind) {
            match build(k, dir.path()) {
                Ok(b) => {
                    built.insert(f.kind.clone(), b);
                }
                Err(e) => return json!({"sig": "BUILD", "msg": e}),
            }
        }
        let b = &built[&f.kind];
        let cx = Ctx { storm: &storm, k, b, dir: dir.path() };
        n += 1;
        let intact = f.xor.is_empty() && f.set.is_empty();
        let mut img = b.bytes.clone();
        apply(&mut img, &f);
        let region = if intact { None } else { b.regions.iter().find(|r| f.offset >= r.start && f.offset < r.end).cloned() };
        match judge(&cx, &img, region.as_ref(), n) {
            Ok(o) => json!({"ok": o}),
            Err(fl) if fl.signature.starts_with("panic@") && !intact => json!({"ok": "panic(C05)"}),
            Err(fl) => json!({"sig": fl.signature, "msg": fl.message}),
        }
    })
}

fn main() {
    if std::env::args().nth(1).as_deref() == Some("--worker") {
        worker();
    }
    let (check, _a) = Check::new("C10", "fault_enumeration");
    check.set_rule(
        "one small archive (sector 512; 7 files: raw/zlib single-unit, raw/zlib/bzip2 multi-sector, encrypted and fix-key) per kind of integrity metadata \
         {sector checksums only, attributes CRC32, attributes CRC32+MD5 (V2, V3), V4 header/table digests (with and without attributes), weak signature}. \
         Faults: every byte offset of every region the kind's metadata protects × {^0x01, ^0x80, ^0xFF} (quick: ^0x01 everywhere, the other two at every 3rd offset), plus seeded 2..16-byte overwrites \
         and zeroed spans. Oracle per faulted image: open/read fails, or SFileVerifyFile (libstorm.so from the current tree) / V4 md5_status / verify_signature reports failure, or every file still reads \
         bit-identical; signed archives: any change ⇒ not WeakValid. Intact images must read identically and verify everywhere. Function level: sign random byte strings (lengths around the 64 KiB digest unit), \
         flip data bits and all 512 signature bits. non-trivial = fault inside stored file data or a checksum/digest/signature field; distinct = kind × region × fault shape × outcome",
    );
    check.assume("regions are located with the library's own header/find_file on the intact archive (location only, not judgement)");
    check.assume("only bytes the present metadata protects are faulted (e.g. hash-table bytes are not protected by per-file CRCs; the sector offset table of a file is protected by content digests and signatures, not by the per-sector checksums, which cover the stored sectors)");
    check.assume("a panic, abort, OOM or hang on a faulted archive is not silent corruption: it is counted as outcome '…(C05)' and judged by property C05, whose mutators cover the same bytes");
    check.set_exhaustive(check.tier == engine::Tier::Thorough);

    let storm = match Storm::load(&ffi::lib_path()) {
        Ok(s) => s,
        Err(e) => {
            check.inconclusive(&format!("cannot load libstorm: {e}"));
            check.finish();
        }
    };
    let dir = engine::scratch("c10");
    let ks = kinds();

    if let Some(p) = check.replay.clone() {
        let v: serde_json::Value = serde_json::from_str(&std::fs::read_to_string(&p).expect("replay")).expect("json");
        let c = &v["case"];
        if c.get("fn").is_some() {
            function_level_signature(&check);
            function_level_signature_placement(&check);
            intact_after_in_place_modification(&check, &storm);
        } else {
            let f: Fault = serde_json::from_value(c.clone()).expect("fault");
            let spec = vcheck::engine::supervise::Spec { cpu_secs: 60, rlimit_as: 6 << 30, ..vcheck::engine::supervise::Spec::new("c10") };
            let out = vcheck::engine::supervise::run_cases(&spec, &[c.clone()], 1);
            if let Err(fl) = outcome_to_result(&out[0], &f, "replay") {
                check.fail(&fl, c.clone());
            }
        }
        check.count("replay-pad", true);
        check.count("replay-pad2", true);
        check.finish();
    }

    function_level_signature(&check);
    function_level_signature_placement(&check);
    intact_after_in_place_modification(&check, &storm);

    let quick = check.tier == engine::Tier::Quick;
    for k in &ks {
        let b = match build(k, dir.path()) {
            Ok(b) => b,
            Err(e) => {
                check.inconclusive(&format!("kind {}: {e}", k.name));
                continue;
            }
        };
        let cx = Ctx { storm: &storm, k, b: &b, dir: dir.path() };
        check.count(&format!("{}:intact", k.name), true);
        if let Err(f) = judge(&cx, &b.bytes, None, 0) {
            check.fail(&f, json!({"kind": k.name, "offset": 0, "xor": [], "set": []}));
            continue;
        }
        if k.intact_only {
            check.count(&format!("{}:intact:{}-files", k.name, k.spec.files.len()), true);
            continue;
        }
        // enumerate faults
        let mut faults: Vec<(Fault, Region)> = vec![];
        for r in &b.regions {
            if !k.protects.contains(&r.class) {
                continue;
            }
            for off in r.start..r.end.min(b.bytes.len()) {
                for (mi, m) in [0x01u8, 0x80, 0xFF].iter().enumerate() {
                    if quick && mi > 0 && off % 3 != mi {
                        continue;
                    }
                    if quick && r.class == "slack" && off % 16 != 0 {
                        continue;
                    }
                    faults.push((Fault { kind: k.name.into(), offset: off, xor: vec![*m], set: vec![] }, r.clone()));
                }
            }
        }
        // a change that keeps the CRC-32 of the bytes it hits: xor with the generator polynomial (33 bits, in the
        // bit order of the reflected CRC). Where a stored file is raw, its CRC32 attribute cannot see it — an MD5
        // attribute, a sector checksum or a signature still has to
        for r in &b.regions {
            // (not for the kinds whose only content digest is that CRC-32: there the change is undetectable by design)
            if !k.protects.contains(&r.class) || r.end < r.start + 5 || matches!(k.spec.attrs, Attrs::Crc32 | Attrs::Crc32ThenNoCrcs) {
                continue;
            }
            for off in (r.start..=r.end - 5).filter(|o| !quick || (o - r.start) % 5 == 0) {
                faults.push((Fault { kind: k.name.into(), offset: off, xor: vec![0x41, 0x06, 0x71, 0xDB, 0x01], set: vec![] }, r.clone()));
            }
        }
        // multi-byte faults
        {
            use rand::Rng;
            let mut rng = engine::rng(check.sub_seed(&format!("multi:{}", k.name)));
            let prot: Vec<&Region> = b.regions.iter().filter(|r| k.protects.contains(&r.class) && r.end > r.start).collect();
            for _ in 0..check.tier.pick(300, 3000) {
                let r = prot[rng.random_range(0..prot.len())];
                let len = rng.random_range(2..=16usize).min(r.end - r.start);
                let off = rng.random_range(r.start..=r.end - len);
                let f = if rng.random_bool(0.5) {
                    let mut set = vec![0u8; len];
                    rng.fill(&mut set[..]);
                    Fault { kind: k.name.into(), offset: off, xor: vec![], set }
                } else {
                    Fault { kind: k.name.into(), offset: off, xor: vec![], set: vec![0u8; len] }
                };
                // skip no-op faults
                if b.bytes[off..off + len] == f.set[..] {
                    continue;
                }
                faults.push((f, r.clone()));
            }
        }
        check.set_extra(&format!("faults:{}", k.name), json!(faults.len()));
        let spec = vcheck::engine::supervise::Spec { cpu_secs: 60, rlimit_as: 6 << 30, ..vcheck::engine::supervise::Spec::new("c10") };
        let cases: Vec<serde_json::Value> = faults.iter().map(|(f, _)| serde_json::to_value(f).unwrap()).collect();
        let outs = vcheck::engine::supervise::run_cases(&spec, &cases, engine::WORKERS);
        for ((f, r), o) in faults.iter().zip(outs.iter()) {
            let shape = if f.xor.len() == 1 { format!("xor{:02x}", f.xor[0]) } else if f.xor.len() == 5 { "xor-crc32-generator".to_string() } else if f.set.iter().all(|x| *x == 0) { "zero-span".into() } else { "overwrite".to_string() };
            let nt = matches!(r.class, "file-data" | "sector-offset-table" | "attributes-file" | "signature-file" | "header" | "hash-table" | "block-table" | "het-table" | "bet-table");
            match outcome_to_result(o, f, r.class) {
                Ok(outcome) => {
                    check.count(&format!("{}:{}:{}:{}", k.name, r.class, shape, outcome), nt);
                    check.sample(&format!("{}{}", k.name, r.class), || json!({"kind": k.name, "region": r.name, "offset": f.offset, "fault": shape, "outcome": outcome}));
                }
                Err(fl) => {
                    check.count(&format!("{}:{}:{}:VIOLATION", k.name, r.class, shape), nt);
                    check.fail(&fl, serde_json::to_value(f).unwrap());
                }
            }
        }
    }
    check.finish();
}
