//! C06 — in-place archive modification behaves as a persistent name→bytes map.
//! Histories are interpreted against the real MutableArchive and a BTreeMap model inside a
//! supervised worker process (CPU limit ⇒ non-termination is observable).
use proptest::prelude::*;
use serde::{Deserialize, Serialize};
use serde_json::{json, Value};
use std::collections::BTreeMap;
use vcheck::engine::supervise::{self, Outcome, Spec};
use vcheck::engine::{self, pt, Check, Fail, Tier};
use vcheck::gens::mpq::*;
use vcheck::oracle::refcrypt as rc;
use wow_mpq::compression::CompressionMethod;
use wow_mpq::{AddFileOptions, Archive, MutableArchive};

/// name pool: indices 0..POOL. 0..=3 share a start slot modulo 16 (probe chains); 8, 9 are
/// case/slash aliases of 0 and 4.
const POOL: usize = 32;
const CORE: usize = 12;

fn pool() -> Vec<String> {
    // four names colliding modulo 16 found by reference hashing (deterministic search)
    let mut col = vec![];
    let mut i = 0u32;
    let target = rc::hash_string(b"col\\a0.dat", 0) & 15;
    while col.len() < 4 {
        let n = format!("col\\a{i}.dat");
        if rc::hash_string(n.as_bytes(), 0) & 15 == target {
            col.push(n);
        }
        i += 1;
    }
    let mut v = col;
    v.push("Dir\\Sub\\file.txt".to_string());
    v.push("plain.bin".to_string());
    v.push("b.txt".to_string());
    v.push("ab.txt".to_string()); // "b.txt" is a substring of this name
    v.push(v[0].to_ascii_uppercase().replace('\\', "/")); // alias of 0
    v.push("dir/sub/FILE.TXT".to_string()); // alias of 4
    // ordinary user files whose names look like the archive's internal ones: they are content and
    // must survive every operation (compaction carries over everything but the regenerated specials)
    v.push("(patch_metadata)".to_string());
    v.push("(user data)".to_string());
    // 20 extra names used to fill the 16-slot hash table
    for i in 0..20 {
        v.push(format!("fill\\n{i}.bin"));
    }
    v
}

fn fold(n: &str) -> String {
    String::from_utf8(rc::fold(n.as_bytes())).unwrap()
}

#[derive(Clone, Debug, Serialize, Deserialize, PartialEq)]
enum Op {
    Add { name: u8, class: ContentClass, len: u16, seed: u32, method: u8, encrypt: bool, fix_key: bool, replace: bool },
    Remove { name: u8 },
    Rename { from: u8, to: u8 },
    Compact,
    Flush,
    Reopen,
}

impl Op {
    fn kind(&self) -> String {
        match self {
            Op::Add { encrypt, fix_key, replace, method, .. } => format!(
                "add{}{}{}{}",
                if *replace { "" } else { "-noreplace" },
                if *fix_key { "-fixkey" } else if *encrypt { "-enc" } else { "" },
                if *method == 0 { "-raw" } else { "" },
                if *method >= 4 { "-noencoder" } else { "" }
            ),
            Op::Remove { .. } => "remove".into(),
            Op::Rename { .. } => "rename".into(),
            Op::Compact => "compact".into(),
            Op::Flush => "flush".into(),
            Op::Reopen => "reopen".into(),
        }
    }
}

#[derive(Clone, Debug, Serialize, Deserialize, PartialEq)]
struct Start {
    version: u8,
    listfile: bool,
    attrs: bool,
    /// initial files: pool indices
    initial: Vec<u8>,
}

#[derive(Clone, Debug, Serialize, Deserialize, PartialEq)]
struct History {
    start: Start,
    ops: Vec<Op>,
}

fn initial_content(idx: u8) -> Vec<u8> {
    materialize(
        if idx % 2 == 0 { ContentClass::Text } else { ContentClass::Random },
        200 + idx as usize * 331,
        1000 + idx as u32,
    )
}

fn start_spec(s: &Start, names: &[String]) -> ArchiveSpec {
    ArchiveSpec {
        version: s.version,
        shift: 0,
        crcs: false,
        attrs: if s.attrs { Attrs::Crc32 } else { Attrs::None },
        listfile: s.listfile,
        compress_tables: false,
        table_method: M_ZLIB,
        files: s
            .initial
            .iter()
            .map(|&i| FileSpec {
                name: names[i as usize].clone(),
                class: if i % 2 == 0 { ContentClass::Text } else { ContentClass::Random },
                len: LenSpec { halves: 0, delta: (200 + i as i16 * 331) },
                seed: 1000 + i as u32,
                method: if i % 3 == 0 { M_NONE } else { M_ZLIB },
                enc: if i == 5 { Enc::Key } else { Enc::None },
                locale: 0,
            })
            .collect(),
    }
}

fn method_of(m: u8) -> CompressionMethod {
    match m {
        0 => CompressionMethod::None,
        1 => CompressionMethod::Zlib,
        2 => CompressionMethod::BZip2,
        3 => CompressionMethod::Lzma,
        // a method the library has no encoder for: the add must fail and change nothing
        _ => CompressionMethod::Implode,
    }
}

fn err_kind(e: &wow_mpq::Error) -> String {
    format!("{e:?}").chars().take_while(|c| c.is_alphanumeric()).collect()
}

/// features of the executed prefix of a history, used in signatures (filled by the interpreter)
#[derive(Default)]
struct Feat {
    kinds: std::collections::BTreeSet<String>,
    adds: usize,
}
impl Feat {
    fn fmt(&self) -> String {
        let many = if self.adds >= 24 { "+adds≥24" } else if self.adds >= 12 { "+adds≥12" } else { "" };
        format!("{}{}", self.kinds.iter().cloned().collect::<Vec<_>>().join(","), many)
    }
}

fn has_compact(h: &History, upto: usize) -> u8 {
    h.ops.iter().take(upto + 1).any(|o| matches!(o, Op::Compact)) as u8
}

/// Interpret one history. Returns Ok or the first discrepancy.
fn run_history(h: &History) -> Result<(), Fail> {
    let names = pool();
    let dir = engine::scratch("c06");
    let path = dir.path().join("m.mpq");
    let spec = start_spec(&h.start, &names);
    if let Err(e) = spec.builder().build(&path) {
        return Err(Fail::new("DISCARD", format!("start build failed: {e}")));
    }
    let mut model: BTreeMap<String, Vec<u8>> = BTreeMap::new();
    for &i in &h.start.initial {
        model.insert(fold(&names[i as usize]), initial_content(i));
    }
    // the start archive must itself be healthy (else discard: C01's business)
    {
        let mut a = Archive::open(&path).map_err(|e| Fail::new("DISCARD", format!("{e}")))?;
        for (k, v) in &model {
            match a.read_file(k) {
                Ok(d) if &d == v => {}
                _ => return Err(Fail::new("DISCARD", "start archive unreadable")),
            }
        }
    }
    let tables = if h.start.version >= 3 { "hetbet" } else { "classic" };
    let lf = if h.start.listfile { "lf" } else { "nolf" };
    let mut ma: Option<MutableArchive> = None;
    let mut touched = false;
    let mut feats = Feat::default();
    let mut encrypted: std::collections::BTreeSet<String> = Default::default();
    for &i in &h.start.initial {
        if i == 5 {
            encrypted.insert(fold(&names[5]));
        }
    }
    let verify = |model: &BTreeMap<String, Vec<u8>>, opi: usize, feats: &Feat| -> Result<(), Fail> {
        let feat = feats.fmt();
        let pre = format!("{tables}:{lf}:compact{}", has_compact(h, opi));
        let mut a = match engine::guard("Archive::open", || Archive::open(&path))? {
            Ok(a) => a,
            Err(e) => {
                return Err(Fail::new(
                    format!("{pre}:reopen-fails:{}:[{feat}]", err_kind(&e)),
                    format!("after ops[..={opi}] the archive no longer opens: {e}"),
                ));
            }
        };
        for n in &names {
            let key = fold(n);
            let got = engine::guard("read_file", || a.read_file(n))?;
            match (model.get(&key), got) {
                (Some(w), Ok(g)) => {
                    if &g != w {
                        return Err(Fail::new(
                            format!("{pre}:content-differs-after-reopen:[{feat}]"),
                            format!("after ops[..={opi}] {n:?} reads {} bytes, model has {} bytes", g.len(), w.len()),
                        ));
                    }
                }
                (Some(w), Err(e)) => {
                    return Err(Fail::new(
                        format!("{pre}:file-lost-after-reopen:{}:[{feat}]", err_kind(&e)),
                        format!("after ops[..={opi}] {n:?} ({} bytes in the model) cannot be read: {e}", w.len()),
                    ));
                }
                (None, Ok(g)) => {
                    return Err(Fail::new(
                        format!("{pre}:removed-file-readable-after-reopen:[{feat}]"),
                        format!("after ops[..={opi}] {n:?} is absent from the model but reads {} bytes", g.len()),
                    ));
                }
                (None, Err(wow_mpq::Error::FileNotFound(_))) => {}
                (None, Err(e)) => {
                    return Err(Fail::new(
                        format!("{pre}:absent-file-wrong-error:{}:[{feat}]", err_kind(&e)),
                        format!("after ops[..={opi}] absent {n:?} fails with {e} instead of FileNotFound"),
                    ));
                }
            }
        }
        if h.start.listfile {
            let listed = engine::guard("list", || a.list())?.map_err(|e| {
                Fail::new(format!("{pre}:list-fails-after-reopen:{}:[{feat}]", err_kind(&e)), format!("{e}"))
            })?;
            let got: std::collections::BTreeSet<String> =
                listed.iter().map(|e| fold(&e.name)).filter(|n| !matches!(n.as_str(), "(LISTFILE)" | "(ATTRIBUTES)" | "(SIGNATURE)")).collect();
            let want: std::collections::BTreeSet<String> = model.keys().cloned().collect();
            if got != want {
                let missing: Vec<_> = want.difference(&got).collect();
                let extra: Vec<_> = got.difference(&want).collect();
                return Err(Fail::new(
                    format!(
                        "{pre}:listing-differs-after-reopen:{}:[{feat}]",
                        if !missing.is_empty() { "missing" } else { "extra" }
                    ),
                    format!("after ops[..={opi}] listing misses {missing:?} and has extra {extra:?}"),
                ));
            }
        }
        Ok(())
    };

    for (opi, op) in h.ops.iter().enumerate() {
        eprintln!("OP {opi} {}", op.kind());
        if ma.is_none() && !matches!(op, Op::Reopen) {
            match engine::guard("MutableArchive::open", || MutableArchive::open(&path))? {
                Ok(m) => ma = Some(m),
                Err(e) => {
                    return Err(Fail::new(
                        format!("{tables}:{lf}:compact{}:mutable-open-fails:{}:[{}]", has_compact(h, opi), err_kind(&e), feats.fmt()),
                        format!("MutableArchive::open failed before op {opi}: {e}"),
                    ));
                }
            }
        }
        match op {
            Op::Add { name, class, len, seed, method, encrypt, fix_key, replace } => {
                let data = materialize(*class, *len as usize, *seed);
                let mut o = AddFileOptions::new().compression(method_of(*method)).replace_existing(*replace);
                if *fix_key {
                    o = o.fix_key();
                } else if *encrypt {
                    o = o.encrypt();
                }
                let n = &names[*name as usize];
                feats.adds += 1;
                let mut k = op.kind();
                if model.contains_key(&fold(n)) && *replace {
                    k.push_str("-over");
                }
                feats.kinds.insert(k);
                let r = engine::guard("add_file_data", || ma.as_mut().unwrap().add_file_data(&data, n, o))?;
                if r.is_ok() {
                    model.insert(fold(n), data);
                    if *encrypt || *fix_key {
                        encrypted.insert(fold(n));
                    } else {
                        encrypted.remove(&fold(n));
                    }
                    touched = true;
                } else {
                    feats.kinds.insert("add-err".into());
                }
            }
            Op::Remove { name } => {
                let n = &names[*name as usize];
                let r = engine::guard("remove_file", || ma.as_mut().unwrap().remove_file(n))?;
                if r.is_ok() {
                    feats.kinds.insert("remove".into());
                    model.remove(&fold(n));
                    encrypted.remove(&fold(n));
                    touched = true;
                }
            }
            Op::Rename { from, to } => {
                let (f, t) = (&names[*from as usize], &names[*to as usize]);
                let r = engine::guard("rename_file", || ma.as_mut().unwrap().rename_file(f, t))?;
                if r.is_ok() {
                    let was_enc = encrypted.remove(&fold(f));
                    feats.kinds.insert(if was_enc { "rename-enc".into() } else { "rename".into() });
                    if let Some(v) = model.remove(&fold(f)) {
                        model.insert(fold(t), v);
                    }
                    if was_enc {
                        encrypted.insert(fold(t));
                    }
                    touched = true;
                }
            }
            Op::Compact => {
                feats.kinds.insert("compact".into());
                let _ = engine::guard("compact", || ma.as_mut().unwrap().compact())?;
                touched = true;
            }
            Op::Flush => {
                feats.kinds.insert("flush".into());
                let _ = engine::guard("flush", || ma.as_mut().unwrap().flush())?;
            }
            Op::Reopen => {
                if let Some(m) = ma.take() {
                    engine::guard("drop(MutableArchive)", || drop(m))?;
                }
                verify(&model, opi, &feats)?;
            }
        }
    }
    if let Some(m) = ma.take() {
        engine::guard("drop(MutableArchive)", || drop(m))?;
    }
    let _ = touched;
    verify(&model, h.ops.len().saturating_sub(1), &feats)
}

// -------------------------------------------------------------------------------- generation

fn op_strategy() -> impl Strategy<Value = Op> {
    prop_oneof![
        6 => (prop_oneof![8 => 0u8..CORE as u8, 2 => CORE as u8..POOL as u8], class_strategy(), prop_oneof![0u16..40, 400u16..1600], any::<u32>(), prop_oneof![12 => 0u8..4, 1 => Just(4u8)], prop_oneof![3 => Just(false), 1 => Just(true)], prop_oneof![7 => Just(false), 1 => Just(true)], prop_oneof![4 => Just(true), 1 => Just(false)])
            .prop_map(|(name, class, len, seed, method, e, fk, replace)| Op::Add { name, class, len, seed, method, encrypt: e || fk, fix_key: fk, replace }),
        2 => (prop_oneof![8 => 0u8..CORE as u8, 2 => CORE as u8..POOL as u8]).prop_map(|name| Op::Remove { name }),
        2 => (0u8..CORE as u8, prop_oneof![8 => 0u8..CORE as u8, 2 => CORE as u8..POOL as u8]).prop_map(|(from, to)| Op::Rename { from, to }),
        1 => Just(Op::Compact),
        1 => Just(Op::Flush),
        2 => Just(Op::Reopen),
    ]
}

fn start_strategy() -> impl Strategy<Value = Start> {
    // V3/V4 in-place modification was repaired in /repo (415f49c..8620b6d): all four versions are
    // drawn uniformly again (while the finding was open 4 of 5 random starts were V1/V2)
    (1u8..=4, any::<bool>(), any::<bool>(), proptest::collection::vec(0u8..8, 0..5)).prop_map(|(version, listfile, attrs, mut initial)| {
        initial.sort();
        initial.dedup();
        Start { version, listfile, attrs, initial }
    })
}

fn classify(h: &History) -> (String, bool) {
    let kinds: std::collections::BTreeSet<String> = h.ops.iter().map(|o| o.kind()).collect();
    let has_mut_then_reopen = {
        let mut seen_mut = false;
        let mut ok = false;
        for o in &h.ops {
            match o {
                Op::Reopen => ok |= seen_mut,
                Op::Flush => {}
                _ => seen_mut = true,
            }
        }
        ok || h.ops.iter().any(|o| !matches!(o, Op::Reopen | Op::Flush))
    };
    let adds = h.ops.iter().filter(|o| matches!(o, Op::Add { .. })).count();
    let compact_after_remove = {
        let mut rem = false;
        let mut r = false;
        for o in &h.ops {
            match o {
                Op::Remove { .. } => rem = true,
                Op::Compact => r |= rem,
                _ => {}
            }
        }
        r
    };
    let interesting = compact_after_remove
        || kinds.contains("rename")
        || h.ops.iter().any(|o| matches!(o, Op::Add { replace: true, .. }))
        || adds >= 12;
    let class = format!(
        "V{}:lf{}:at{}:init{}:len{}:[{}]",
        h.start.version,
        h.start.listfile as u8,
        h.start.attrs as u8,
        h.start.initial.len().min(3),
        match h.ops.len() { 0..=3 => "≤3".to_string(), 4..=10 => "4-10".to_string(), 11..=30 => "11-30".to_string(), _ => ">30".to_string() },
        kinds.into_iter().collect::<Vec<_>>().join(",")
    );
    (class, has_mut_then_reopen && interesting)
}

/// bounded-exhaustive alphabet on the colliding names A=0,B=1,C=2 and alias A'=8
fn alphabet() -> Vec<Op> {
    let add = |name: u8, seed: u32| Op::Add { name, class: ContentClass::Text, len: 700, seed, method: 1, encrypt: false, fix_key: false, replace: true };
    vec![
        add(0, 1),
        add(1, 2),
        add(2, 3),
        Op::Add { name: 8, class: ContentClass::Random, len: 33, seed: 4, method: 0, encrypt: false, fix_key: false, replace: true }, // add-over A via alias
        Op::Add { name: 0, class: ContentClass::Text, len: 700, seed: 5, method: 4, encrypt: false, fix_key: false, replace: true }, // replace that fails (no encoder)
        Op::Remove { name: 0 },
        Op::Remove { name: 1 },
        Op::Rename { from: 0, to: 1 },
        Op::Rename { from: 1, to: 2 },
        Op::Rename { from: 0, to: 8 },
        Op::Compact,
        Op::Flush,
        Op::Reopen,
    ]
}

fn starts() -> Vec<Start> {
    vec![
        Start { version: 1, listfile: true, attrs: false, initial: vec![0, 1] },
        Start { version: 2, listfile: true, attrs: true, initial: vec![0, 4] },
        Start { version: 1, listfile: false, attrs: false, initial: vec![0, 1] },
        Start { version: 3, listfile: true, attrs: false, initial: vec![0, 1] },
        Start { version: 4, listfile: true, attrs: false, initial: vec![1] },
        Start { version: 2, listfile: true, attrs: false, initial: vec![] },
    ]
}

fn exhaustive(maxlen: usize) -> Vec<History> {
    let a = alphabet();
    let mut out = vec![];
    for s in starts() {
        let mut idx = vec![0usize; 0];
        // all sequences of length 1..=maxlen
        for len in 1..=maxlen {
            idx.clear();
            idx.resize(len, 0);
            loop {
                out.push(History { start: s.clone(), ops: idx.iter().map(|&i| a[i].clone()).collect() });
                let mut k = len;
                loop {
                    if k == 0 {
                        break;
                    }
                    k -= 1;
                    idx[k] += 1;
                    if idx[k] < a.len() {
                        break;
                    }
                    idx[k] = 0;
                    if k == 0 {
                        k = usize::MAX;
                        break;
                    }
                }
                if k == usize::MAX {
                    break;
                }
            }
        }
    }
    out
}

// ----------------------------------------------------------------------------------- driver

fn worker() -> ! {
    engine::install_panic_hook();
    supervise::worker_loop(|v| {
        let h: History = match serde_json::from_value(v) {
            Ok(h) => h,
            Err(e) => return json!({"err": format!("bad case: {e}")}),
        };
        match run_history(&h) {
            Ok(()) => json!({"ok": true}),
            Err(f) => json!({"sig": f.signature, "msg": f.message}),
        }
    })
}

fn judge(check: &Check, h: &History, out: &Outcome) -> Result<(), Fail> {
    match out {
        Outcome::Done(v) => {
            if v["ok"] == true {
                return Ok(());
            }
            let sig = v["sig"].as_str().unwrap_or("?").to_string();
            if sig == "DISCARD" {
                check.bump("discarded_start", 1);
                return Ok(());
            }
            Err(Fail::new(sig, v["msg"].as_str().unwrap_or("").to_string()))
        }
        Outcome::Died { how, stderr_tail } => {
            let last_op = stderr_tail.lines().rev().find(|l| l.starts_with("OP ")).unwrap_or("OP ? ?").to_string();
            let kind = last_op.split_whitespace().nth(2).unwrap_or("?").to_string();
            let tables = if h.start.version >= 3 { "hetbet" } else { "classic" };
            let lf = if h.start.listfile { "lf" } else { "nolf" };
            let tables = format!("{tables}:{lf}:compact{}", has_compact(h, h.ops.len()));
            if how == "cpu-limit" {
                Err(Fail::new(
                    format!("{tables}:operation-does-not-terminate:{kind}"),
                    format!("worker exhausted its CPU budget in `{last_op}` (history of {} ops)", h.ops.len()),
                ))
            } else {
                Err(Fail::new(
                    format!("{tables}:worker-died:{how}:{kind}"),
                    format!("worker died ({how}) in `{last_op}`: {}", engine::truncate(stderr_tail, 300)),
                ))
            }
        }
        Outcome::Deadlock { .. } => Err(Fail::new("operation-blocks-forever", "worker made no progress and burned no CPU")),
    }
}

fn main() {
    let args: Vec<String> = std::env::args().collect();
    if args.get(1).map(|s| s.as_str()) == Some("--worker") {
        worker();
    }
    let (check, _a) = Check::new("C06", "exploration");
    check.set_rule(
        "histories over {add (content class, 0..1600 bytes, none/zlib/bzip2/LZMA, plain/encrypted, replace flag), remove, rename, compact, flush, reopen} on a pool of 10 names \
         (4 that share a hash-table start slot modulo 16, a name that is a substring of another, 2 case/slash aliases), starting from V1..V4 archives with/without listfile and attributes \
         and 0..4 initial files; interpreted against MutableArchive and a BTreeMap model in a supervised worker; state compared after every reopen and at the end through the read-only Archive \
         (all pool names + listing). Bounded-exhaustive: every sequence of length ≤3 (thorough ≤4) over a 13-letter alphabet × 6 starting shapes; random: proptest histories of 1..60 ops. \
         non-trivial = a mutation followed by a reopen plus one of: compaction after a delete, rename, replacement, ≥12 additions; distinct = start shape × length class × set of op kinds",
    );
    check.assume("reads through the still-open MutableArchive are not judged (the statement is about the state after close and reopen)");
    check.assume("an operation that returns Err must leave the model unchanged; an operation that returns Ok is applied to the model");
    check.assume("termination: 20 CPU-seconds per history (≥10^4 × the honest cost) — exceeded ⇒ non-termination");

    let spec = Spec { cpu_secs: 20, wall_grace_secs: 40, rlimit_as: 4 << 30, ..Spec::new("c06") };

    if let Some(p) = check.replay.clone() {
        let v: Value = serde_json::from_str(&std::fs::read_to_string(&p).expect("replay")).expect("json");
        let h: History = serde_json::from_value(v["case"].clone()).expect("case");
        let out = supervise::run_cases(&spec, &[v["case"].clone()], 1);
        if let Err(f) = judge(&check, &h, &out[0]) {
            check.fail(&f, v["case"].clone());
        }
        check.count("replay-pad", true);
        check.count("replay-pad2", true);
        check.finish();
    }

    // 1. bounded-exhaustive short histories
    let ex = exhaustive(check.tier.pick(3, 4));
    let cases: Vec<Value> = ex.iter().map(|h| serde_json::to_value(h).unwrap()).collect();
    let outs = supervise::run_cases(&spec, &cases, engine::WORKERS);
    for (h, o) in ex.iter().zip(outs.iter()) {
        let (class, nt) = classify(h);
        check.count(&format!("ex:{class}"), nt);
        if let Err(f) = judge(&check, h, o) {
            check.fail(&f, serde_json::to_value(h).unwrap());
        }
    }
    check.set_extra("exhaustive_histories", json!(ex.len()));

    // 1b. fill the hash table: more additions than free slots (must end in Err, never hang)
    let mut fills = vec![];
    for s in starts() {
        for interleave in [false, true] {
            let mut ops = vec![];
            for i in 0..20u8 {
                ops.push(Op::Add { name: CORE as u8 + i, class: ContentClass::Text, len: 40 + i as u16, seed: i as u32, method: (i % 4), encrypt: false, fix_key: false, replace: true });
                if interleave && i % 5 == 4 {
                    ops.push(Op::Remove { name: CORE as u8 + i - 2 });
                    ops.push(Op::Reopen);
                }
            }
            ops.push(Op::Reopen);
            ops.push(Op::Add { name: 5, class: ContentClass::Random, len: 99, seed: 77, method: 1, encrypt: false, fix_key: false, replace: true });
            fills.push(History { start: s.clone(), ops });
        }
    }
    let cases: Vec<Value> = fills.iter().map(|h| serde_json::to_value(h).unwrap()).collect();
    let outs = supervise::run_cases(&spec, &cases, engine::WORKERS);
    for (h, o) in fills.iter().zip(outs.iter()) {
        let (class, _) = classify(h);
        check.count(&format!("fill:{class}"), true);
        if let Err(f) = judge(&check, h, o) {
            check.fail(&f, serde_json::to_value(h).unwrap());
        }
    }
    check.sample("ex", || serde_json::to_value(&ex[ex.len() / 2]).unwrap());

    // 2. random long histories (proptest generates; batches run in supervised workers)
    let n = check.tier.pick(24_000usize, 400_000);
    let mut runner = proptest::test_runner::TestRunner::new_with_rng(
        proptest::test_runner::Config { failure_persistence: None, ..Default::default() },
        proptest::test_runner::TestRng::from_seed(proptest::test_runner::RngAlgorithm::ChaCha, &{
            let mut b = [0u8; 32];
            b[..8].copy_from_slice(&check.sub_seed("c06-random").to_le_bytes());
            b
        }),
    );
    let strat = (start_strategy(), proptest::collection::vec(op_strategy(), 1..60)).prop_map(|(start, ops)| History { start, ops });
    let mut hs = vec![];
    for _ in 0..n {
        use proptest::strategy::ValueTree;
        hs.push(strat.new_tree(&mut runner).expect("gen").current());
    }
    let cases: Vec<Value> = hs.iter().map(|h| serde_json::to_value(h).unwrap()).collect();
    let outs = supervise::run_cases(&spec, &cases, engine::WORKERS);
    let mut failing: Vec<(History, Fail)> = vec![];
    for (h, o) in hs.iter().zip(outs.iter()) {
        let (class, nt) = classify(h);
        check.count(&format!("rnd:{class}"), nt);
        check.sample(&format!("rnd{}", h.ops.len() / 20), || serde_json::to_value(h).unwrap());
        if let Err(f) = judge(&check, h, o) {
            if check.is_known(&f.signature) {
                check.known_hit(&f.signature, &f.message);
            } else {
                failing.push((h.clone(), f));
            }
        }
    }
    // shrink unknown failures by deleting ops (own delta-debugging: the case runs in a worker)
    failing.truncate(if check.tier == Tier::Quick { 6 } else { 20 });
    for (h, f) in failing {
        let (hm, fm) = shrink(&check, &spec, h, f);
        check.fail(&fm, serde_json::to_value(&hm).unwrap());
    }
    let _ = pt::pick_idx(0, 1);
    check.finish();
}

/// delta-debug a failing history: drop ops while some (unknown) failure persists
fn shrink(check: &Check, spec: &Spec, mut h: History, mut f: Fail) -> (History, Fail) {
    let mut chunk = (h.ops.len() / 2).max(1);
    let mut budget = 200;
    while chunk >= 1 && budget > 0 {
        let mut i = 0;
        let mut progressed = false;
        while i < h.ops.len() && budget > 0 {
            let mut cand = h.clone();
            let end = (i + chunk).min(cand.ops.len());
            cand.ops.drain(i..end);
            budget -= 1;
            let out = supervise::run_cases(spec, &[serde_json::to_value(&cand).unwrap()], 1);
            match judge(check, &cand, &out[0]) {
                Err(f2) if !check.is_known(&f2.signature) => {
                    h = cand;
                    f = f2;
                    progressed = true;
                }
                _ => i += chunk,
            }
        }
        if !progressed {
            if chunk == 1 {
                break;
            }
            chunk /= 2;
        }
    }
    (h, f)
}
