//! C16 — BLP encode→parse is exact; lossless encodings preserve pixels.
//!
//! image → `image_to_blp` → `encode_blp` / `encode_blp0` → bytes → (a) independent structural
//! judge `blpcheck` on the bytes, (b) `parse_blp` / `parse_blp_with_externals` and equality with
//! the encoded `BlpImage`, (c) per-level `blp_to_image` dimensions, (d) pixel clauses for the
//! raw BGRA and palettised encodings, judged from the file bytes and from the library decoder.

mod blpcheck;
mod cases;

use blpcheck::{Enc, Expect};
use cases::{Case, Switches};
use serde_json::json;
use vcheck::engine::{self, CaseResult, Check, Fail, guard, pt};
use wow_blp::convert::{blp_to_image, image_to_blp};
use wow_blp::encode::{encode_blp, encode_blp0};
use wow_blp::parser::{parse_blp, parse_blp_with_externals};
use wow_blp::types::{BlpContent, BlpImage};

/// first identifier of a Debug rendering, unwrapping the parser's `Context(..)` wrappers
fn err_kind(dbg: &str) -> String {
    let mut s = dbg;
    while let Some(rest) = s.strip_prefix("Context(") {
        // Context("text", Inner...)
        match rest.find("\", ") {
            Some(i) => s = &rest[i + 3..],
            None => break,
        }
    }
    s.chars().take_while(|c| c.is_ascii_alphanumeric() || *c == '_').collect()
}

struct Outcome {
    class: String,
    nontrivial: bool,
    fails: Vec<Fail>,
    rejected: Option<String>,
    /// which alpha quantisers explain every pixel (bit set as in blpcheck::alpha_quantisers)
    quantisers: Option<(u8, u8)>,
}

fn class_of(c: &Case, outcome: &str) -> (String, bool) {
    let align = match c.target.enc {
        Enc::Raw1(1) => format!(":w%8={}", (c.w % 8 != 0) as u8),
        Enc::Raw1(4) => format!(":w%2={}", (c.w % 2 != 0) as u8),
        _ => String::new(),
    };
    let class = format!(
        "{}:m{}:{}:{}:{}{}:{}",
        c.target.name(),
        c.mips as u8,
        cases::shape_class(c.w, c.h),
        cases::size_class(c.w, c.h),
        cases::PIX_CLASSES[c.pix],
        align,
        outcome
    );
    let npot_or_rect = c.w != c.h || !c.w.is_power_of_two() || !c.h.is_power_of_two();
    let nt = (c.mips && npot_or_rect)
        || (c.target.enc == Enc::Raw1(1) && c.w % 8 != 0)
        || (c.target.enc == Enc::Raw1(4) && c.w % 2 != 0);
    (class, nt)
}

fn diff_content(a: &BlpContent, b: &BlpContent, enc: Enc, after_short_chain: bool, (a_w, a_h): (u32, u32)) -> Option<Fail> {
    let e = enc.name();
    let pre = if after_short_chain { "after-short-mip-chain/" } else { "" };
    let count = |x: usize, y: usize| {
        Fail::new(
            format!("{pre}roundtrip-differs:{e}:image-count"),
            format!("encoded texture has {x} level image(s), parsed texture has {y}"),
        )
    };
    match (a, b) {
        (BlpContent::Jpeg(x), BlpContent::Jpeg(y)) => {
            if x.header != y.header {
                return Some(Fail::new(
                    format!("roundtrip-differs:{e}:jpeg-header"),
                    format!("jpeg header {} bytes vs parsed {} bytes", x.header.len(), y.header.len()),
                ));
            }
            if x.images.len() != y.images.len() {
                return Some(count(x.images.len(), y.images.len()));
            }
            for (i, (p, q)) in x.images.iter().zip(&y.images).enumerate() {
                if p != q {
                    return Some(Fail::new(
                        format!("roundtrip-differs:{e}:level-bytes"),
                        format!("level {i}: {} bytes encoded, {} bytes parsed (or content differs)", p.len(), q.len()),
                    ));
                }
            }
            None
        }
        (BlpContent::Raw1(x), BlpContent::Raw1(y)) => {
            if x.cmap != y.cmap {
                return Some(Fail::new(format!("roundtrip-differs:{e}:palette"), "palette differs".to_string()));
            }
            if x.images.len() != y.images.len() {
                return Some(count(x.images.len(), y.images.len()));
            }
            for (i, (p, q)) in x.images.iter().zip(&y.images).enumerate() {
                if p.indexed_rgb != q.indexed_rgb {
                    return Some(Fail::new(
                        format!("roundtrip-differs:{e}:index-bytes"),
                        format!("level {i}: colour indices differ ({} vs {} bytes)", p.indexed_rgb.len(), q.indexed_rgb.len()),
                    ));
                }
                if p.indexed_alpha != q.indexed_alpha {
                    return Some(Fail::new(
                        format!("roundtrip-differs:{e}:alpha-bytes"),
                        format!("level {i}: alpha block differs ({} vs {} bytes)", p.indexed_alpha.len(), q.indexed_alpha.len()),
                    ));
                }
            }
            None
        }
        (BlpContent::Raw3(x), BlpContent::Raw3(y)) => {
            if x.cmap != y.cmap {
                return Some(Fail::new(format!("roundtrip-differs:{e}:palette"), "palette differs".to_string()));
            }
            if x.images.len() != y.images.len() {
                return Some(count(x.images.len(), y.images.len()));
            }
            for (i, (p, q)) in x.images.iter().zip(&y.images).enumerate() {
                if p != q {
                    return Some(Fail::new(
                        format!("roundtrip-differs:{e}:level-pixels"),
                        format!("level {i}: {} vs {} pixels (or values differ)", p.pixels.len(), q.pixels.len()),
                    ));
                }
            }
            None
        }
        (BlpContent::Dxt1(x), BlpContent::Dxt1(y))
        | (BlpContent::Dxt3(x), BlpContent::Dxt3(y))
        | (BlpContent::Dxt5(x), BlpContent::Dxt5(y)) => {
            if x.format != y.format {
                return Some(Fail::new(format!("roundtrip-differs:{e}:dxt-format"), format!("{:?} vs {:?}", x.format, y.format)));
            }
            if x.cmap != y.cmap {
                return Some(Fail::new(format!("roundtrip-differs:{e}:palette"), "palette differs".to_string()));
            }
            if x.images.len() != y.images.len() {
                return Some(count(x.images.len(), y.images.len()));
            }
            for (i, (p, q)) in x.images.iter().zip(&y.images).enumerate() {
                if p != q {
                    let prefix = q.content.len() < p.content.len() && p.content.starts_with(&q.content);
                    // characteristic of one defect: the parser keeps ceil(pixels/16) blocks
                    let (lw, lh) = (((a_w >> i).max(1)) as usize, ((a_h >> i).max(1)) as usize);
                    let by_pixels = (lw * lh).div_ceil(16) * if enc == Enc::Dxt1 { 8 } else { 16 };
                    return Some(Fail::new(
                        if prefix && q.content.len() == by_pixels {
                            format!("roundtrip-differs:{e}:parser-keeps-ceil(pixels/16)-blocks")
                        } else if prefix {
                            format!("roundtrip-differs:{e}:parser-truncates-level")
                        } else {
                            format!("roundtrip-differs:{e}:level-bytes")
                        },
                        format!("level {i}: {} bytes encoded, {} bytes parsed", p.content.len(), q.content.len()),
                    ));
                }
            }
            None
        }
        _ => Some(Fail::new(
            "roundtrip-differs:content-variant",
            format!("encoded {:?}, parsed another content variant", enc),
        )),
    }
}

fn diff_image(a: &BlpImage, b: &BlpImage, enc: Enc, after_short_chain: bool) -> Option<Fail> {
    let (x, y) = (&a.header, &b.header);
    let hf = |n: &str, l: String, r: String| {
        Some(Fail::new(format!("roundtrip-differs:header.{n}"), format!("header.{n}: encoded {l}, parsed {r}")))
    };
    if x.version != y.version {
        return hf("version", format!("{:?}", x.version), format!("{:?}", y.version));
    }
    if x.content != y.content {
        return hf("content", format!("{:?}", x.content), format!("{:?}", y.content));
    }
    if x.flags != y.flags {
        return hf("flags", format!("{:?}", x.flags), format!("{:?}", y.flags));
    }
    if (x.width, x.height) != (y.width, y.height) {
        return hf("size", format!("{}x{}", x.width, x.height), format!("{}x{}", y.width, y.height));
    }
    if x.mipmap_locator != y.mipmap_locator {
        return hf("mipmap_locator", format!("{:?}", x.mipmap_locator), format!("{:?}", y.mipmap_locator));
    }
    if let Some(f) = diff_content(&a.content, &b.content, enc, after_short_chain, (x.width, x.height)) {
        return Some(f);
    }
    if a != b {
        return Some(Fail::new("roundtrip-differs:other", "BlpImage != parsed BlpImage".to_string()));
    }
    None
}

/// Evaluate one case against the whole oracle; collects every finding of the case.
fn evaluate(c: &Case) -> Outcome {
    let mut fails: Vec<Fail> = vec![];
    let enc = c.target.enc;
    let tname = c.target.name();
    let done = |outcome: &str, fails: Vec<Fail>, rejected: Option<String>, q: Option<(u8, u8)>| {
        let (class, nt) = class_of(c, outcome);
        Outcome { class, nontrivial: nt && rejected.is_none(), fails, rejected, quantisers: q }
    };

    let src = cases::build_image(c);
    let src_rgba = src.to_rgba8();
    let filter = cases::FILTERS[c.filter].1;

    // 1. convert
    let blp = match guard("image_to_blp", || image_to_blp(src.clone(), c.mips, c.target.to_lib(), filter)) {
        Err(f) => {
            fails.push(f);
            return done("panic", fails, None, None);
        }
        Ok(Err(e)) => {
            return done("rejected", fails, Some(format!("image_to_blp:{}", err_kind(&format!("{e:?}")))), None);
        }
        Ok(Ok(b)) => b,
    };

    // 2. encode
    let (bytes, externals): (Vec<u8>, Option<Vec<Vec<u8>>>) = if c.target.version == 0 {
        match guard("encode_blp0", || encode_blp0(&blp)) {
            Err(f) => {
                fails.push(f);
                return done("panic", fails, None, None);
            }
            Ok(Err(e)) => {
                fails.push(Fail::new(
                    format!("encode-rejects-converted-texture:{}", err_kind(&format!("{e:?}"))),
                    format!("encode_blp0 on the texture image_to_blp produced for {tname}: {e}"),
                ));
                return done("encode-err", fails, None, None);
            }
            Ok(Ok(r)) => (r.blp_bytes, Some(r.blp_mipmaps)),
        }
    } else {
        match guard("encode_blp", || encode_blp(&blp)) {
            Err(f) => {
                fails.push(f);
                return done("panic", fails, None, None);
            }
            Ok(Err(e)) => {
                fails.push(Fail::new(
                    format!("encode-rejects-converted-texture:{}", err_kind(&format!("{e:?}"))),
                    format!("encode_blp on the texture image_to_blp produced for {tname}: {e}"),
                ));
                return done("encode-err", fails, None, None);
            }
            Ok(Ok(b)) => (b, None),
        }
    };

    // 3. independent structural judge on the bytes
    let ex = Expect { version: c.target.version, enc, w: c.w, h: c.h, mips: c.mips };
    let (lay, findings) = blpcheck::check_layout(&bytes, externals.as_deref(), &ex);
    for (s, m) in findings {
        fails.push(Fail::new(s, format!("{tname} {}x{} mips={}: {m}", c.w, c.h, c.mips)));
    }
    let short = lay.short_at_min_side;

    // 4. parse
    let parsed = if let Some(ext) = externals.as_ref() {
        guard("parse_blp_with_externals", || {
            parse_blp_with_externals(&bytes, |i| Ok(ext.get(i).map(|v| v.as_slice())))
        })
    } else {
        guard("parse_blp", || parse_blp(&bytes))
    };
    let parsed = match parsed {
        Err(f) => {
            fails.push(f);
            return done("panic", fails, None, None);
        }
        Ok(Err(e)) => {
            let k = err_kind(&format!("{e:?}"));
            let pre = if short && k == "MissingImage" { "after-short-mip-chain/" } else { "" };
            fails.push(Fail::new(
                format!("{pre}parse-rejects-own-encoding:{k}"),
                format!("{tname} {}x{} mips={}: parser rejects the bytes the encoder produced: {e}", c.w, c.h, c.mips),
            ));
            return done("parse-err", fails, None, None);
        }
        Ok(Ok(p)) => p,
    };

    // 4a. BLP0 keeps its mip levels in external files: the header says how many there are. Levels
    //     beyond the chain that happen to be available (stale `.bNN` files of an earlier, larger
    //     texture saved under the same name) must not change the result, and a level the header
    //     calls for but that is not available must not be skipped silently.
    if let Some(ext) = externals.as_ref() {
        let junk: Vec<u8> = ext.last().cloned().unwrap_or_else(|| vec![0xFF, 0xD8, 0xFF, 0xD9]);
        match guard("parse_blp_with_externals(surplus levels)", || {
            parse_blp_with_externals(&bytes, |i| Ok(Some(ext.get(i).map(|v| v.as_slice()).unwrap_or(junk.as_slice()))))
        }) {
            Ok(Ok(p2)) if p2 == parsed => {}
            Ok(Ok(p2)) => fails.push(Fail::new(
                "blp0-surplus-external-levels-change-the-result",
                format!("{tname} {}x{} mips={}: with more external level files available than the header calls for the parser returns {} levels instead of {}", c.w, c.h, c.mips, p2.image_count(), parsed.image_count()),
            )),
            Ok(Err(e)) => fails.push(Fail::new(
                "blp0-surplus-external-levels-change-the-result",
                format!("{tname} {}x{} mips={}: with surplus external level files available the parser fails: {e}", c.w, c.h, c.mips),
            )),
            Err(f) => fails.push(f),
        }
        if ext.len() >= 2 {
            let cut = ext.len() - 1;
            if let Ok(Ok(p3)) = guard("parse_blp_with_externals(last level missing)", || {
                parse_blp_with_externals(&bytes, |i| Ok(if i < cut { ext.get(i).map(|v| v.as_slice()) } else { None }))
            }) {
                fails.push(Fail::new(
                    "blp0-missing-external-level-skipped-silently",
                    format!("{tname} {}x{} mips={}: the last of {} external levels is not available, yet the parser returns Ok with {} levels", c.w, c.h, c.mips, ext.len(), p3.image_count()),
                ));
            }
        }
    }

    // 4a'. files on disk (one case in six, by size): the texture is saved under a name that was used
    //      before for a larger texture of the same family (longer main file, more external level
    //      files); loading that name must give exactly this texture
    if (c.w as usize * 7 + c.h as usize * 13 + c.seed as usize) % 6 == 0 && c.w <= 256 && c.h <= 256 {
        use wow_blp::convert::FilterType;
        let dir = engine::scratch("c16save");
        let path = dir.path().join("tex.blp");
        let side = (c.w.max(c.h) * 4).clamp(16, 512).next_power_of_two();
        let older = image::DynamicImage::ImageRgba8(image::RgbaImage::from_fn(side, side, |x, y| image::Rgba([x as u8, y as u8, (x ^ y) as u8, 255])));
        let saved_before = matches!(
            guard("save_blp(older, larger texture)", || image_to_blp(older, true, c.target.to_lib(), FilterType::Nearest).map(|b| wow_blp::encode::save_blp(&b, &path))),
            Ok(Ok(Ok(())))
        );
        if saved_before {
            match guard("save_blp", || wow_blp::encode::save_blp(&blp, &path)) {
                Err(f) => fails.push(f),
                Ok(Err(e)) => fails.push(Fail::new("save-blp-fails-for-encodable-texture", format!("{tname} {}x{}: {e}", c.w, c.h))),
                Ok(Ok(())) => match guard("load_blp", || wow_blp::parser::load_blp(&path)) {
                    Err(f) => fails.push(f),
                    Ok(Err(e)) => fails.push(Fail::new("load-after-save-over-older-texture-fails", format!("{tname} {}x{} mips={}: {e}", c.w, c.h, c.mips))),
                    Ok(Ok(p2)) => {
                        if p2 != parsed {
                            fails.push(Fail::new(
                                "load-after-save-over-older-texture-differs",
                                format!("{tname} {}x{} mips={}: saved over an older {side}x{side} texture of the same name, load_blp returns {} levels, the texture has {}", c.w, c.h, c.mips, p2.image_count(), parsed.image_count()),
                            ));
                        }
                    }
                },
            }
        }
    }

    // 4b. the public chain arithmetic of the parsed header agrees with the demanded chain
    {
        let chain = blpcheck::expected_chain(c.w, c.h, c.mips);
        let got = parsed.header.mipmaps_count() + 1;
        if got != chain.len() {
            fails.push(Fail::new(
                "header-mipmaps_count-disagrees-with-chain-to-1x1",
                format!(
                    "{tname} {}x{} mips={}: header.mipmaps_count()+1 = {got}, chain down to 1x1 has {} levels",
                    c.w, c.h, c.mips, chain.len()
                ),
            ));
        }
        for (i, want) in chain.iter().enumerate() {
            let g = parsed.header.mipmap_size(i);
            if g != *want {
                fails.push(Fail::new(
                    "header-mipmap_size-disagrees-with-halving",
                    format!("{tname} {}x{}: header.mipmap_size({i}) = {g:?}, expected {want:?}", c.w, c.h),
                ));
                break;
            }
        }
    }

    // 5. identical structure
    if let Some(mut f) = diff_image(&blp, &parsed, enc, short) {
        f.message = format!("{tname} {}x{} mips={}: {}", c.w, c.h, c.mips, f.message);
        fails.push(f);
    }

    // 6. every stored level decodes to max(1,w>>i) × max(1,h>>i)
    let chain = blpcheck::expected_chain(c.w, c.h, c.mips);
    let levels = lay.stored_levels.min(lay.expected_levels).min(parsed.image_count());
    let mut level0 = None;
    for i in 0..levels {
        match guard("blp_to_image", || blp_to_image(&parsed, i)) {
            Err(f) => {
                fails.push(f);
                break;
            }
            Ok(Err(e)) => {
                fails.push(Fail::new(
                    format!("level-undecodable:{}:{}", enc.name(), err_kind(&format!("{e:?}"))),
                    format!("{tname} {}x{}: blp_to_image(level {i}): {e}", c.w, c.h),
                ));
                break;
            }
            Ok(Ok(img)) => {
                if (img.width(), img.height()) != chain[i] {
                    fails.push(Fail::new(
                        format!("level-dimensions-wrong:{}", enc.name()),
                        format!(
                            "{tname} {}x{}: level {i} decodes to {}x{}, expected {}x{}",
                            c.w, c.h, img.width(), img.height(), chain[i].0, chain[i].1
                        ),
                    ));
                    break;
                }
                if i == 0 {
                    level0 = Some(img);
                }
            }
        }
    }

    // 7. pixel clauses
    let n = (c.w * c.h) as usize;
    let level0_bytes: Option<&[u8]> = match (&externals, lay.levels.first()) {
        (Some(ext), _) => ext.first().map(|v| v.as_slice()),
        (None, Some(r)) => bytes.get(r.clone()),
        _ => None,
    };
    let mut quantisers = None;
    match enc {
        Enc::Raw3 => {
            if let Some(lb) = level0_bytes {
                if lb.len() == 4 * n {
                    for (i, p) in src_rgba.pixels().enumerate() {
                        let s = &lb[4 * i..4 * i + 4];
                        if [s[2], s[1], s[0], s[3]] != p.0 {
                            fails.push(Fail::new(
                                "raw3-stored-bgra-differs-from-source",
                                format!("{}x{} pixel {i}: file BGRA {:?}, source RGBA {:?}", c.w, c.h, s, p.0),
                            ));
                            break;
                        }
                    }
                }
            }
            if let Some(img) = &level0 {
                let got = img.to_rgba8();
                if got.as_raw() != src_rgba.as_raw() {
                    let i = got.pixels().zip(src_rgba.pixels()).position(|(a, b)| a != b).unwrap_or(0);
                    fails.push(Fail::new(
                        "raw3-decoded-pixels-differ-from-source",
                        format!(
                            "{}x{} pixel {i}: decoded {:?}, source {:?}",
                            c.w, c.h,
                            got.pixels().nth(i).map(|p| p.0),
                            src_rgba.pixels().nth(i).map(|p| p.0)
                        ),
                    ));
                }
            }
        }
        Enc::Raw1(depth) => {
            let pal = lay.palette.clone().and_then(|r| bytes.get(r));
            if let (Some(pal), Some(lb)) = (pal, level0_bytes) {
                match blpcheck::decode_raw1(pal, lb, n, depth) {
                    Err(_) => {} // size already reported by the layout judge
                    Ok(dec) => {
                        // alpha is the source alpha quantised to the declared depth
                        if depth > 0 {
                            let mut all = 0xFFu8;
                            let mut any = 0u8;
                            for (i, p) in src_rgba.pixels().enumerate() {
                                let m = blpcheck::alpha_quantisers(p.0[3], dec.q[i], depth);
                                if m == 0 {
                                    fails.push(Fail::new(
                                        format!("raw1-alpha-not-a-quantisation:a{depth}"),
                                        format!(
                                            "{tname} {}x{} pixel {i}: source alpha {}, stored {depth}-bit code {} (neither trunc, round, floor nor ceil)",
                                            c.w, c.h, p.0[3], dec.q[i]
                                        ),
                                    ));
                                    all = 0;
                                    break;
                                }
                                all &= m;
                                any |= m;
                            }
                            quantisers = Some((all, any));
                        }
                        // the smaller levels: a source of one alpha value everywhere (opaque / transparent) has that
                        // value in every level whatever the resampling filter (weights sum to one)
                        if depth > 0 {
                            let a0 = src_rgba.pixels().next().map(|p| p.0[3]).unwrap_or(255);
                            if (a0 == 255 || a0 == 0) && src_rgba.pixels().all(|p| p.0[3] == a0) {
                                let want = if a0 == 255 { ((1u16 << depth) - 1) as u8 } else { 0 };
                                let n_levels = externals.as_ref().map(|e| e.len()).unwrap_or(lay.levels.len());
                                for k in 1..n_levels {
                                    let (lw, lh) = ((c.w >> k).max(1) as usize, (c.h >> k).max(1) as usize);
                                    let lb: Option<&[u8]> = match &externals {
                                        Some(ext) => ext.get(k).map(|v| v.as_slice()),
                                        None => lay.levels.get(k).and_then(|r| bytes.get(r.clone())),
                                    };
                                    let Some(lb) = lb else { continue };
                                    if let Ok(d) = blpcheck::decode_raw1(pal, lb, lw * lh, depth) {
                                        if let Some(i) = d.q.iter().position(|q| *q != want) {
                                            fails.push(Fail::new(
                                                format!("raw1-mip-level-alpha-differs-from-uniform-source-alpha:a{depth}"),
                                                format!("{tname} {}x{} level {k} ({lw}x{lh}) pixel {i}: every source pixel has alpha {a0}, stored {depth}-bit code {} (expected {want})", c.w, c.h, d.q[i]),
                                            ));
                                            break;
                                        }
                                    }
                                }
                            }
                        }
                        // the library decoder: colour = palette entry selected by the stored index,
                        // alpha = expansion of the stored code
                        if let Some(img) = &level0 {
                            let got = img.to_rgba8();
                            for (i, g) in got.pixels().enumerate() {
                                if [g.0[0], g.0[1], g.0[2]] != dec.rgb[i] {
                                    let in_pal = pal.chunks(4).any(|e| e[..3] == g.0[..3]);
                                    fails.push(Fail::new(
                                        if in_pal { "raw1-decoded-colour-is-another-palette-entry" } else { "raw1-decoded-colour-not-in-palette" },
                                        format!(
                                            "{tname} {}x{} pixel {i}: decoded {:?}, palette[index] {:?}",
                                            c.w, c.h, &g.0[..3], dec.rgb[i]
                                        ),
                                    ));
                                    break;
                                }
                                let ok_a = if depth == 0 {
                                    g.0[3] == 255
                                } else {
                                    blpcheck::alpha_expansions(dec.q[i], depth).contains(&g.0[3])
                                };
                                if !ok_a {
                                    fails.push(Fail::new(
                                        format!("raw1-decoded-alpha-not-expansion-of-stored-code:a{depth}"),
                                        format!(
                                            "{tname} {}x{} pixel {i}: decoded alpha {}, stored code {}",
                                            c.w, c.h, g.0[3],
                                            dec.q.get(i).copied().unwrap_or(0)
                                        ),
                                    ));
                                    break;
                                }
                            }
                        }
                    }
                }
            }
        }
        _ => {}
    }

    let outcome = if fails.is_empty() { "ok" } else { "fail" };
    done(outcome, fails, None, quantisers)
}

fn quantiser_label(depth: u8, all: u8) -> String {
    // which single rule explains all pixels of a case
    let mut v = vec![];
    for (b, n) in [(1u8, "trunc"), (2, "round"), (4, "floor"), (8, "ceil")] {
        if all & b != 0 {
            v.push(n);
        }
    }
    format!("alpha{depth}-explained-by:{}", if v.is_empty() { "mixed".to_string() } else { v.join("+") })
}

/// bookkeeping + failure routing shared by grid, random volume and replay
fn run_case(check: &Check, c: &Case, in_proptest: bool) -> CaseResult {
    let o = evaluate(c);
    check.count(&o.class, o.nontrivial);
    if let Some(r) = &o.rejected {
        check.bump(&format!("rejected:{r}"), 1);
    } else {
        check.bump("accepted", 1);
        check.bump(&format!("ess:target:{}:m{}", c.target.name(), c.mips as u8), 1);
        check.bump(&format!("ess:shape:{}:m{}", cases::shape_class(c.w, c.h), c.mips as u8), 1);
        check.bump(&format!("ess:pix:{}", cases::PIX_CLASSES[c.pix]), 1);
        match c.target.enc {
            Enc::Raw1(1) if c.w % 8 != 0 => check.bump("ess:alpha1-width-not-multiple-of-8", 1),
            Enc::Raw1(4) if c.w % 2 != 0 => check.bump("ess:alpha4-odd-width", 1),
            _ => {}
        }
        if c.mips && (c.w != c.h) && cases::floor_log2(c.w) == cases::floor_log2(c.h) {
            check.bump("ess:rect-same-octave-with-mipmaps", 1);
        }
    }
    if !c.steered.is_empty() {
        check.bump(&format!("excluded-by-switch:{}", c.steered), 1);
    }
    if c.canary {
        check.bump("canary-cases", 1);
    }
    check.bump(&format!("filter:{}", cases::FILTERS[c.filter].0), 1);
    check.bump(&format!("kind:{}", cases::KINDS[c.kind]), 1);
    if let (Enc::Raw1(d), Some((all, _))) = (c.target.enc, o.quantisers) {
        check.bump(&quantiser_label(d, all), 1);
    }
    if o.nontrivial && o.fails.is_empty() && c.mips && c.w * c.h >= 64 {
        check.sample(&format!("{}:{}", c.target.name(), cases::shape_class(c.w, c.h)), || c.to_json());
    }
    for f in o.fails {
        if in_proptest {
            if check.is_known(&f.signature) {
                if !pt::suppressed() {
                    check.known_hit(&f.signature, &f.message);
                }
            } else if check.already_reported(&f.signature) {
                check.bump("repeat_violation_hits", 1);
            } else {
                return Err(f);
            }
        } else {
            check.fail(&f, c.to_json());
        }
    }
    Ok(())
}

fn main() {
    let (check, _args) = Check::new("C16", "exploration");
    let sw = Switches::from_env();
    check.set_rule(
        "deterministic grid: 42 shapes (square/rectangular × power-of-two/odd/prime/2^k±1, 1×N, N×1, \
         1×1 … 64×64) × all 25 targets (BLP0/1 × {Raw1 α0/1/4/8, JPEG ±α}, BLP2 × {Raw1 α0/1/4/8, Raw3, \
         JPEG ±α, DXT1/3/5 ±α RangeFit}) × mipmaps on/off, pixel class and filter rotating; random volume: \
         proptest over (w, h ∈ 1..=160 quick / 1..=512 thorough, weighted to ≤64 and powers of two; square / \
         same-octave / free shapes) × target × mipmaps × 5 filters × 8 pixel classes (all-transparent, solid, \
         ≤256 colours, >256 colours, gradient, alpha ramp, noise, alpha edge values) × source kind \
         (RGBA8/RGB8/Luma8), pixels from the check's own splitmix64 builder. Conversions answered with Err are \
         counted (class …:rejected), never failed. non-trivial = accepted case with (mipmaps ∧ (non-square ∨ \
         non-power-of-two)) ∨ (Raw1 α1 ∧ width%8≠0) ∨ (Raw1 α4 ∧ width odd); distinct = target × mipmaps × \
         shape class × size class × pixel class × alignment flag × outcome. Regions of open findings are \
         excluded from the random volume by switches (re-routed cases are counted) and kept as fixed canaries \
         in the grid.",
    );
    check.assume("the `image` crate (pixel containers, to_rgba8, JPEG decoder used by the library) is correct");
    check.assume("container layout (header fields, 16+16 offset/size table, 256×u32 palette 0x00BBGGRR, JPEG header length prefix, LSB-first alpha packing in pixel order) is the published BLP layout; blpcheck reads it from the bytes without wow_blp");
    check.assume("per-level byte counts: Raw1 n+ceil(n·α/8), Raw3 4n, DXT1 8·⌈w/4⌉⌈h/4⌉, DXT3/5 16·⌈w/4⌉⌈h/4⌉; JPEG levels only need size>0");
    check.assume("alpha 'quantised to the declared depth' is read permissively: stored code ∈ {a>>(8-d), round, floor, ceil of a·(2^d-1)/255}; decoder expansion of a 4-bit code may be ×17 or <<4");
    check.assume("an Err from image_to_blp is a rejection; an Err from encode_blp/encode_blp0 on the texture image_to_blp itself produced is a violation (nothing in the API lets a caller avoid it)");

    if let Some(p) = check.replay.clone() {
        let v: serde_json::Value =
            serde_json::from_str(&std::fs::read_to_string(&p).expect("replay file")).expect("json");
        match Case::from_json(&v["case"]) {
            Ok(c) => {
                let _ = run_case(&check, &c, false);
            }
            Err(e) => check.inconclusive(&format!("replay file unreadable: {e}")),
        }
        check.finish();
    }

    check.set_extra(
        "exclusion_switches",
        json!({
            "exclude_short_chain (VERIF_C16_EXCLUDE_SHORT_CHAIN=0 disables)": sw.exclude_short_chain,
            "exclude_dxt_partial_blocks (VERIF_C16_EXCLUDE_DXT_PARTIAL=0 disables)": sw.exclude_dxt_partial_blocks,
        }),
    );

    // 1. grid (parallel over the fixed worker count; order-independent bookkeeping)
    let grid = cases::grid(sw);
    check.set_extra("grid_cases", json!(grid.len()));
    {
        let next = std::sync::atomic::AtomicUsize::new(0);
        std::thread::scope(|s| {
            for _ in 0..engine::WORKERS {
                std::thread::Builder::new()
                    .stack_size(32 << 20)
                    .spawn_scoped(s, || loop {
                        let i = next.fetch_add(1, std::sync::atomic::Ordering::Relaxed);
                        let Some(c) = grid.get(i) else { break };
                        let _ = run_case(&check, c, false);
                    })
                    .expect("spawn");
            }
        });
    }

    // essential classes must have been reached by the grid alone (checked below, before the sweep
    // adds to the same counters)
    let mut missing = vec![];
    for t in cases::targets() {
        for m in [0, 1] {
            let k = format!("ess:target:{}:m{m}", t.name());
            if check.counter(&k) == 0 {
                missing.push(k);
            }
        }
    }
    for sc in ["1x1", "1xN", "Nx1", "sq-pow2", "sq-npot", "rect-pow2", "rect-npot"] {
        for m in [0, 1] {
            let k = format!("ess:shape:{sc}:m{m}");
            if check.counter(&k) == 0 {
                missing.push(k);
            }
        }
    }
    for p in cases::PIX_CLASSES {
        let k = format!("ess:pix:{p}");
        if check.counter(&k) == 0 {
            missing.push(k);
        }
    }
    for k in [
        "ess:alpha1-width-not-multiple-of-8",
        "ess:alpha4-odd-width",
        "ess:rect-same-octave-with-mipmaps",
    ] {
        if check.counter(k) == 0 {
            missing.push(k.to_string());
        }
    }
    if !missing.is_empty() {
        check.inconclusive(&format!("essential classes not reached by the grid: {missing:?}"));
    }

    // 2. shape sweep: every (w, h) in 1..=64 × 1..=64 × mipmaps on/off, target rotating
    //    (quick: 1 target per shape, thorough: 5), exclusion switches applied
    {
        let ts = cases::targets();
        let per = check.tier.pick(1usize, 5);
        let mut sweep = vec![];
        for w in 1..=64u32 {
            for h in 1..=64u32 {
                for mips in [false, true] {
                    for r in 0..per {
                        let k = (w as usize * 131 + h as usize * 17 + mips as usize * 7 + r * 5) % ts.len();
                        let c = Case {
                            w,
                            h,
                            kind: 0,
                            pix: (w as usize + 3 * h as usize + r) % cases::PIX_CLASSES.len(),
                            seed: (w * 65_537 + h * 257 + r as u32).wrapping_mul(2654435761),
                            target: ts[k],
                            mips,
                            filter: (w as usize + h as usize + r) % cases::FILTERS.len(),
                            steered: "",
                            canary: false,
                        };
                        sweep.push(cases::steer(c, sw));
                    }
                }
            }
        }
        check.set_extra("sweep_cases", json!(sweep.len()));
        let next = std::sync::atomic::AtomicUsize::new(0);
        std::thread::scope(|s| {
            for _ in 0..engine::WORKERS {
                std::thread::Builder::new()
                    .stack_size(32 << 20)
                    .spawn_scoped(s, || loop {
                        let i = next.fetch_add(1, std::sync::atomic::Ordering::Relaxed);
                        let Some(c) = sweep.get(i) else { break };
                        let _ = run_case(&check, c, false);
                    })
                    .expect("spawn");
            }
        });
    }

    // 2b. long strips: the long side at and around every power of two up to the format's limit
    //     (chain length = floor(log2(long side)) + 1 is where float rounding and width limits bite),
    //     the short side 1..3, both orientations, mipmaps on
    {
        let ts = cases::targets();
        let mut strips = vec![];
        let mut longs: Vec<u32> = vec![];
        for e in 7..=15u32 {
            for d in [-1i64, 0, 1] {
                let v = (1i64 << e) + d;
                if (1..=65_535).contains(&v) {
                    longs.push(v as u32);
                }
            }
        }
        longs.push(65_535);
        for (i, &l) in longs.iter().enumerate() {
            for short in 1..=3u32 {
                for flip in [false, true] {
                    let (w, h) = if flip { (short, l) } else { (l, short) };
                    let k = (i * 7 + short as usize * 3 + flip as usize) % ts.len();
                    let c = Case {
                        w,
                        h,
                        kind: 0,
                        pix: (i + short as usize) % cases::PIX_CLASSES.len(),
                        seed: (l * 31 + short).wrapping_mul(2654435761),
                        target: ts[k],
                        mips: true,
                        filter: i % cases::FILTERS.len(),
                        steered: "",
                        canary: false,
                    };
                    strips.push(cases::steer(c, sw));
                }
            }
        }
        check.set_extra("strip_cases", json!(strips.len()));
        let next = std::sync::atomic::AtomicUsize::new(0);
        std::thread::scope(|s| {
            for _ in 0..engine::WORKERS {
                std::thread::Builder::new()
                    .stack_size(32 << 20)
                    .spawn_scoped(s, || loop {
                        let i = next.fetch_add(1, std::sync::atomic::Ordering::Relaxed);
                        let Some(c) = strips.get(i) else { break };
                        let _ = run_case(&check, c, false);
                    })
                    .expect("spawn");
            }
        });
    }

    // 3. random volume
    let n = check.tier.pick(60_000u32, 600_000);
    let max_dim = check.tier.pick(160u32, 512);
    pt::run(
        &check,
        "blp-random",
        n,
        pt::Opts { max_shrink_iters: 400, ..pt::Opts::default() },
        || cases::strategy(max_dim, sw),
        |c| c.to_json(),
        |c| run_case(&check, c, true),
    );

    if check.counter("accepted") == 0 {
        check.inconclusive("every conversion was rejected: nothing was judged");
    }
    check.finish();
}
