//! Case description, deterministic pixel builder (own PRNG — replay needs no generator library),
//! target table, exclusion switches, proptest strategy and the deterministic grid.

use crate::blpcheck::Enc;
use image::{DynamicImage, GrayImage, RgbImage, RgbaImage};
use proptest::prelude::*;
use serde_json::{Value, json};
use wow_blp::convert::{AlphaBits, Blp2Format, BlpOldFormat, BlpTarget, DxtAlgorithm, FilterType};

#[derive(Clone, Copy, Debug, PartialEq, Eq)]
pub struct Target {
    pub version: u8,
    pub enc: Enc,
    /// JPEG / DXT: "with alpha" flavour of the target
    pub alpha_flag: bool,
}

impl Target {
    pub fn name(&self) -> String {
        let a = match self.enc {
            Enc::Raw1(_) | Enc::Raw3 => "",
            _ => {
                if self.alpha_flag {
                    "+a"
                } else {
                    "-a"
                }
            }
        };
        format!("blp{}:{}{}", self.version, self.enc.name(), a)
    }
    pub fn to_lib(&self) -> BlpTarget {
        let ab = |a: u8| match a {
            0 => AlphaBits::NoAlpha,
            1 => AlphaBits::Bit1,
            4 => AlphaBits::Bit4,
            _ => AlphaBits::Bit8,
        };
        let old = |enc: Enc, has_alpha: bool| match enc {
            Enc::Raw1(a) => BlpOldFormat::Raw1 { alpha_bits: ab(a) },
            _ => BlpOldFormat::Jpeg { has_alpha },
        };
        let alg = DxtAlgorithm::RangeFit;
        match self.version {
            0 => BlpTarget::Blp0(old(self.enc, self.alpha_flag)),
            1 => BlpTarget::Blp1(old(self.enc, self.alpha_flag)),
            _ => BlpTarget::Blp2(match self.enc {
                Enc::Raw1(a) => Blp2Format::Raw1 { alpha_bits: ab(a) },
                Enc::Raw3 => Blp2Format::Raw3,
                Enc::Jpeg => Blp2Format::Jpeg { has_alpha: self.alpha_flag },
                Enc::Dxt1 => Blp2Format::Dxt1 { has_alpha: self.alpha_flag, compress_algorithm: alg },
                Enc::Dxt3 => Blp2Format::Dxt3 { has_alpha: self.alpha_flag, compress_algorithm: alg },
                Enc::Dxt5 => Blp2Format::Dxt5 { has_alpha: self.alpha_flag, compress_algorithm: alg },
            }),
        }
    }
}

/// all 25 targets of the statement
pub fn targets() -> Vec<Target> {
    let mut v = vec![];
    for version in [0u8, 1] {
        for a in [0u8, 1, 4, 8] {
            v.push(Target { version, enc: Enc::Raw1(a), alpha_flag: a != 0 });
        }
        for f in [false, true] {
            v.push(Target { version, enc: Enc::Jpeg, alpha_flag: f });
        }
    }
    for a in [0u8, 1, 4, 8] {
        v.push(Target { version: 2, enc: Enc::Raw1(a), alpha_flag: a != 0 });
    }
    v.push(Target { version: 2, enc: Enc::Raw3, alpha_flag: true });
    for enc in [Enc::Jpeg, Enc::Dxt1, Enc::Dxt3, Enc::Dxt5] {
        for f in [false, true] {
            v.push(Target { version: 2, enc, alpha_flag: f });
        }
    }
    v
}

pub fn target_by_name(n: &str) -> Option<Target> {
    targets().into_iter().find(|t| t.name() == n)
}

pub const FILTERS: [(&str, FilterType); 5] = [
    ("nearest", FilterType::Nearest),
    ("triangle", FilterType::Triangle),
    ("catmullrom", FilterType::CatmullRom),
    ("gaussian", FilterType::Gaussian),
    ("lanczos3", FilterType::Lanczos3),
];

pub const PIX_CLASSES: [&str; 8] = [
    "transparent",
    "solid",
    "le256colours",
    "gt256colours",
    "gradient",
    "alpharamp",
    "noise",
    "alphaedges",
];

pub const KINDS: [&str; 3] = ["rgba8", "rgb8", "luma8"];

#[derive(Clone, Debug, PartialEq, Eq)]
pub struct Case {
    pub w: u32,
    pub h: u32,
    /// index into KINDS
    pub kind: usize,
    /// index into PIX_CLASSES
    pub pix: usize,
    pub seed: u32,
    pub target: Target,
    pub mips: bool,
    /// index into FILTERS
    pub filter: usize,
    /// "" or which exclusion switch re-routed the generated case
    pub steered: &'static str,
    /// member of the fixed canary set for an excluded region
    pub canary: bool,
}

impl Case {
    pub fn to_json(&self) -> Value {
        json!({
            "w": self.w, "h": self.h,
            "kind": KINDS[self.kind],
            "pixels": {"class": PIX_CLASSES[self.pix], "seed": self.seed,
                       "builder": "c16/cases.rs:build_rgba (splitmix64)"},
            "target": self.target.name(),
            "mipmaps": self.mips,
            "filter": FILTERS[self.filter].0,
            "steered": self.steered,
            "canary": self.canary,
        })
    }
    pub fn from_json(v: &Value) -> Result<Case, String> {
        let s = |k: &str| v[k].as_str().ok_or(format!("missing {k}"));
        let pos = |arr: &[&str], x: &str| arr.iter().position(|a| *a == x).ok_or(format!("bad {x}"));
        Ok(Case {
            w: v["w"].as_u64().ok_or("w")? as u32,
            h: v["h"].as_u64().ok_or("h")? as u32,
            kind: pos(&KINDS, s("kind")?)?,
            pix: pos(&PIX_CLASSES, v["pixels"]["class"].as_str().ok_or("pixels.class")?)?,
            seed: v["pixels"]["seed"].as_u64().ok_or("pixels.seed")? as u32,
            target: target_by_name(s("target")?).ok_or("target")?,
            mips: v["mipmaps"].as_bool().ok_or("mipmaps")?,
            filter: FILTERS
                .iter()
                .position(|f| f.0 == v["filter"].as_str().unwrap_or(""))
                .ok_or("filter")?,
            steered: "",
            canary: v["canary"].as_bool().unwrap_or(false),
        })
    }
}

// ---------------------------------------------------------------------------------------
// pixels

pub struct SplitMix(pub u64);
impl SplitMix {
    pub fn next(&mut self) -> u64 {
        self.0 = self.0.wrapping_add(0x9e3779b97f4a7c15);
        let mut z = self.0;
        z = (z ^ (z >> 30)).wrapping_mul(0xbf58476d1ce4e5b9);
        z = (z ^ (z >> 27)).wrapping_mul(0x94d049bb133111eb);
        z ^ (z >> 31)
    }
    pub fn byte(&mut self) -> u8 {
        (self.next() >> 24) as u8
    }
    pub fn below(&mut self, n: u32) -> u32 {
        ((self.next() >> 32) * n as u64 >> 32) as u32
    }
}

const EDGE_ALPHAS: [u8; 12] = [0, 255, 1, 254, 127, 128, 15, 16, 17, 239, 240, 8];

/// RGBA pixels (row-major) for a pixel class
pub fn build_rgba(pix: usize, seed: u32, w: u32, h: u32) -> Vec<[u8; 4]> {
    let n = (w * h) as usize;
    let mut r = SplitMix(seed as u64 ^ 0xC16C_16C1_6C16_0000);
    let mut out = Vec::with_capacity(n);
    match PIX_CLASSES[pix] {
        "transparent" => {
            for _ in 0..n {
                out.push([r.byte(), r.byte(), r.byte(), 0]);
            }
        }
        "solid" => {
            let a = EDGE_ALPHAS[r.below(EDGE_ALPHAS.len() as u32) as usize];
            let c = [r.byte(), r.byte(), r.byte(), a];
            out.resize(n, c);
        }
        "le256colours" => {
            let k = 2 + r.below(255) as usize; // 2..=256
            let pal: Vec<[u8; 4]> = (0..k)
                .map(|_| {
                    let a = if r.below(3) == 0 {
                        EDGE_ALPHAS[r.below(EDGE_ALPHAS.len() as u32) as usize]
                    } else {
                        r.byte()
                    };
                    [r.byte(), r.byte(), r.byte(), a]
                })
                .collect();
            for _ in 0..n {
                out.push(pal[r.below(k as u32) as usize]);
            }
        }
        "gt256colours" => {
            let opaque = r.below(2) == 0;
            for _ in 0..n {
                out.push([r.byte(), r.byte(), r.byte(), if opaque { 255 } else { r.byte() }]);
            }
        }
        "gradient" => {
            let (dx, dy) = ((w.max(2) - 1), (h.max(2) - 1));
            for y in 0..h {
                for x in 0..w {
                    let rr = (x * 255 / dx) as u8;
                    let gg = (y * 255 / dy) as u8;
                    out.push([rr, gg, ((x + y) & 255) as u8, 255 - rr / 2 - gg / 2]);
                }
            }
        }
        "alpharamp" => {
            let base = r.byte() as usize;
            let cols: Vec<[u8; 3]> = (0..5).map(|_| [r.byte(), r.byte(), r.byte()]).collect();
            for i in 0..n {
                let c = cols[i % 5];
                out.push([c[0], c[1], c[2], ((i + base) & 255) as u8]);
            }
        }
        "noise" => {
            for _ in 0..n {
                out.push([r.byte(), r.byte(), r.byte(), r.byte()]);
            }
        }
        _ => {
            // alphaedges: alpha only from the values where quantisers disagree / pack asymmetrically
            let cols: Vec<[u8; 3]> = (0..7).map(|_| [r.byte(), r.byte(), r.byte()]).collect();
            for _ in 0..n {
                let c = cols[r.below(7) as usize];
                let a = EDGE_ALPHAS[r.below(EDGE_ALPHAS.len() as u32) as usize];
                out.push([c[0], c[1], c[2], a]);
            }
        }
    }
    out
}

pub fn build_image(c: &Case) -> DynamicImage {
    let px = build_rgba(c.pix, c.seed, c.w, c.h);
    match KINDS[c.kind] {
        "rgba8" => {
            let raw: Vec<u8> = px.iter().flatten().copied().collect();
            DynamicImage::ImageRgba8(RgbaImage::from_raw(c.w, c.h, raw).expect("rgba dims"))
        }
        "rgb8" => {
            let raw: Vec<u8> = px.iter().flat_map(|p| [p[0], p[1], p[2]]).collect();
            DynamicImage::ImageRgb8(RgbImage::from_raw(c.w, c.h, raw).expect("rgb dims"))
        }
        _ => {
            let raw: Vec<u8> = px.iter().map(|p| p[0]).collect();
            DynamicImage::ImageLuma8(GrayImage::from_raw(c.w, c.h, raw).expect("luma dims"))
        }
    }
}

// ---------------------------------------------------------------------------------------
// shape helpers, exclusion switches

pub fn floor_log2(v: u32) -> u32 {
    31 - v.max(1).leading_zeros()
}

/// region of open finding A: the library's chain stops when the smaller side reaches 1
pub fn in_short_chain_region(w: u32, h: u32, mips: bool) -> bool {
    mips && floor_log2(w) != floor_log2(h)
}

/// region of open finding B: the DXT parser sizes a level by ceil(w*h/16) blocks
pub fn in_dxt_partial_block_region(enc: Enc, w: u32, h: u32, mips: bool) -> bool {
    if !enc.is_dxt() {
        return false;
    }
    crate::blpcheck::expected_chain(w, h, mips).iter().any(|&(lw, lh)| {
        (lw as u64).div_ceil(4) * (lh as u64).div_ceil(4) != (lw as u64 * lh as u64).div_ceil(16)
    })
}

#[derive(Clone, Copy)]
pub struct Switches {
    pub exclude_short_chain: bool,
    pub exclude_dxt_partial_blocks: bool,
}

impl Switches {
    pub fn from_env() -> Switches {
        // Both findings these switches steered around have been fixed in /repo (see
        // known_findings.json): the switches now default to OFF so the formerly excluded
        // regions are explored at full depth. Setting the variable to "1" re-enables one.
        let on = |k: &str| std::env::var(k).map(|v| v == "1").unwrap_or(false);
        Switches {
            exclude_short_chain: on("VERIF_C16_EXCLUDE_SHORT_CHAIN"),
            exclude_dxt_partial_blocks: on("VERIF_C16_EXCLUDE_DXT_PARTIAL"),
        }
    }
}

/// Re-route a generated case out of the excluded regions (deterministic).
pub fn steer(mut c: Case, sw: Switches) -> Case {
    if sw.exclude_short_chain && in_short_chain_region(c.w, c.h, c.mips) {
        c.steered = "short-chain";
        if (c.w + c.h) % 2 == 1 {
            // keep the extreme aspect ratio, drop the mipmaps
            c.mips = false;
        } else {
            // keep mipmaps and a non-square shape: lift the smaller side into the same octave
            let l = floor_log2(c.w.max(c.h));
            let lift = |s: u32| (1u32 << l) | (s & ((1u32 << l) - 1));
            if c.w < c.h {
                c.w = lift(c.w)
            } else {
                c.h = lift(c.h)
            }
        }
    }
    if sw.exclude_dxt_partial_blocks && in_dxt_partial_block_region(c.target.enc, c.w, c.h, c.mips) {
        c.steered = if c.steered.is_empty() { "dxt-partial" } else { "short-chain+dxt-partial" };
        // try multiples of four first (keeps non-power-of-two shapes), then the power-of-two square
        let (w4, h4) = (c.w.div_ceil(4) * 4, c.h.div_ceil(4) * 4);
        if !in_dxt_partial_block_region(c.target.enc, w4, h4, c.mips)
            && !(sw.exclude_short_chain && in_short_chain_region(w4, h4, c.mips))
        {
            c.w = w4;
            c.h = h4;
        } else {
            let s = c.w.max(c.h).next_power_of_two();
            c.w = s;
            c.h = s;
        }
    }
    c
}

pub fn shape_class(w: u32, h: u32) -> &'static str {
    let p2 = |v: u32| v.is_power_of_two();
    match (w, h) {
        (1, 1) => "1x1",
        (1, _) => "1xN",
        (_, 1) => "Nx1",
        _ if w == h && p2(w) => "sq-pow2",
        _ if w == h => "sq-npot",
        _ if p2(w) && p2(h) => "rect-pow2",
        _ => "rect-npot",
    }
}

pub fn size_class(w: u32, h: u32) -> &'static str {
    match w.max(h) {
        0..=8 => "le8",
        9..=64 => "le64",
        65..=160 => "le160",
        _ => "le512",
    }
}

// ---------------------------------------------------------------------------------------
// deterministic grid: every essential class by construction, whatever the seed

pub const GRID_SHAPES: [(u32, u32); 42] = [
    // square power of two
    (1, 1), (2, 2), (4, 4), (8, 8), (16, 16), (32, 32), (64, 64),
    // square non-power-of-two (odd, primes, 2^k±1)
    (3, 3), (5, 5), (7, 7), (12, 12), (31, 31), (33, 33), (63, 63),
    // 1×N / N×1
    (1, 2), (1, 7), (1, 64), (2, 1), (7, 1), (64, 1),
    // rectangular power of two
    (8, 4), (4, 8), (64, 32), (32, 64), (16, 4),
    // rectangular non-power-of-two, both sides in the same octave
    (6, 5), (7, 4), (5, 7), (12, 9), (13, 11), (17, 31), (61, 37), (63, 33), (48, 40), (20, 28),
    // rectangular, sides in different octaves
    (8, 2), (5, 8), (9, 3), (37, 3), (24, 10), (3, 50), (2, 16),
];

/// fixed canary shapes for finding B (DXT levels with partially filled blocks)
pub const DXT_CANARY_SHAPES: [(u32, u32, bool); 8] = [
    (5, 5, false), (6, 6, false), (8, 2, false), (3, 7, false),
    (12, 12, true), (20, 20, true), (7, 5, true), (2, 16, false),
];

pub fn grid(sw: Switches) -> Vec<Case> {
    let ts = targets();
    let mut v = vec![];
    let mut k = 0usize;
    for (si, &(w, h)) in GRID_SHAPES.iter().enumerate() {
        for (ti, t) in ts.iter().enumerate() {
            for mips in [false, true] {
                k += 1;
                let mut c = Case {
                    w,
                    h,
                    kind: if k % 11 == 0 { 1 } else if k % 17 == 0 { 2 } else { 0 },
                    pix: (si + ti * 3 + mips as usize) % PIX_CLASSES.len(),
                    seed: (k as u32).wrapping_mul(2654435761),
                    target: *t,
                    mips,
                    filter: (si + ti) % FILTERS.len(),
                    steered: "",
                    canary: false,
                };
                // inside an excluded region the grid keeps a *fixed* canary subset:
                // short chain → every target for 4 shapes; other shapes only via the random part
                let a = in_short_chain_region(w, h, mips);
                let b = in_dxt_partial_block_region(t.enc, w, h, mips);
                if (a && sw.exclude_short_chain) || (b && sw.exclude_dxt_partial_blocks) {
                    let keep_a = a && matches!((w, h), (8, 2) | (5, 8) | (37, 3) | (1, 64) | (64, 1));
                    let keep_b = b && !a && DXT_CANARY_SHAPES.contains(&(w, h, mips));
                    if keep_a || keep_b {
                        c.canary = true;
                    } else {
                        continue;
                    }
                }
                v.push(c);
            }
        }
    }
    // DXT canaries that are not grid shapes
    for &(w, h, mips) in DXT_CANARY_SHAPES.iter() {
        for t in ts.iter().filter(|t| t.enc.is_dxt()) {
            k += 1;
            let c = Case {
                w,
                h,
                kind: 0,
                pix: k % PIX_CLASSES.len(),
                seed: (k as u32).wrapping_mul(2246822519),
                target: *t,
                mips,
                filter: k % FILTERS.len(),
                steered: "",
                canary: true,
            };
            if !v.iter().any(|o: &Case| (o.w, o.h, o.mips, o.target) == (w, h, mips, *t)) {
                v.push(c);
            }
        }
    }
    v
}

// ---------------------------------------------------------------------------------------
// random volume

fn dim(max: u32) -> BoxedStrategy<u32> {
    let pows: Vec<u32> = (0..=9).map(|i| 1u32 << i).filter(|p| *p <= max).collect();
    let mid_hi = max.min(160);
    let mut alts: Vec<(u32, BoxedStrategy<u32>)> = vec![
        (8, (1u32..=16).boxed()),
        (8, (1u32..=64).boxed()),
        (4, proptest::sample::select(pows).boxed()),
    ];
    if mid_hi > 64 {
        alts.push((3, (65u32..=mid_hi).boxed()));
    }
    if max > 160 {
        alts.push((1, (161u32..=max).boxed()));
    }
    proptest::strategy::Union::new_weighted(alts).boxed()
}

/// `max_dim`: 160 quick, 512 thorough
pub fn strategy(max_dim: u32, sw: Switches) -> impl Strategy<Value = Case> {
    let nt = targets().len();
    (
        dim(max_dim),
        dim(max_dim),
        0u8..8,                        // shape mode
        0..nt,                         // target
        any::<bool>(),                 // mips
        0..FILTERS.len(),
        0..PIX_CLASSES.len(),
        any::<u32>(),
        prop_oneof![6 => Just(0usize), 1 => Just(1usize), 1 => Just(2usize)],
    )
        .prop_map(move |(w, h0, mode, ti, mips, filter, pix, seed, kind)| {
            let h = match mode {
                0 | 1 => w,                                   // square
                2 => (w / 2 + h0 % (w / 2 + 1)).max(1),       // same octave or the one below
                _ => h0,
            };
            // keep the big×big corner affordable: area ≤ 512×512 anyway; nothing to do
            let c = Case {
                w,
                h,
                kind,
                pix,
                seed,
                target: targets()[ti],
                mips,
                filter,
                steered: "",
                canary: false,
            };
            steer(c, sw)
        })
}
