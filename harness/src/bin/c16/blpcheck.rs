//! `blpcheck` — independent structural judge for encoded BLP files.
//!
//! Nothing in this module calls into `wow_blp`. It reads the encoded bytes itself, following
//! the published layout of the container (BLP0/BLP1: magic, u32 content, u32 alphaBits, u32 w,
//! u32 h, u32 extra, u32 hasMipmaps, [BLP1: u32 offsets[16], u32 sizes[16]]; BLP2: magic,
//! u32 content, u8 compression, u8 alphaDepth, u8 alphaType, u8 hasMips, u32 w, u32 h,
//! u32 offsets[16], u32 sizes[16]; direct content: 256×u32 palette 0x00BBGGRR; JPEG content:
//! u32 jpegHeaderSize + header bytes), and computes what the tables must look like for a
//! given source image / target.

use std::ops::Range;

#[derive(Clone, Copy, PartialEq, Eq, Debug)]
pub enum Enc {
    /// palettised, alpha depth 0/1/4/8
    Raw1(u8),
    Raw3,
    Jpeg,
    Dxt1,
    Dxt3,
    Dxt5,
}

impl Enc {
    pub fn name(self) -> String {
        match self {
            Enc::Raw1(a) => format!("raw1a{a}"),
            Enc::Raw3 => "raw3".into(),
            Enc::Jpeg => "jpeg".into(),
            Enc::Dxt1 => "dxt1".into(),
            Enc::Dxt3 => "dxt3".into(),
            Enc::Dxt5 => "dxt5".into(),
        }
    }
    pub fn is_dxt(self) -> bool {
        matches!(self, Enc::Dxt1 | Enc::Dxt3 | Enc::Dxt5)
    }
}

/// The chain demanded by the property: level i is max(1, w>>i) × max(1, h>>i), ending at 1×1.
/// Without mipmaps only level 0 exists.
pub fn expected_chain(w: u32, h: u32, mips: bool) -> Vec<(u32, u32)> {
    let mut v = vec![(w, h)];
    if mips {
        let mut i = 1u32;
        loop {
            let (pw, ph) = *v.last().unwrap();
            if (pw <= 1 && ph <= 1) || v.len() >= 16 {
                break;
            }
            v.push(((w >> i).max(1), (h >> i).max(1)));
            i += 1;
        }
    }
    v
}

/// Exact byte count of one stored level; `None` where the size is data dependent (JPEG).
pub fn level_bytes(enc: Enc, w: u32, h: u32) -> Option<u64> {
    let n = w as u64 * h as u64;
    let blocks = (w as u64).div_ceil(4) * (h as u64).div_ceil(4);
    match enc {
        Enc::Raw1(a) => Some(n + (n * a as u64).div_ceil(8)),
        Enc::Raw3 => Some(4 * n),
        Enc::Jpeg => None,
        Enc::Dxt1 => Some(8 * blocks),
        Enc::Dxt3 | Enc::Dxt5 => Some(16 * blocks),
    }
}

#[derive(Clone, Debug)]
pub struct RawHeader {
    pub version: u8,
    pub content: u32,
    /// BLP2 only
    pub compression: Option<u8>,
    pub alpha_bits: u32,
    /// BLP2 only
    pub alpha_type: Option<u8>,
    pub has_mips: u32,
    /// BLP0/1 only
    #[allow(dead_code)]
    pub extra: Option<u32>,
    pub w: u32,
    pub h: u32,
    /// BLP1/2 only
    pub table: Option<([u32; 16], [u32; 16])>,
    /// bytes occupied by the fixed header
    pub len: usize,
}

fn u32_at(b: &[u8], at: usize) -> Result<u32, String> {
    b.get(at..at + 4)
        .map(|s| u32::from_le_bytes(s.try_into().unwrap()))
        .ok_or_else(|| format!("file too short for u32 at {at} (len {})", b.len()))
}

pub fn read_header(b: &[u8]) -> Result<RawHeader, String> {
    let magic = b.get(0..4).ok_or("file shorter than the magic")?;
    let version = match magic {
        b"BLP0" => 0u8,
        b"BLP1" => 1,
        b"BLP2" => 2,
        m => return Err(format!("magic {:02x?}", m)),
    };
    let content = u32_at(b, 4)?;
    let mut at;
    let (compression, alpha_bits, alpha_type, mut has_mips, mut extra) = if version == 2 {
        let f = b.get(8..12).ok_or("file too short for BLP2 flags")?;
        at = 12;
        (Some(f[0]), f[1] as u32, Some(f[2]), f[3] as u32, None)
    } else {
        at = 12;
        (None, u32_at(b, 8)?, None, 0, None)
    };
    let w = u32_at(b, at)?;
    let h = u32_at(b, at + 4)?;
    at += 8;
    if version < 2 {
        extra = Some(u32_at(b, at)?);
        has_mips = u32_at(b, at + 4)?;
        at += 8;
    }
    let table = if version >= 1 {
        let mut o = [0u32; 16];
        let mut s = [0u32; 16];
        for i in 0..16 {
            o[i] = u32_at(b, at + 4 * i)?;
            s[i] = u32_at(b, at + 64 + 4 * i)?;
        }
        at += 128;
        Some((o, s))
    } else {
        None
    };
    Ok(RawHeader {
        version,
        content,
        compression,
        alpha_bits,
        alpha_type,
        has_mips,
        extra,
        w,
        h,
        table,
        len: at,
    })
}

/// What the judge expects of the file, derived from the *request* (source image + target), not
/// from anything the library computed.
#[derive(Clone, Copy, Debug)]
pub struct Expect {
    pub version: u8,
    pub enc: Enc,
    pub w: u32,
    pub h: u32,
    pub mips: bool,
}

/// (signature, message)
pub type Finding = (String, String);

#[derive(Debug, Default)]
pub struct Layout {
    /// number of levels the file actually stores (leading non-zero sizes / external files)
    pub stored_levels: usize,
    /// number of levels the property demands
    pub expected_levels: usize,
    /// chain stops exactly where the smaller side reaches 1 (characteristic of one defect)
    pub short_at_min_side: bool,
    /// palette bytes (direct content)
    pub palette: Option<Range<usize>>,
    /// byte range of each stored level inside the main file (BLP1/2); empty for BLP0
    pub levels: Vec<Range<usize>>,
    /// end of the JPEG header area / palette = first byte where level data may start
    pub data_start: usize,
}

fn floor_log2(v: u32) -> u32 {
    31 - v.max(1).leading_zeros()
}

/// Judge header fields, mip chain, size and offset tables of an encoded file.
/// `externals`: the external level files for BLP0 (level 0 first).
pub fn check_layout(
    file: &[u8],
    externals: Option<&[Vec<u8>]>,
    ex: &Expect,
) -> (Layout, Vec<Finding>) {
    let mut out: Vec<Finding> = vec![];
    let mut lay = Layout::default();
    let chain = expected_chain(ex.w, ex.h, ex.mips);
    lay.expected_levels = chain.len();
    let hd = match read_header(file) {
        Ok(h) => h,
        Err(e) => {
            out.push(("header-unreadable".into(), e));
            return (lay, out);
        }
    };
    let mut field = |name: &str, got: u64, want: u64| {
        if got != want {
            out.push((
                format!("header-field:{name}"),
                format!("header field {name} = {got}, expected {want}"),
            ));
        }
    };
    field("version", hd.version as u64, ex.version as u64);
    field("width", hd.w as u64, ex.w as u64);
    field("height", hd.h as u64, ex.h as u64);
    field(
        "content",
        hd.content as u64,
        if ex.enc == Enc::Jpeg { 0 } else { 1 },
    );
    field("has_mipmaps!=0", (hd.has_mips != 0) as u64, ex.mips as u64);
    if let Enc::Raw1(a) = ex.enc {
        field("alpha_bits", hd.alpha_bits as u64, a as u64);
    }
    if ex.version == 2 {
        let want_comp = match ex.enc {
            Enc::Jpeg => 0u64,
            Enc::Raw1(_) => 1,
            Enc::Dxt1 | Enc::Dxt3 | Enc::Dxt5 => 2,
            Enc::Raw3 => 3,
        };
        field("compression", hd.compression.unwrap_or(255) as u64, want_comp);
        let want_at = match ex.enc {
            Enc::Dxt1 => Some(0u64),
            Enc::Dxt3 => Some(1),
            Enc::Dxt5 => Some(7),
            _ => None,
        };
        if let Some(w) = want_at {
            field("alpha_type", hd.alpha_type.unwrap_or(255) as u64, w);
        }
    }

    // where level data may start
    let flen = file.len() as u64;
    if ex.enc == Enc::Jpeg {
        match u32_at(file, hd.len) {
            Ok(js) => {
                let end = hd.len as u64 + 4 + js as u64;
                if end > flen {
                    out.push((
                        "jpeg-header-outside-file".into(),
                        format!("jpeg header size {js} at {} exceeds file length {flen}", hd.len),
                    ));
                    lay.data_start = file.len();
                } else {
                    lay.data_start = end as usize;
                }
            }
            Err(e) => {
                out.push(("jpeg-header-outside-file".into(), e));
                return (lay, out);
            }
        }
    } else {
        let end = hd.len + 1024;
        if end > file.len() {
            out.push((
                "palette-outside-file".into(),
                format!("palette would end at {end}, file length {flen}"),
            ));
            return (lay, out);
        }
        lay.palette = Some(hd.len..end);
        lay.data_start = end;
    }

    let enc = ex.enc;
    let sizes_of_stored: Vec<u64>;
    match (hd.table, externals) {
        (Some((offs, sizes)), _) => {
            let stored = sizes.iter().take_while(|s| **s != 0).count();
            lay.stored_levels = stored;
            for i in stored..16 {
                if sizes[i] != 0 {
                    out.push((
                        "size-table:entry-after-gap".into(),
                        format!("sizes[{i}] = {} after a zero entry at {stored}", sizes[i]),
                    ));
                    break;
                }
            }
            sizes_of_stored = sizes[..stored].iter().map(|s| *s as u64).collect();
            // offsets / sizes inside the file, after the header areas, pairwise disjoint
            let mut spans: Vec<(u64, u64, usize)> = vec![];
            for i in 0..stored {
                let (o, s) = (offs[i] as u64, sizes[i] as u64);
                if o + s > flen {
                    out.push((
                        "offset-table:level-outside-file".into(),
                        format!("level {i}: offset {o} + size {s} > file length {flen}"),
                    ));
                    continue;
                }
                if (o as usize) < lay.data_start {
                    out.push((
                        "offset-table:level-inside-header-area".into(),
                        format!("level {i}: offset {o} < start of data {}", lay.data_start),
                    ));
                }
                spans.push((o, o + s, i));
                lay.levels.push(o as usize..(o + s) as usize);
            }
            let mut sorted = spans.clone();
            sorted.sort();
            for p in sorted.windows(2) {
                if p[1].0 < p[0].1 {
                    out.push((
                        "offset-table:levels-overlap".into(),
                        format!(
                            "level {} [{}, {}) overlaps level {} [{}, {})",
                            p[0].2, p[0].0, p[0].1, p[1].2, p[1].0, p[1].1
                        ),
                    ));
                    break;
                }
            }
            if spans.len() != stored {
                lay.levels.clear(); // unusable for pixel checks
            }
        }
        (None, Some(ext)) => {
            lay.stored_levels = ext.len();
            sizes_of_stored = ext.iter().map(|e| e.len() as u64).collect();
            // the main file must end with the palette / jpeg header (+2 legacy pad bytes)
            let tail = flen as i64 - lay.data_start as i64;
            let ok_tail = if enc == Enc::Jpeg { tail == 0 || tail == 2 } else { tail == 0 };
            if !ok_tail {
                out.push((
                    "blp0-main-file-trailing-bytes".into(),
                    format!("{tail} bytes after the header areas of a BLP0 main file"),
                ));
            }
        }
        (None, None) => {
            out.push((
                "blp0-without-external-levels".into(),
                "BLP0 file and no external level files".into(),
            ));
            return (lay, out);
        }
    }

    // chain length
    let (st, exl) = (lay.stored_levels, lay.expected_levels);
    if st < exl {
        let min_side_levels = if ex.mips {
            floor_log2(ex.w.min(ex.h)) as usize + 1
        } else {
            1
        };
        lay.short_at_min_side = ex.mips && st == min_side_levels && st >= 1;
        let last = if st >= 1 { chain[st - 1] } else { (0, 0) };
        out.push((
            if lay.short_at_min_side {
                "mip-chain-short:stops-when-one-side-reaches-1".into()
            } else {
                "mip-chain-short:other".into()
            },
            format!(
                "{}x{} with mipmaps stores {st} level(s), last {}x{}; the chain down to 1x1 has {exl}",
                ex.w, ex.h, last.0, last.1
            ),
        ));
    } else if st > exl {
        out.push((
            if ex.mips { "mip-chain-long" } else { "levels-stored-without-mipmaps" }.into(),
            format!("stores {st} level(s), expected {exl}"),
        ));
    }
    // per-level sizes
    for i in 0..st.min(exl) {
        let (lw, lh) = chain[i];
        match level_bytes(enc, lw, lh) {
            Some(want) => {
                if sizes_of_stored[i] != want {
                    out.push((
                        format!("size-table:level-size-wrong:{}", enc.name()),
                        format!(
                            "level {i} ({lw}x{lh}) stored size {}, expected {want}",
                            sizes_of_stored[i]
                        ),
                    ));
                    break;
                }
            }
            None => {
                if sizes_of_stored[i] == 0 {
                    out.push((
                        "size-table:empty-jpeg-level".into(),
                        format!("level {i} ({lw}x{lh}) has size 0"),
                    ));
                    break;
                }
            }
        }
    }
    (lay, out)
}

/// Independently decoded palettised level: (r,g,b,q) per pixel, q = stored alpha code.
pub struct Raw1Decoded {
    pub rgb: Vec<[u8; 3]>,
    /// raw alpha code per pixel (0..2^depth-1); empty for depth 0
    pub q: Vec<u8>,
}

/// Decode a palettised level from raw bytes: n index bytes, then the alpha bit field packed
/// LSB-first in pixel order (documented format).
pub fn decode_raw1(palette: &[u8], level: &[u8], n: usize, depth: u8) -> Result<Raw1Decoded, String> {
    if palette.len() != 1024 {
        return Err(format!("palette has {} bytes", palette.len()));
    }
    let an = (n * depth as usize).div_ceil(8);
    if level.len() != n + an {
        return Err(format!("level has {} bytes, expected {}", level.len(), n + an));
    }
    let (idx, al) = level.split_at(n);
    let rgb = idx
        .iter()
        .map(|&i| {
            let p = &palette[i as usize * 4..i as usize * 4 + 4];
            [p[0], p[1], p[2]]
        })
        .collect();
    let q = match depth {
        0 => vec![],
        1 => (0..n).map(|i| (al[i / 8] >> (i % 8)) & 1).collect(),
        4 => (0..n).map(|i| (al[i / 2] >> (4 * (i % 2))) & 0x0F).collect(),
        8 => al.to_vec(),
        d => return Err(format!("alpha depth {d}")),
    };
    Ok(Raw1Decoded { rgb, q })
}

/// Which quantisers map source alpha `a` to code `q` at `depth` bits.
/// bit0 = truncation (a >> (8-d)), bit1 = rounding (round(a·max/255)), bit2 = floor(a·max/255),
/// bit3 = ceil(a·max/255). 0 = none: not a quantisation of `a` by any of the accepted rules.
pub fn alpha_quantisers(a: u8, q: u8, depth: u8) -> u8 {
    let max = ((1u32 << depth) - 1) as u32;
    let a32 = a as u32;
    let trunc = a32 >> (8 - depth as u32);
    let round = (a32 * max * 2 + 255) / (255 * 2);
    let floor = a32 * max / 255;
    let ceil = (a32 * max).div_ceil(255);
    let q = q as u32;
    (q == trunc) as u8 | ((q == round) as u8) << 1 | ((q == floor) as u8) << 2 | ((q == ceil) as u8) << 3
}

/// 8-bit expansions of an alpha code a decoder may legitimately produce
pub fn alpha_expansions(q: u8, depth: u8) -> Vec<u8> {
    match depth {
        1 => vec![if q != 0 { 255 } else { 0 }],
        4 => vec![q * 17, q << 4],
        8 => vec![q],
        _ => vec![],
    }
}

#[cfg(test)]
mod tests {
    use super::*;
    #[test]
    fn chain() {
        assert_eq!(expected_chain(8, 2, true), vec![(8, 2), (4, 1), (2, 1), (1, 1)]);
        assert_eq!(expected_chain(5, 5, true), vec![(5, 5), (2, 2), (1, 1)]);
        assert_eq!(expected_chain(1, 1, true), vec![(1, 1)]);
        assert_eq!(expected_chain(7, 3, false), vec![(7, 3)]);
    }
}
