//! C07 — rebuilding an archive preserves its file set and contents.
use proptest::prelude::*;
use serde::{Deserialize, Serialize};
use serde_json::json;
use std::collections::BTreeSet;
use vcheck::engine::{self, pt, CaseResult, Check};
use vcheck::gens::mpq::*;
use vcheck::vfail;
use wow_mpq::{compare_archives, rebuild_archive, Archive, FormatVersion, RebuildOptions};

static METHODS: [u8; 5] = [M_NONE, M_ZLIB, M_BZIP2, M_LZMA, M_SPARSE];

#[derive(Clone, Debug, Serialize, Deserialize)]
struct Opts {
    target: Option<u8>,
    preserve_format: bool,
    override_compression: Option<u8>,
    override_block_size: Option<u16>,
    skip_encrypted: bool,
    skip_signatures: bool,
    verify: bool,
    preserve_order: bool,
    list_only: bool,
}

#[derive(Clone, Debug, Serialize, Deserialize)]
struct Case {
    src: ArchiveSpec,
    opts: Opts,
    /// the source's `(listfile)` is a user-supplied one (ListfileOption::External) that lists
    /// every file but — like Blizzard's own archives — not itself
    #[serde(default)]
    ext_listfile: bool,
    /// 512-byte units of foreign bytes in front of the source archive (an archive embedded behind
    /// a stub / user data: the header is found at a 512-byte boundary, every position is relative
    /// to it)
    #[serde(default)]
    prefix_units: u8,
}

fn fv(v: u8) -> FormatVersion {
    match v {
        1 => FormatVersion::V1,
        2 => FormatVersion::V2,
        3 => FormatVersion::V3,
        _ => FormatVersion::V4,
    }
}
fn fv_num(v: FormatVersion) -> u8 {
    match v {
        FormatVersion::V1 => 1,
        FormatVersion::V2 => 2,
        FormatVersion::V3 => 3,
        FormatVersion::V4 => 4,
    }
}

fn err_kind(e: &wow_mpq::Error) -> String {
    format!("{e:?}").chars().take_while(|c| c.is_alphanumeric()).collect()
}

fn is_special(n: &str) -> bool {
    matches!(n, "(listfile)" | "(attributes)" | "(signature)" | "(strong signature)")
}

fn src_params() -> GenParams {
    GenParams {
        versions: (1, 4),
        max_shift: 3,
        methods: &METHODS,
        max_files: 8,
        allow_enc: true,
        allow_crcs: true,
        allow_attrs: true,
        many_tiny: false,
    }
}

fn opts_strategy() -> impl Strategy<Value = Opts> {
    (
        prop_oneof![2 => Just(None), 4 => (1u8..=4).prop_map(Some)],
        any::<bool>(),
        prop_oneof![3 => Just(None), 1 => Just(Some(0u8)), 1 => Just(Some(M_ZLIB)), 1 => Just(Some(M_BZIP2)), 1 => Just(Some(M_LZMA))],
        prop_oneof![3 => Just(None), 2 => (0u16..=6).prop_map(Some)],
        prop_oneof![3 => Just(false), 1 => Just(true)],
        any::<bool>(),
        any::<bool>(),
        any::<bool>(),
        prop_oneof![9 => Just(false), 1 => Just(true)],
    )
        .prop_map(
            |(target, preserve_format, oc, obs, skip_encrypted, skip_signatures, verify, preserve_order, list_only)| Opts {
                target,
                preserve_format,
                override_compression: oc,
                override_block_size: obs,
                skip_encrypted,
                skip_signatures,
                verify,
                preserve_order,
                list_only,
            },
        )
}

fn to_opts(o: &Opts) -> RebuildOptions {
    RebuildOptions {
        preserve_format: o.preserve_format,
        target_format: o.target.map(fv),
        preserve_order: o.preserve_order,
        skip_encrypted: o.skip_encrypted,
        skip_signatures: o.skip_signatures,
        verify: o.verify,
        override_compression: o.override_compression,
        override_block_size: o.override_block_size,
        list_only: o.list_only,
    }
}

fn check_case(check: &Check, case: &Case, origin: &str) -> CaseResult {
    let spec = &case.src;
    let o = &case.opts;
    let dir = engine::scratch("c07");
    let src = dir.path().join("src.mpq");
    let dst = dir.path().join("dst.mpq");
    let ext = case.ext_listfile && spec.listfile;
    let builder = if ext {
        let lf = dir.path().join("names.txt");
        let text: String = spec.files.iter().map(|f| format!("{}\r\n", f.name)).collect();
        std::fs::write(&lf, text).map_err(|e| engine::Fail::new("harness:io", e.to_string()))?;
        spec.builder().listfile_option(wow_mpq::ListfileOption::External(lf))
    } else {
        spec.builder()
    };
    if engine::guard("build", || builder.build(&src))?.is_err() {
        check.bump("discard_source_build_err", 1);
        return Ok(());
    }
    if case.prefix_units > 0 {
        let mut b = vec![0xA5u8; case.prefix_units as usize * 512];
        b.extend(std::fs::read(&src).map_err(|e| engine::Fail::new("harness:io", e.to_string()))?);
        std::fs::write(&src, b).map_err(|e| engine::Fail::new("harness:io", e.to_string()))?;
        check.bump("source_behind_prefix", 1);
    }
    // the source itself must read back correctly, otherwise the case is discarded (C01's business)
    let sector = spec.sector();
    {
        let mut a = match Archive::open(&src) {
            Ok(a) => a,
            Err(_) => {
                check.bump("discard_source_unreadable", 1);
                return Ok(());
            }
        };
        for (i, f) in spec.files.iter().enumerate() {
            match engine::guard("src-read", || a.read_file(&f.name)) {
                Ok(Ok(d)) if d == spec.content(i) => {}
                _ => {
                    check.bump("discard_source_unreadable", 1);
                    return Ok(());
                }
            }
        }
    }
    let any_enc = spec.files.iter().any(|f| f.enc != Enc::None);
    let any_multi = spec.files.iter().enumerate().any(|(i, _)| spec.content(i).len() > sector);
    let tgt_v = o.target.unwrap_or(if o.preserve_format { spec.version } else { 4 });
    let class = format!(
        "{origin}:V{}→V{}:off{}:lf{}{}:at{}:enc{}:multi{}:oc{:?}:obs{}:skipenc{}:verify{}:lo{}",
        spec.version,
        tgt_v,
        (case.prefix_units > 0) as u8,
        spec.listfile as u8,
        if ext { "x" } else { "" },
        spec.has_attributes() as u8,
        any_enc as u8,
        any_multi as u8,
        o.override_compression,
        o.override_block_size.is_some() as u8,
        o.skip_encrypted as u8,
        o.verify as u8,
        o.list_only as u8
    );
    let nontrivial = spec.version != tgt_v
        || spec.version >= 3
        || any_enc
        || any_multi
        || o.override_compression.is_some()
        || o.override_block_size.is_some();
    check.count(&class, nontrivial);
    check.sample(&format!("{}{}{}", spec.version, tgt_v, any_enc), || {
        json!({"source": spec.summary(), "options": o})
    });

    let res = engine::guard("rebuild_archive", || rebuild_archive(&src, &dst, to_opts(o), None))?;
    let summary = match res {
        Ok(s) => s,
        Err(e) => {
            // an error is not silent loss
            check.bump(&format!("rebuild_err:{}", err_kind(&e)), 1);
            if o.verify && !o.list_only {
                // … but the verification step must not reject a rebuild that is in fact complete:
                // the same rebuild without verification, judged against the ground truth
                let dst2 = dir.path().join("dst-noverify.mpq");
                let mut o2 = to_opts(o);
                o2.verify = false;
                if let Ok(Ok(_)) = engine::guard("rebuild_archive(verify off)", || rebuild_archive(&src, &dst2, o2, None)) {
                    let complete = match Archive::open(&dst2) {
                        Ok(mut t) => spec.listfile && spec.files.iter().enumerate().all(|(i, f)| {
                            (o.skip_encrypted && f.enc != Enc::None) || matches!(t.read_file(&f.name), Ok(d) if d == spec.content(i))
                        }),
                        Err(_) => false,
                    };
                    if complete {
                        check.bump("verify_control_runs", 1);
                        vfail!(
                            format!("verify-rejects-complete-rebuild:{}", err_kind(&e)),
                            "rebuild with verify=true fails ({e}) although the same rebuild with verify=false succeeds and every source file reads bit-identically from its target — opts {o:?} — {}",
                            spec.summary()
                        );
                    }
                }
            }
            return Ok(());
        }
    };
    check.bump("rebuild_ok", 1);
    let tables = if spec.version >= 3 { "hetbet" } else { "classic" };
    let lf = if spec.listfile { "listfile" } else { "nolistfile" };

    // expected set
    let mut expected: Vec<(String, Vec<u8>)> = vec![];
    let mut n_listed = 0usize;
    let mut src_listed: Option<BTreeSet<String>> = None;
    if spec.listfile {
        for (i, f) in spec.files.iter().enumerate() {
            n_listed += 1;
            if o.skip_encrypted && f.enc != Enc::None {
                continue;
            }
            expected.push((f.name.replace('/', "\\"), spec.content(i)));
        }
        n_listed += 1 + spec.has_attributes() as usize;
        if ext {
            // what the source lists is taken from the read-only API (whether special files
            // that are not named in a user-supplied listfile are listed is not this check's business)
            let mut a = Archive::open(&src).map_err(|e| engine::Fail::new("harness:source-reopen", e.to_string()))?;
            let l = a.list().map_err(|e| engine::Fail::new("harness:source-list", e.to_string()))?;
            n_listed = l.len();
            src_listed = Some(l.into_iter().map(|e| e.name.to_ascii_uppercase().replace('/', "\\")).collect());
            check.bump("source_with_external_listfile", 1);
        }
    }
    if summary.extracted_files + summary.skipped_files != summary.source_files {
        vfail!(
            "summary-counts-do-not-add-up",
            "extracted {} + skipped {} != source_files {} — {}",
            summary.extracted_files,
            summary.skipped_files,
            summary.source_files,
            spec.summary()
        );
    }
    if fv_num(summary.target_format) != tgt_v {
        vfail!("summary-target-format-wrong", "summary says {:?}, options ask for V{tgt_v}", summary.target_format);
    }
    if o.list_only {
        if dst.exists() {
            vfail!("list-only-wrote-target", "list_only rebuild created the target file");
        }
        // a dry run announces what the real run does: the same options without list_only must report the same counts
        let dst3 = dir.path().join("real-run.mpq");
        let mut o3 = to_opts(o);
        o3.list_only = false;
        o3.verify = false;
        if let Ok(Ok(real)) = engine::guard("rebuild_archive(real run of a dry run)", || rebuild_archive(&src, &dst3, o3, None)) {
            check.bump("dry_run_compared_with_real_run", 1);
            if (summary.source_files, summary.extracted_files, summary.skipped_files) != (real.source_files, real.extracted_files, real.skipped_files) {
                vfail!(
                    "dry-run-summary-differs-from-real-run",
                    "list_only reports source/extracted/skipped = {}/{}/{}, the same options without list_only report {}/{}/{} — opts {o:?} — {}",
                    summary.source_files,
                    summary.extracted_files,
                    summary.skipped_files,
                    real.source_files,
                    real.extracted_files,
                    real.skipped_files,
                    spec.summary()
                );
            }
        }
        return Ok(());
    }
    if !spec.listfile {
        // without a listfile the source has no listed names: only silent loss can be judged
        // files the options explicitly exclude (skip_encrypted) are not expected in the target
        let expected_files: Vec<&FileSpec> = spec.files.iter().filter(|f| !(o.skip_encrypted && f.enc != Enc::None)).collect();
        let total = expected_files.len();
        if total > 0 {
            let mut t = Archive::open(&dst).map_err(|e| engine::Fail::new("target-unopenable", format!("{e}")))?;
            let present = expected_files.iter().filter(|f| matches!(t.find_file(&f.name), Ok(Some(_)))).count();
            if present < total {
                vfail!(
                    format!("rebuild-ok-but-files-lost:{lf}:{tables}"),
                    "rebuild returned Ok(summary {:?}) but only {present} of {total} source files are in the target — {}",
                    summary,
                    spec.summary()
                );
            }
        }
        return Ok(());
    }

    let mut t = match engine::guard("Archive::open(target)", || Archive::open(&dst))? {
        Ok(a) => a,
        Err(e) => vfail!(format!("target-unopenable:{}", err_kind(&e)), "rebuilt archive does not open: {e} — {}", spec.summary()),
    };
    let mut lost = 0;
    for (name, want) in &expected {
        match engine::guard("target.read_file", || t.read_file(name))? {
            Ok(got) => {
                if &got != want {
                    vfail!(
                        format!("rebuilt-file-content-differs:{tables}"),
                        "{name:?} differs in the rebuilt archive ({} vs {} bytes) — opts {o:?} — {}",
                        got.len(),
                        want.len(),
                        spec.summary()
                    );
                }
            }
            Err(wow_mpq::Error::FileNotFound(_)) => lost += 1,
            Err(e) => vfail!(
                format!("rebuilt-file-unreadable:{}:{tables}", err_kind(&e)),
                "{name:?} cannot be read from the rebuilt archive: {e} — opts {o:?} — {}",
                spec.summary()
            ),
        }
    }
    if lost > 0 {
        vfail!(
            format!("rebuild-ok-but-files-lost:{lf}:{tables}"),
            "rebuild returned Ok({summary:?}) but {lost} of {} expected files are missing from the target — opts {o:?} — {}",
            expected.len(),
            spec.summary()
        );
    }
    // nothing unexpected
    let listed = t.list().map_err(|e| engine::Fail::new("target-list-error", format!("{e}")))?;
    let exp_names: BTreeSet<String> = expected.iter().map(|(n, _)| n.to_ascii_uppercase()).collect();
    for e in &listed {
        if !is_special(&e.name) && !exp_names.contains(&e.name.to_ascii_uppercase()) {
            vfail!(
                "rebuilt-archive-has-unexpected-file",
                "target lists {:?} which the options exclude or the source never had — opts {o:?} — {}",
                e.name,
                spec.summary()
            );
        }
    }
    // … and nothing missing from the listing: the target *contains the source's listed files*, by name
    let listed_names: BTreeSet<String> = listed.iter().map(|e| e.name.to_ascii_uppercase()).collect();
    for n in &exp_names {
        if !listed_names.contains(n) {
            vfail!(
                format!("rebuilt-archive-listing-misses-file:{tables}"),
                "{n:?} is listed by the source and readable from the target, but the target's listing does not name it (target lists {} entries) — opts {o:?} — {}",
                listed.len(),
                spec.summary()
            );
        }
    }
    if o.skip_encrypted {
        for f in spec.files.iter().filter(|f| f.enc != Enc::None) {
            if matches!(t.find_file(&f.name), Ok(Some(_))) {
                vfail!("skip-encrypted-not-honoured", "{:?} is encrypted in the source but present in the target", f.name);
            }
        }
    }
    // counts
    if summary.source_files != n_listed {
        vfail!(
            format!("summary-source-files-wrong:{tables}"),
            "summary.source_files = {} but the source lists {n_listed} files — {}",
            summary.source_files,
            spec.summary()
        );
    }
    // files carried over = target entries the source lists too (a target-side generated
    // `(listfile)` of a source whose own listfile does not name itself was not "extracted")
    let present_in_target = match &src_listed {
        Some(sl) => listed.iter().filter(|e| sl.contains(&e.name.to_ascii_uppercase().replace('/', "\\"))).count(),
        None => listed.len(),
    };
    if summary.extracted_files != present_in_target {
        vfail!(
            format!("summary-extracted-count-wrong:{tables}"),
            "summary.extracted_files = {} but the target lists {present_in_target} files — opts {o:?} — {}",
            summary.extracted_files,
            spec.summary()
        );
    }
    if summary.verified != o.verify {
        vfail!("summary-verified-flag-wrong", "verified={} with verify={}", summary.verified, o.verify);
    }
    // compare_archives must agree (it is not trusted: the byte comparison above is the ground truth)
    let cmp = engine::guard("compare_archives", || {
        compare_archives(&src, &dst, true, true, false, true, None)
    })?;
    match cmp {
        Ok(r) => {
            if let Some(f) = &r.files {
                if !f.content_differences.is_empty() {
                    let only_special = f.content_differences.iter().all(|n| is_special(n));
                    if !only_special {
                        vfail!(
                            "compare-reports-content-difference",
                            "compare_archives reports content differences {:?} although every file is bit-identical — {}",
                            f.content_differences,
                            spec.summary()
                        );
                    }
                }
                let missing: Vec<&String> = f
                    .source_only
                    .iter()
                    .filter(|n| !is_special(n))
                    .filter(|n| exp_names.contains(&n.to_ascii_uppercase()))
                    .collect();
                if !missing.is_empty() {
                    vfail!(
                        "compare-reports-source-only",
                        "compare_archives reports {:?} only in source although present in target",
                        missing
                    );
                }
            }
            check.bump("compare_ok", 1);
        }
        Err(e) => vfail!(format!("compare-error:{}", err_kind(&e)), "compare_archives failed: {e}"),
    }
    Ok(())
}

/// metamorphic control for the comparator: change one byte of one file → must be reported
fn comparator_control(check: &Check) {
    let dir = engine::scratch("c07c");
    let mk = |seed: u32, p: &std::path::Path| {
        let spec = ArchiveSpec {
            version: 1,
            shift: 0,
            crcs: false,
            attrs: Attrs::None,
            listfile: true,
            compress_tables: false,
            table_method: M_ZLIB,
            files: vec![
                FileSpec { name: "a.txt".into(), class: ContentClass::Text, len: LenSpec { halves: 3, delta: 0 }, seed: 1, method: M_ZLIB, enc: Enc::None, locale: 0 },
                FileSpec { name: "b.bin".into(), class: ContentClass::Random, len: LenSpec { halves: 1, delta: 0 }, seed, method: M_NONE, enc: Enc::None, locale: 0 },
            ],
        };
        spec.builder().build(p).expect("control build");
    };
    let a = dir.path().join("a.mpq");
    let b = dir.path().join("b.mpq");
    let c = dir.path().join("c.mpq");
    mk(5, &a);
    mk(5, &b);
    mk(6, &c);
    let same = compare_archives(&a, &b, true, true, false, true, None);
    let diff = compare_archives(&a, &c, true, true, false, true, None);
    check.count("comparator-control", true);
    match (same, diff) {
        (Ok(s), Ok(d)) => {
            let s_ok = s.files.as_ref().map(|f| f.content_differences.is_empty()).unwrap_or(false);
            let d_ok = d.files.as_ref().map(|f| f.content_differences.iter().any(|n| n.eq_ignore_ascii_case("b.bin"))).unwrap_or(false);
            if !s_ok {
                check.fail(&engine::Fail::new("compare-reports-content-difference", "identical twin archives reported different"), json!({"control":"same"}));
            }
            if !d_ok {
                check.fail(&engine::Fail::new("compare-misses-content-difference", "archives differing in b.bin reported without a content difference"), json!({"control":"diff"}));
            }
        }
        (a, b) => {
            check.fail(&engine::Fail::new("compare-error:control", format!("{:?} / {:?}", a.err(), b.err())), json!({"control":"err"}));
        }
    }
}

fn grid() -> Vec<Case> {
    let mut v = vec![];
    for sv in 1..=4u8 {
        for tv in 1..=4u8 {
            for listfile in [true, false] {
                for verify in [false, true] {
                    let files = (0..5)
                        .map(|i| FileSpec {
                            name: if i % 2 == 0 { format!("Data\\f{i}.bin") } else { format!("g{i}.txt") },
                            class: if i % 2 == 0 { ContentClass::Random } else { ContentClass::Text },
                            len: LenSpec { halves: i as u8, delta: 9 },
                            seed: i,
                            method: [M_ZLIB, M_NONE, M_BZIP2, M_ZLIB, M_LZMA][i as usize],
                            enc: [Enc::None, Enc::Key, Enc::None, Enc::FixKey, Enc::None][i as usize],
                            locale: 0,
                        })
                        .collect();
                    v.push(Case {
                        src: ArchiveSpec { version: sv, shift: 0, crcs: false, attrs: if sv % 2 == 0 { Attrs::Crc32 } else { Attrs::None }, listfile, compress_tables: false, table_method: M_ZLIB, files },
                        opts: Opts { target: Some(tv), preserve_format: false, override_compression: None, override_block_size: None, skip_encrypted: false, skip_signatures: true, verify, preserve_order: true, list_only: false },
                        ext_listfile: false,
                        prefix_units: if (sv + tv) % 3 == 0 && verify { 1 + (sv % 3) } else { 0 },
                    });
                    if listfile && !verify {
                        let mut c = v.last().unwrap().clone();
                        c.ext_listfile = true;
                        v.push(c);
                    }
                }
            }
        }
    }
    v
}

fn main() {
    let (check, _args) = Check::new("C07", "exploration");
    check.set_rule(
        "source archives from the shared generator (V1..V4, shift 0..3, none/zlib/bzip2/LZMA/sparse, plain/encrypted/fix-key, \
         CRC/attributes options, listfile on/off), kept only if the source itself reads back correctly (discards counted), × \
         rebuild options (target V1..V4 or preserve, compression override, block-size override, skip_encrypted, skip_signatures, \
         verify, preserve_order, list_only); plus the full 4×4 version grid × listfile × verify. Oracle: generator ground truth \
         vs target contents, target listing, summary counts, compare_archives (itself checked by a metamorphic control). \
         non-trivial = versions differ, or HET/BET source, or encrypted/multi-sector file, or an override; distinct = source V × \
         target V × listfile × attributes × enc × multi × overrides × skip × verify",
    );
    check.assume("a rebuild that returns Err is not silent loss (accepted and counted)");
    check.assume("sources without a listfile have no listed names: only 'Ok but files missing' is judged for them");

    if let Some(p) = check.replay.clone() {
        let v: serde_json::Value = serde_json::from_str(&std::fs::read_to_string(&p).expect("replay")).expect("json");
        let case: Case = serde_json::from_value(v["case"].clone()).expect("case");
        if let Err(f) = check_case(&check, &case, "replay") {
            check.fail(&f, v["case"].clone());
        }
        check.count("replay-pad", true);
        check.finish();
    }

    comparator_control(&check);
    for c in grid() {
        if let Err(f) = check_case(&check, &c, "grid") {
            check.fail(&f, serde_json::to_value(&c).unwrap());
        }
    }
    let n = check.tier.pick(8_000u32, 100_000);
    pt::run(
        &check,
        "c07",
        n,
        pt::Opts::default(),
        || (archive_strategy(src_params()), opts_strategy(), prop_oneof![3 => Just(false), 1 => Just(true)], prop_oneof![3 => Just(0u8), 1 => 1u8..6]).prop_map(|(src, opts, ext_listfile, prefix_units)| Case { src, opts, ext_listfile, prefix_units }),
        |c| serde_json::to_value(c).unwrap(),
        |c| check_case(&check, c, "rnd"),
    );
    if check.counter("rebuild_ok") == 0 {
        check.inconclusive("no rebuild succeeded: vacuous");
    }
    check.finish();
}
