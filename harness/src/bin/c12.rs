//! C12 — writing an archive is all-or-nothing at the destination path.
//! Fault enumeration with a ptrace supervisor: every file-system call the build/compact
//! issues inside the sandbox × {kill before, kill after, fail ENOSPC, fail EIO, short write},
//! plus byte quotas ("disk full").
use serde::{Deserialize, Serialize};
use serde_json::{json, Value};
use std::path::{Path, PathBuf};
use vcheck::engine::ptracefs::{self, Mode};
use vcheck::engine::supervise::{self, Outcome, Spec};
use vcheck::engine::{self, Check, Fail, Tier};
use vcheck::gens::mpq::*;
use wow_mpq::{Archive, MutableArchive};

#[derive(Clone, Debug, Serialize, Deserialize, PartialEq)]
enum Prev {
    Absent,
    Archive,
    Junk,
    /// an existing zero-length regular file (a name reserved by mkstemp / `touch`, an earlier failed download)
    Empty,
}

#[derive(Clone, Debug, Serialize, Deserialize, PartialEq)]
enum OpKind {
    Build,
    Compact,
    /// ArchiveBuilder::build with every source added by path (`add_file`): the files lie in `<sandbox>/src/`
    /// and their opens are numbered and faulted like every other call
    BuildFromPaths,
    /// OpenOptions::create — the "new empty archive" entry point
    Create,
    /// the C API's SFileCreateArchive (libstorm.so built from the current tree); `fileset` holds the creation
    /// disposition (2 CREATE_ALWAYS, 5 TRUNCATE_EXISTING)
    CApiCreate,
    /// `rebuild_archive`: the archive is built through the rebuild entry point. `fileset` bit 0 = `verify`,
    /// bit 1 = in place (target path = source path, the previous archive IS the source); otherwise the source is
    /// `<sandbox>/source.mpq` and the destination has its own previous state
    Rebuild,
}

#[derive(Clone, Debug, Serialize, Deserialize)]
struct Config {
    op: OpKind,
    version: u8,
    prev: Prev,
    fileset: u8,
    /// how the destination is named: 0 `dest.mpq`; 1 `dest.tmp`; 2 `archive.mpq.tmp` (names a writer's own
    /// temporary-file scheme could collide with); 3 `link.mpq`, a symbolic link to `real/target.mpq`;
    /// 4 `readonly.mpq`, an existing destination with mode 0444 (installed game data)
    #[serde(default)]
    dest: u8,
}

#[derive(Clone, Debug, Serialize, Deserialize)]
struct Case {
    cfg: Config,
    mode: Mode,
}

fn fileset(version: u8, which: u8) -> ArchiveSpec {
    let n = [3usize, 6, 2][which as usize % 3];
    ArchiveSpec {
        version,
        shift: 0,
        crcs: which == 1,
        attrs: if which == 1 { Attrs::Crc32 } else { Attrs::None },
        listfile: true,
        compress_tables: false,
        table_method: M_ZLIB,
        files: (0..n)
            .map(|i| FileSpec {
                name: format!("set{which}\\file{i}.dat"),
                class: ALL_CLASSES[(i + which as usize) % ALL_CLASSES.len()],
                len: LenSpec { halves: (i as u8 * 2 + which) % 7, delta: 5 + i as i16 },
                seed: 100 * which as u32 + i as u32,
                method: [M_ZLIB, M_NONE, M_BZIP2][i % 3],
                enc: if i == 1 { Enc::Key } else { Enc::None },
                locale: 0,
            })
            .collect(),
    }
}

/// the archive that sits at the destination before the operation (for prev = Archive)
fn prev_spec(version: u8) -> ArchiveSpec {
    ArchiveSpec {
        version,
        shift: 0,
        crcs: false,
        attrs: Attrs::None,
        listfile: true,
        compress_tables: false,
        table_method: M_ZLIB,
        files: (0..4)
            .map(|i| FileSpec {
                name: format!("old\\p{i}.bin"),
                class: ContentClass::Text,
                len: LenSpec { halves: i as u8, delta: 40 },
                seed: 900 + i,
                method: M_ZLIB,
                enc: Enc::None,
                locale: 0,
            })
            .collect(),
    }
}

/// expected logical content of the destination if the operation completes
fn expected_new(cfg: &Config) -> Vec<(String, Vec<u8>)> {
    match cfg.op {
        OpKind::Build | OpKind::BuildFromPaths => {
            let s = fileset(cfg.version, cfg.fileset);
            (0..s.files.len()).map(|i| (s.files[i].name.clone(), s.content(i))).collect()
        }
        OpKind::Create | OpKind::CApiCreate => vec![],
        OpKind::Rebuild => {
            let s = if cfg.fileset & 2 != 0 { prev_spec(cfg.version) } else { fileset(cfg.version, 0) };
            (0..s.files.len()).map(|i| (s.files[i].name.clone(), s.content(i))).collect()
        }
        OpKind::Compact => {
            // prev archive minus the removed file p1
            let s = prev_spec(cfg.version);
            (0..s.files.len()).filter(|&i| i != 1).map(|i| (s.files[i].name.clone(), s.content(i))).collect()
        }
    }
}

/// `c12 --op <json config> <dest>`: perform exactly one operation, print RESULT
fn op_main(cfg: &Config, dest: &Path) -> ! {
    let r: Result<(), String> = match cfg.op {
        OpKind::Build => fileset(cfg.version, cfg.fileset).builder().build(dest).map_err(|e| e.to_string()),
        OpKind::BuildFromPaths => {
            let s = fileset(cfg.version, cfg.fileset);
            let src = dest.parent().unwrap().join("src");
            let mut b = wow_mpq::ArchiveBuilder::new().version(s.format_version()).listfile_option(wow_mpq::ListfileOption::Generate);
            for (i, f) in s.files.iter().enumerate() {
                b = b.add_file(src.join(format!("f{i}.bin")), &f.name);
            }
            b.build(dest).map_err(|e| e.to_string())
        }
        OpKind::CApiCreate => (|| {
            let storm = vcheck::ffi::Storm::load(&vcheck::ffi::lib_path())?;
            let p = vcheck::ffi::cstr(dest.to_str().unwrap());
            let mut h: vcheck::ffi::Handle = std::ptr::null_mut();
            let ok = unsafe { (storm.SFileCreateArchive)(p.as_ptr(), cfg.fileset as u32, 16, &mut h) };
            if !ok {
                return Err(format!("SFileCreateArchive failed, last error {}", storm.last_error()));
            }
            storm.close(h);
            Ok(())
        })(),
        OpKind::Rebuild => {
            let source = if cfg.fileset & 2 != 0 { dest.to_path_buf() } else { dest.parent().unwrap().join("source.mpq") };
            let opts = wow_mpq::RebuildOptions { verify: cfg.fileset & 1 != 0, ..Default::default() };
            wow_mpq::rebuild_archive(source.as_path(), dest, opts, None).map(|_| ()).map_err(|e| e.to_string())
        }
        OpKind::Create => wow_mpq::OpenOptions::new().version(fileset(cfg.version, 0).format_version()).create(dest).map(|_| ()).map_err(|e| e.to_string()),
        OpKind::Compact => (|| {
            let mut m = MutableArchive::open(dest).map_err(|e| e.to_string())?;
            m.compact().map_err(|e| e.to_string())?;
            // the handle is dropped without pending changes
            Ok(())
        })(),
    };
    match r {
        Ok(()) => {
            println!("RESULT ok");
            std::process::exit(0)
        }
        Err(e) => {
            println!("RESULT err {e}");
            std::process::exit(3)
        }
    }
}

fn setup_prev(cfg: &Config, dest: &Path) -> Result<Option<Vec<u8>>, String> {
    match (&cfg.op, &cfg.prev) {
        (OpKind::Compact, _) | (_, Prev::Archive) => {
            prev_spec(cfg.version).builder().build(dest).map_err(|e| format!("prev build: {e}"))?;
            if cfg.op == OpKind::Compact {
                // leave garbage behind: remove one file in an earlier session
                let mut m = MutableArchive::open(dest).map_err(|e| e.to_string())?;
                m.remove_file("old\\p1.bin").map_err(|e| e.to_string())?;
                m.flush().map_err(|e| e.to_string())?;
                drop(m);
            }
            Ok(Some(std::fs::read(dest).map_err(|e| e.to_string())?))
        }
        (_, Prev::Junk) => {
            let junk = materialize(ContentClass::Random, 777, 5);
            std::fs::write(dest, &junk).map_err(|e| e.to_string())?;
            Ok(Some(junk))
        }
        (_, Prev::Empty) => {
            std::fs::write(dest, b"").map_err(|e| e.to_string())?;
            Ok(Some(vec![]))
        }
        (_, Prev::Absent) => Ok(None),
    }
}

fn complete_archive(dest: &Path, want: &[(String, Vec<u8>)]) -> Result<(), String> {
    let mut a = Archive::open(dest).map_err(|e| format!("does not open: {e}"))?;
    for (n, w) in want {
        match a.read_file(n) {
            Ok(d) if &d == w => {}
            Ok(d) => return Err(format!("{n}: {} bytes differ from the {} expected", d.len(), w.len())),
            Err(e) => return Err(format!("{n}: {e}")),
        }
    }
    Ok(())
}

/// run one (config, mode) under the ptrace supervisor and judge the destination
fn trace_case(case: &Case) -> Value {
    let dir = engine::scratch("c12");
    let sandbox = dir.path().join("sbx");
    std::fs::create_dir_all(&sandbox).unwrap();
    let dest = sandbox.join(["dest.mpq", "dest.tmp", "archive.mpq.tmp", "link.mpq", "readonly.mpq"][case.cfg.dest as usize % 5]);
    // a symbolic link is created after the previous state exists at its target (writers replace links)
    let real = if case.cfg.dest % 5 == 3 {
        std::fs::create_dir_all(sandbox.join("real")).unwrap();
        sandbox.join("real").join("target.mpq")
    } else {
        dest.clone()
    };
    if case.cfg.op == OpKind::BuildFromPaths {
        let s = fileset(case.cfg.version, case.cfg.fileset);
        std::fs::create_dir_all(sandbox.join("src")).unwrap();
        for i in 0..s.files.len() {
            std::fs::write(sandbox.join("src").join(format!("f{i}.bin")), s.content(i)).unwrap();
        }
    }
    if case.cfg.op == OpKind::Rebuild && case.cfg.fileset & 2 == 0 {
        if let Err(e) = fileset(case.cfg.version, 0).builder().build(sandbox.join("source.mpq")) {
            return json!({"setup_err": format!("source build: {e}")});
        }
    }
    let prev_r = setup_prev(&case.cfg, &real);
    if case.cfg.dest % 5 == 3 {
        std::os::unix::fs::symlink("real/target.mpq", &dest).unwrap();
    }
    if case.cfg.dest % 5 == 4 && dest.exists() {
        use std::os::unix::fs::PermissionsExt;
        std::fs::set_permissions(&dest, std::fs::Permissions::from_mode(0o444)).unwrap();
    }
    let prev = match prev_r {
        Ok(p) => p,
        Err(e) => return json!({"setup_err": e}),
    };
    let exe = std::env::current_exe().unwrap();
    let mut cmd = std::process::Command::new(exe);
    cmd.arg("--op").arg(serde_json::to_string(&case.cfg).unwrap()).arg(&dest);
    cmd.env("TMPDIR", &sandbox);
    let rep = match ptracefs::run(cmd, sandbox.to_str().unwrap(), &case.mode) {
        Ok(r) => r,
        Err(e) => return json!({"trace_err": e}),
    };
    let reported = if rep.stdout.contains("RESULT ok") {
        "ok"
    } else if rep.stdout.contains("RESULT err") {
        "err"
    } else {
        "none"
    };
    let calls: Vec<String> = rep.calls.iter().map(|c| c.name.to_string()).collect();
    let hit = match &case.mode {
        Mode::KillBefore(k) | Mode::KillAfter(k) | Mode::Fail(k, _) | Mode::ShortWrite(k) => rep.calls.get(k - 1).map(|c| c.name).unwrap_or("-"),
        _ => "-",
    };
    // judge
    let now = std::fs::read(&dest).ok();
    let want = expected_new(&case.cfg);
    let state = match (&prev, &now) {
        (None, None) => "absent(previous)",
        (Some(_), None) => "VANISHED",
        (Some(p), Some(n)) if p == n => "previous",
        (_, Some(_)) => match complete_archive(&dest, &want) {
            Ok(()) => "new-complete",
            Err(_) => "PARTIAL",
        },
    };
    let mut verdict: Option<(String, String)> = None;
    let opn = format!("{:?}", case.cfg.op).to_lowercase();
    match state {
        "VANISHED" => verdict = Some((format!("{opn}:destination-vanished:after-{hit}"), "the previous destination content is gone and nothing took its place".into())),
        "PARTIAL" => {
            let why = complete_archive(&dest, &want).err().unwrap_or_default();
            verdict = Some((
                format!("{opn}:partial-or-foreign-destination:after-{hit}:reported-{reported}"),
                format!("destination holds neither the previous bytes nor a complete new archive ({why})"),
            ));
        }
        "previous" | "absent(previous)" => {
            if reported == "ok" && !(case.cfg.op == OpKind::Rebuild && case.cfg.fileset & 2 != 0) {
                verdict = Some((format!("{opn}:reports-ok-but-destination-unchanged"), "the operation returned Ok but the destination still holds the previous state".into()));
            }
        }
        "new-complete" => {
            // (OpenOptions::create is a build followed by an open: an error of the open step comes after a build
            // that succeeded, so only the state of the destination is judged there)
            if reported == "err" && matches!(case.cfg.op, OpKind::Build | OpKind::BuildFromPaths) || (reported == "err" && case.cfg.op == OpKind::Rebuild && case.cfg.fileset & 3 == 0) {
                verdict = Some((format!("{opn}:reports-error-but-destination-replaced"), format!("the build returned an error ({}) yet the destination was replaced", rep.stdout.trim())));
            }
        }
        _ => {}
    }
    // no stray file under the destination name is covered by the checks above; count strays
    let strays = std::fs::read_dir(&sandbox).map(|d| d.filter_map(|e| e.ok()).filter(|e| e.path() != dest).count()).unwrap_or(0);
    json!({
        "n_calls": rep.calls.len(),
        "calls": calls,
        "hit": hit,
        "injected": rep.injected,
        "reported": reported,
        "state": state,
        "strays": strays,
        "exit": rep.exit_code,
        "sig": verdict.as_ref().map(|v| v.0.clone()),
        "msg": verdict.as_ref().map(|v| v.1.clone()),
    })
}

fn worker() -> ! {
    engine::install_panic_hook();
    supervise::worker_loop(|v| match serde_json::from_value::<Case>(v) {
        Ok(c) => trace_case(&c),
        Err(e) => json!({"setup_err": format!("bad case {e}")}),
    })
}

fn configs() -> Vec<Config> {
    let mut v = vec![];
    for version in 1..=4u8 {
        for prev in [Prev::Absent, Prev::Archive, Prev::Junk] {
            for fs in 0..3u8 {
                v.push(Config { op: OpKind::Build, version, prev: prev.clone(), fileset: fs, dest: 0 });
            }
        }
        v.push(Config { op: OpKind::Compact, version, prev: Prev::Archive, fileset: 0, dest: 0 });
        // destination names and kinds a writer's temporary-file scheme can trip over
        for (dest, prev) in [(1u8, Prev::Archive), (2, Prev::Archive), (2, Prev::Absent), (3, Prev::Archive), (4, Prev::Archive), (4, Prev::Junk)] {
            v.push(Config { op: OpKind::Build, version, prev, fileset: 0, dest });
        }
        for prev in [Prev::Archive, Prev::Absent] {
            v.push(Config { op: OpKind::BuildFromPaths, version, prev: prev.clone(), fileset: 1, dest: 0 });
            v.push(Config { op: OpKind::Create, version, prev, fileset: 0, dest: 0 });
        }
        if version == 2 {
            // the C API always creates V2 archives
            for (disposition, prev) in [(2u8, Prev::Archive), (2, Prev::Absent), (5, Prev::Archive)] {
                v.push(Config { op: OpKind::CApiCreate, version, prev, fileset: disposition, dest: 0 });
            }
        }
        // a reserved (zero-length) destination, under the plain name and under a temp-like name
        for dest in [0u8, 2] {
            v.push(Config { op: OpKind::Build, version, prev: Prev::Empty, fileset: 0, dest });
        }
        // the rebuild entry point: to another destination (absent / existing archive) and onto itself, verify off/on
        for (fs, prev) in [(0u8, Prev::Absent), (1, Prev::Archive), (2, Prev::Archive), (3, Prev::Archive)] {
            v.push(Config { op: OpKind::Rebuild, version, prev, fileset: fs, dest: 0 });
        }
        v.push(Config { op: OpKind::Compact, version, prev: Prev::Archive, fileset: 0, dest: 3 });
        v.push(Config { op: OpKind::Compact, version, prev: Prev::Archive, fileset: 0, dest: 1 });
    }
    v
}

fn main() {
    let args: Vec<String> = std::env::args().collect();
    if args.get(1).map(|s| s.as_str()) == Some("--op") {
        let cfg: Config = serde_json::from_str(&args[2]).expect("cfg");
        op_main(&cfg, Path::new(&args[3]));
    }
    if args.get(1).map(|s| s.as_str()) == Some("--worker") {
        worker();
    }
    let (check, _a) = Check::new("C12", "fault_enumeration");
    check.set_rule(
        "configurations: {ArchiveBuilder::build × destination absent / existing archive / existing non-archive bytes × 3 file sets, MutableArchive::compact on an archive with a deleted file} × V1..V4. \
         For each configuration a fault-free counting run under the ptrace supervisor yields the N file-system calls (open/openat/write/pwrite/writev/lseek/fsync/ftruncate/rename*/link*/unlink*) that touch the sandbox; \
         then every k ∈ 1..N × {kill before call k, kill after call k, fail k with ENOSPC, fail k with EIO, short write at k + ENOSPC on the next write} plus byte quotas (every 97th byte, quick: 12 quotas) are injected. \
         Oracle: destination absent (only if absent before) or byte-identical to before or a complete new archive that opens and reads back every file; reported Err ⇒ previous state, reported Ok ⇒ new state. \
         non-trivial = the fault hit a write/rename/unlink-class call; distinct = op × version × previous state × fault kind × call kind hit × resulting state",
    );
    check.assume("process death and failing system calls are modelled; power-loss ordering (no fsync before rename) is outside 'process dying'");
    check.assume("compaction is traced on a handle without pending changes (in-place flush is not claimed atomic by the property)");
    check.set_exhaustive(true);
    let spec = Spec { cpu_secs: 60, wall_grace_secs: 60, rlimit_as: 0, ..Spec::new("c12") };

    if let Some(p) = check.replay.clone() {
        let v: Value = serde_json::from_str(&std::fs::read_to_string(&p).expect("replay")).expect("json");
        let out = supervise::run_cases(&spec, &[v["case"].clone()], 1);
        if let Outcome::Done(r) = &out[0] {
            if let Some(sig) = r["sig"].as_str() {
                check.fail(&Fail::new(sig, r["msg"].as_str().unwrap_or("")), v["case"].clone());
            }
        }
        check.count("replay-pad", true);
        check.count("replay-pad2", true);
        check.finish();
    }

    // phase 1: counting runs
    let cfgs = configs();
    let count_cases: Vec<Value> = cfgs.iter().map(|c| serde_json::to_value(Case { cfg: c.clone(), mode: Mode::Count }).unwrap()).collect();
    let outs = supervise::run_cases(&spec, &count_cases, engine::WORKERS);
    let mut cases: Vec<Case> = vec![];
    let mut total_calls = 0usize;
    for (cfg, o) in cfgs.iter().zip(outs.iter()) {
        let Outcome::Done(r) = o else {
            check.inconclusive(&format!("counting run died for {cfg:?}: {o:?}"));
            continue;
        };
        if r.get("setup_err").is_some() || r.get("trace_err").is_some() {
            check.inconclusive(&format!("counting run failed for {cfg:?}: {r}"));
            continue;
        }
        let n = r["n_calls"].as_u64().unwrap_or(0) as usize;
        // (an in-place rebuild may reproduce the previous bytes exactly)
        let same_bytes_ok = cfg.op == OpKind::Rebuild && cfg.fileset & 2 != 0 && r["state"] == "previous";
        if (r["state"] != "new-complete" && !same_bytes_ok) || r["reported"] != "ok" {
            check.fail(
                &Fail::new(format!("{:?}:fault-free-run-does-not-produce-the-archive", cfg.op).to_lowercase(), format!("{r}")),
                serde_json::to_value(Case { cfg: cfg.clone(), mode: Mode::Count }).unwrap(),
            );
            continue;
        }
        // a fault-free run that produced the archive must have touched the sandbox at least once;
        // however few the calls are (a single truncating open + write is a legitimate — and
        // non-atomic — way to write a file) they are enumerated like any others
        if n < 1 {
            check.inconclusive(&format!("no sandbox call seen for {cfg:?} although the archive was produced: the supervisor is not seeing the I/O"));
            continue;
        }
        total_calls += n;
        check.sample(&format!("{:?}{}", cfg.op, cfg.version), || json!({"config": cfg, "sandbox_calls": r["calls"]}));
        let quick = check.tier == Tier::Quick;
        // quick: Build with a pre-existing archive and Compact get the full enumeration; the other
        // previous-state variants get every 3rd k
        let stride = 1; // every k in both tiers (a quick run is a few seconds)
        for k in (1..=n).step_by(stride) {
            cases.push(Case { cfg: cfg.clone(), mode: Mode::KillBefore(k) });
            cases.push(Case { cfg: cfg.clone(), mode: Mode::KillAfter(k) });
            cases.push(Case { cfg: cfg.clone(), mode: Mode::Fail(k, 28) });
            cases.push(Case { cfg: cfg.clone(), mode: Mode::Fail(k, 5) });
            let name = r["calls"][k - 1].as_str().unwrap_or("");
            if ptracefs::is_write_class(name) {
                cases.push(Case { cfg: cfg.clone(), mode: Mode::ShortWrite(k) });
            }
        }
        let nq = if quick { 24u64 } else { 120 };
        for q in 0..nq {
            cases.push(Case { cfg: cfg.clone(), mode: Mode::Quota(q * 97 * if quick { 3 } else { 1 }) });
        }
    }
    check.set_extra("sandbox_calls_total", json!(total_calls));
    check.set_extra("configurations", json!(cfgs.len()));

    // phase 2: injected runs
    let vals: Vec<Value> = cases.iter().map(|c| serde_json::to_value(c).unwrap()).collect();
    let outs = supervise::run_cases(&spec, &vals, engine::WORKERS);
    for (c, o) in cases.iter().zip(outs.iter()) {
        let mk = match &c.mode {
            Mode::KillBefore(_) => "kill-before",
            Mode::KillAfter(_) => "kill-after",
            Mode::Fail(_, 28) => "enospc",
            Mode::Fail(_, _) => "eio",
            Mode::ShortWrite(_) => "short-write",
            Mode::Quota(_) => "quota",
            Mode::Count => "count",
        };
        match o {
            Outcome::Done(r) => {
                if r.get("setup_err").is_some() || r.get("trace_err").is_some() {
                    check.inconclusive(&format!("run failed: {r}"));
                    continue;
                }
                let hit = r["hit"].as_str().unwrap_or("-");
                let state = r["state"].as_str().unwrap_or("?");
                let nt = matches!(hit, "write" | "pwrite64" | "writev" | "rename" | "renameat" | "renameat2" | "unlink" | "unlinkat" | "link" | "linkat" | "ftruncate") || mk == "quota";
                check.count(
                    &format!("{:?}:V{}:{:?}:{mk}:{hit}:{state}:{}", c.cfg.op, c.cfg.version, c.cfg.prev, r["reported"].as_str().unwrap_or("?")),
                    nt,
                );
                if let Some(sig) = r["sig"].as_str() {
                    check.fail(&Fail::new(sig, format!("{} — {c:?}", r["msg"].as_str().unwrap_or(""))), serde_json::to_value(c).unwrap());
                }
            }
            other => check.inconclusive(&format!("tracer worker died on {c:?}: {other:?}")),
        }
    }
    let _ = PathBuf::new();
    check.finish();
}
