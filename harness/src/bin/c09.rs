//! C09 — parallel extraction is observationally identical to sequential reading.
use proptest::prelude::*;
use serde::{Deserialize, Serialize};
use serde_json::json;
use std::sync::atomic::{AtomicBool, Ordering};
use std::sync::Arc;
use vcheck::engine::{self, pt, CaseResult, Check};
use vcheck::gens::mpq::*;
use vcheck::vfail;
use wow_mpq::single_archive_parallel::{extract_with_config, ParallelArchive, ParallelConfig};
use wow_mpq::Archive;

static METHODS: [u8; 4] = [M_NONE, M_ZLIB, M_BZIP2, M_LZMA];

#[derive(Clone, Debug, Serialize, Deserialize)]
struct Case {
    spec: ArchiveSpec,
    /// request list as indices: i < files.len() → that file; otherwise a missing name
    requests: Vec<u16>,
    n_missing_pool: u16,
    threads: usize,
    batch: usize,
    skip_errors: bool,
    reps: u8,
    contention: bool,
    /// order in which the three ParallelConfig setters are called (index into the 6 permutations)
    #[serde(default)]
    cfg_order: u8,
    /// 0 generated listfile, 1 no listfile, 2 user-supplied listfile naming only every other file
    #[serde(default)]
    listfile_mode: u8,
    /// 0 intact; k>0: the stored bytes of file (k-1) mod n are damaged after the build, so that
    /// reading it fails (or yields other bytes) — a failure that is not a missing name
    #[serde(default)]
    damage: u8,
    /// spelling of the request at position i = spell[i % len] (empty = every name as stored):
    /// 0 as stored, 1 ASCII upper case, 2 ASCII lower case, 3 slashes flipped, 4 mixed ASCII case and slashes
    /// (1–4 name the same member), 5 full Unicode upper case, 6 full Unicode lower case (for a name with
    /// letters outside ASCII that is another name: a different member or no member at all)
    #[serde(default)]
    spell: Vec<u8>,
}

fn err_kind(e: &wow_mpq::Error) -> String {
    format!("{e:?}").chars().take_while(|c| c.is_alphanumeric()).collect()
}

fn params() -> GenParams {
    GenParams {
        versions: (1, 4),
        max_shift: 2,
        methods: &METHODS,
        max_files: 30,
        allow_enc: true,
        allow_crcs: false,
        allow_attrs: false,
        many_tiny: false,
    }
}

type Slot = Result<Vec<u8>, String>;

/// families of the names grid whose members the archive did not keep apart (sequential reads of the stored names)
static FAMILY_NOT_KEPT_APART: std::sync::Mutex<Vec<String>> = std::sync::Mutex::new(Vec::new());

fn name_of(case: &Case, pos: usize, r: u16) -> String {
    let n = case.spec.files.len();
    let base = if (r as usize) < n { case.spec.files[r as usize].name.clone() } else { format!("missing\\{}.none", r as usize - n) };
    if case.spell.is_empty() {
        return base;
    }
    match case.spell[pos % case.spell.len()] % 7 {
        0 => base,
        1 => base.to_ascii_uppercase(),
        2 => base.to_ascii_lowercase(),
        3 => base.chars().map(|c| match c { '/' => '\\', '\\' => '/', c => c }).collect(),
        4 => spellings(&base, pos as u32).pop().unwrap_or(base),
        5 => base.to_uppercase(),
        _ => base.to_lowercase(),
    }
}

/// The archive's own name equivalence (ASCII case, slash direction) — only used to label cases and failures.
fn member_key(name: &str) -> Vec<u8> {
    vcheck::oracle::refcrypt::fold(name.as_bytes())
}

/// A deliberately coarse folding of a name (full Unicode case mapping both ways, accents and combining marks
/// dropped, compatibility forms, blanks/underscores, repeated separators). Two names with different `member_key`
/// and equal `coarse_key` are *distinct members that a too-coarse name comparison would take for one*. Only used
/// to label cases and failures, never to decide what a slot must hold (that is the sequential read).
fn coarse_key(name: &str) -> String {
    let mut out = String::new();
    for c in name.chars().flat_map(|c| c.to_uppercase()).flat_map(|c| c.to_lowercase()) {
        let c = match c {
            '/' => '\\',
            '\u{ff01}'..='\u{ff5e}' => char::from_u32(c as u32 - 0xfee0).unwrap_or(c).to_ascii_lowercase(),
            'ς' => 'σ',
            'à' | 'á' | 'â' | 'ã' | 'ä' | 'å' => 'a',
            'ç' => 'c',
            'è' | 'é' | 'ê' | 'ë' => 'e',
            'ì' | 'í' | 'î' | 'ï' | 'ı' => 'i',
            'ñ' => 'n',
            'ò' | 'ó' | 'ô' | 'õ' | 'ö' => 'o',
            'ό' => 'ο',
            'ù' | 'ú' | 'û' | 'ü' => 'u',
            'ý' | 'ÿ' => 'y',
            c => c,
        };
        if ('\u{300}'..='\u{36f}').contains(&c) || c == ' ' || c == '_' || c == '\u{a0}' || c == '\u{ad}' || c == '\u{200b}' {
            continue;
        }
        if c == '\\' && out.ends_with('\\') {
            continue;
        }
        out.push(c);
    }
    out
}

/// Why slot `i` is wrong, beyond "differs": does it hold what another request of the same call should hold?
fn slot_diag(names: &[String], want: &[&Slot], i: usize, got: &[u8]) -> &'static str {
    let mut other = false;
    for j in 0..names.len() {
        if j == i || member_key(&names[j]) == member_key(&names[i]) {
            continue;
        }
        if let Ok(d) = want[j] {
            if d.as_slice() == got {
                if coarse_key(&names[j]) == coarse_key(&names[i]) {
                    return "slot-holds-data-of-a-distinct-member-with-confusable-name";
                }
                other = true;
            }
        }
    }
    if other { "slot-holds-data-of-another-request" } else { "" }
}

/// Families of names that are distinct archive members (they differ under ASCII-case/slash folding) but equal
/// under some coarser comparison: full Unicode case mapping (simple, expanding, context dependent), canonical
/// and compatibility equivalence, blanks/underscores, repeated separators, and one name being a prefix of another.
static FAMILIES: [(&str, &[&str]); 14] = [
    ("latin-case", &["Sound\\Creature\\\u{c9}lan.wav", "Sound\\Creature\\\u{e9}lan.wav"]),
    ("expanding-case", &["Interface\\Glues\\Stra\u{df}e.blp", "Interface\\Glues\\Strasse.blp", "Interface\\Glues\\STRA\u{1e9e}E.blp"]),
    ("cyrillic-case", &["DBFilesClient\\\u{416}\u{443}\u{43a}.dbc", "DBFilesClient\\\u{436}\u{443}\u{43a}.dbc", "DBFilesClient\\\u{416}\u{423}\u{41a}.dbc"]),
    ("greek-sigma", &["Fonts\\\u{3bf}\u{3b4}\u{3cc}\u{3c2}.ttf", "Fonts\\\u{3bf}\u{3b4}\u{3cc}\u{3c3}.ttf", "Fonts\\\u{39f}\u{394}\u{38c}\u{3a3}.ttf"]),
    ("canonical-forms", &["Textures\\Caf\u{e9}.blp", "Textures\\Cafe\u{301}.blp", "Textures\\Cafe.blp"]),
    ("ascii-vs-long-s", &["World\\wmo\\\u{17f}et.wmo", "World\\wmo\\set.wmo"]),
    ("dotless-i", &["Maps\\\u{131}l\u{131}k.adt", "Maps\\ilik.adt", "Maps\\\u{130}L\u{130}K.adt"]),
    ("kelvin-sign", &["Spells\\\u{212a}ilo.m2", "Spells\\kilo.m2"]),
    ("ligature", &["Interface\\AddOns\\\u{fb01}le.toc", "Interface\\AddOns\\file.toc"]),
    ("fullwidth", &["Data\\\u{ff21}\u{ff42}.txt", "Data\\\u{ff41}\u{ff42}.txt", "Data\\ab.txt"]),
    ("blanks", &["Data\\my file.bin", "Data\\my  file.bin", "Data\\my_file.bin", "Data\\myfile.bin"]),
    ("separators", &["Data\\sub\\x.bin", "Data\\\\sub\\x.bin", "Data\\sub\\\\x.bin"]),
    ("prefixes", &["Character\\Human\\Male.m2", "Character\\Human\\Male.m2.bak", "Character\\Human\\Male.m", "Character\\Human\\Male"]),
    ("solitary", &["Donn\u{e9}es\\\u{c4}rger \u{e0} la carte.txt", "Sound\\M\u{fc}nchen.ogg"]),
];

fn family_file(name: &str, k: usize, salt: u32) -> FileSpec {
    FileSpec {
        name: name.to_string(),
        class: ALL_CLASSES[(k + salt as usize) % ALL_CLASSES.len()],
        // every member of a family has its own length, hence its own content
        len: LenSpec { halves: (k % 2) as u8, delta: 40 + 3 * k as i16 },
        seed: 1000 + 17 * salt + k as u32,
        method: METHODS[(k + salt as usize) % 4],
        enc: if k % 3 == 2 { Enc::Key } else { Enc::None },
        locale: 0,
    }
}

fn with_contention<T>(on: bool, f: impl FnOnce() -> T) -> T {
    if !on {
        return f();
    }
    let stop = Arc::new(AtomicBool::new(false));
    let hs: Vec<_> = (0..16)
        .map(|_| {
            let s = stop.clone();
            std::thread::spawn(move || {
                let mut x = 1u64;
                while !s.load(Ordering::Relaxed) {
                    for _ in 0..10_000 {
                        x = x.wrapping_mul(6364136223846793005).wrapping_add(1);
                    }
                    std::hint::black_box(x);
                }
            })
        })
        .collect();
    let r = f();
    stop.store(true, Ordering::Relaxed);
    for h in hs {
        let _ = h.join();
    }
    r
}

fn check_case(check: &Check, case: &Case, origin: &str) -> CaseResult {
    let dir = engine::scratch("c09");
    let path = dir.path().join("a.mpq");
    let mut spec = case.spec.clone();
    spec.listfile = case.listfile_mode % 3 != 1;
    let builder = if case.listfile_mode % 3 == 2 {
        let lf = dir.path().join("names.txt");
        let text: String = spec.files.iter().step_by(2).map(|f| format!("{}\r\n", f.name)).collect();
        std::fs::write(&lf, text).map_err(|e| engine::Fail::new("harness:io", e.to_string()))?;
        spec.builder().listfile_option(wow_mpq::ListfileOption::External(lf))
    } else {
        spec.builder()
    };
    // lossy selectors are not in METHODS; build must succeed
    if engine::guard("build", || builder.build(&path))?.is_err() {
        check.bump("discard_build_err", 1);
        return Ok(());
    }
    if case.damage > 0 && !spec.files.is_empty() {
        let victim = &spec.files[(case.damage as usize - 1) % spec.files.len()];
        let info = Archive::open(&path).ok().and_then(|mut a| a.find_file(&victim.name).ok().flatten());
        if let Some(info) = info {
            if info.compressed_size >= 8 {
                let mut bytes = std::fs::read(&path).map_err(|e| engine::Fail::new("harness:io", e.to_string()))?;
                let at = info.file_pos as usize + info.compressed_size as usize / 2;
                for b in bytes.iter_mut().skip(at).take(6) {
                    *b ^= 0xA5;
                }
                std::fs::write(&path, bytes).map_err(|e| engine::Fail::new("harness:io", e.to_string()))?;
                check.bump("archives_with_a_damaged_file", 1);
            }
        }
    }
    let names: Vec<String> = case.requests.iter().enumerate().map(|(i, &r)| name_of(case, i, r)).collect();
    let refs: Vec<&str> = names.iter().map(|s| s.as_str()).collect();
    // sequential oracle
    let mut seq = Archive::open(&path).map_err(|e| engine::Fail::new("open-failed", format!("{e}")))?;
    let mut cache: std::collections::BTreeMap<String, Slot> = Default::default();
    for n in &names {
        if !cache.contains_key(n) {
            let r = seq.read_file(n).map_err(|e| err_kind(&e));
            cache.insert(n.clone(), r);
        }
    }
    let want: Vec<&Slot> = names.iter().map(|n| &cache[n]).collect();
    let any_missing = want.iter().any(|s| s.is_err());
    // every failing name is one that a coarser comparison would take for a requested name that can be read
    let missing_confusable = any_missing && {
        let readable: std::collections::BTreeSet<String> = names.iter().zip(want.iter()).filter(|(_, w)| w.is_ok()).map(|(n, _)| coarse_key(n)).collect();
        names.iter().zip(want.iter()).filter(|(_, w)| w.is_err()).all(|(n, _)| readable.contains(&coarse_key(n)))
    };
    if missing_confusable {
        check.bump("request_lists_whose_missing_names_are_confusable_with_a_readable_one", 1);
    }
    if let Some(fam) = origin.strip_prefix("grid-names:").and_then(|o| o.strip_suffix(":once")) {
        // the archive keeps the members of the family apart (otherwise the family shows nothing)
        let distinct: std::collections::BTreeSet<&Vec<u8>> = want.iter().filter_map(|w| w.as_ref().ok()).collect();
        if any_missing || distinct.len() != names.len() {
            FAMILY_NOT_KEPT_APART.lock().unwrap().push(fam.to_string());
        }
    }
    let has_dup = {
        let mut s = std::collections::BTreeSet::new();
        names.iter().any(|n| !s.insert(n))
    };
    // shape of the request list with respect to names: the same member asked for under several spellings, and
    // distinct members (or a member and a missing name) whose names a coarser comparison would take for one
    let (respell, conf) = {
        let mut by_member: std::collections::BTreeMap<Vec<u8>, &str> = Default::default();
        let mut by_coarse: std::collections::BTreeMap<String, Vec<u8>> = Default::default();
        let (mut respell, mut conf) = (false, false);
        for n in &names {
            let mk = member_key(n);
            if let Some(first) = by_member.get(&mk) {
                respell |= *first != n.as_str();
            } else {
                by_member.insert(mk.clone(), n.as_str());
            }
            match by_coarse.get(&coarse_key(n)) {
                Some(other) => conf |= *other != mk,
                None => {
                    by_coarse.insert(coarse_key(n), mk);
                }
            }
        }
        (respell, conf)
    };
    if conf {
        check.bump("request_lists_with_confusable_distinct_names", 1);
    }
    if respell {
        check.bump("request_lists_with_one_member_under_several_spellings", 1);
    }
    let nb = if case.batch == 0 { 0 } else { names.len().div_ceil(case.batch) };
    let lc = match names.len() {
        0 => "0",
        1 => "1",
        2..=99 => "2-99",
        100..=1000 => "100-1000",
        1001..=5000 => "1001-5000",
        _ => ">5000",
    };
    let class = format!(
        "{origin}:len{lc}:thr{}:batches{}:skip{}:missing{}:dup{}:cont{}:lf{}:ord{}:dmg{}:respell{}:conf{}",
        case.threads.min(17),
        nb.min(5),
        case.skip_errors as u8,
        any_missing as u8,
        has_dup as u8,
        case.contention as u8,
        case.listfile_mode % 3,
        case.cfg_order % 6,
        (case.damage > 0) as u8,
        respell as u8,
        conf as u8
    );
    let nontrivial = case.threads >= 2 && nb >= 2 && (has_dup || any_missing || respell || conf);
    check.count(&class, nontrivial);
    check.sample(&format!("{lc}{}{}", case.skip_errors, any_missing), || {
        json!({"files": spec.files.len(), "requests": names.len(), "first_requests": names.iter().take(6).collect::<Vec<_>>(), "threads": case.threads, "batch": case.batch, "skip_errors": case.skip_errors, "missing": any_missing, "dup": has_dup})
    });

    let path2 = path.clone();
    let run_all = || -> CaseResult {
        // 1. extract_with_config
        // the three setters are independent: every call order must give the same configuration
        let mut cfg = ParallelConfig::new();
        for step in [[0u8, 1, 2], [0, 2, 1], [1, 0, 2], [1, 2, 0], [2, 0, 1], [2, 1, 0]][(case.cfg_order % 6) as usize] {
            cfg = match step {
                0 => cfg.threads(case.threads),
                1 => cfg.batch_size(case.batch),
                _ => cfg.skip_errors(case.skip_errors),
            };
        }
        let r = engine::guard("extract_with_config", || extract_with_config(&path2, &refs, cfg))?;
        let route = if names.len() > 1000 { "batched" } else { "unbatched" };
        match r {
            Err(e) => {
                if case.skip_errors || !any_missing {
                    vfail!(
                        format!("extract_with_config-fails-as-a-whole:{route}:skip{}", case.skip_errors as u8),
                        "extract_with_config returned Err({e}) with skip_errors={} and missing={any_missing}; {} requests",
                        case.skip_errors,
                        names.len()
                    );
                }
            }
            Ok(list) => {
                if !case.skip_errors && any_missing {
                    vfail!(
                        format!("extract_with_config-ok-despite-missing-name:{route}"),
                        "call succeeded although a requested name is missing and skip_errors is off"
                    );
                }
                if list.len() != names.len() {
                    vfail!(
                        format!("extract_with_config-result-count:{route}"),
                        "{} results for {} requests (batch {}, threads {})",
                        list.len(),
                        names.len(),
                        case.batch,
                        case.threads
                    );
                }
                for (i, (n, slot)) in list.iter().enumerate() {
                    if n != &names[i] {
                        vfail!(
                            format!("extract_with_config-order:{route}"),
                            "slot {i} carries {n:?}, request was {:?}",
                            names[i]
                        );
                    }
                    match (slot, want[i]) {
                        (Ok(a), Ok(b)) if a == b => {}
                        (Err(e), Err(k)) if &err_kind(e) == k => {}
                        (a, b) => vfail!(
                            match a.as_ref().map(|d| slot_diag(&names, &want, i, d)).unwrap_or("") {
                                "" => format!("extract_with_config-slot-differs:{route}"),
                                d => format!("extract_with_config-{d}:{route}"),
                            },
                            "slot {i} ({:?}) = {:?}, sequential read gives {:?}",
                            names[i],
                            a.as_ref().map(|d| d.len()).map_err(err_kind),
                            b.as_ref().map(|d| d.len())
                        ),
                    }
                }
            }
        }
        // 2. ParallelArchive interfaces
        let pa = ParallelArchive::open(&path2).map_err(|e| engine::Fail::new("parallel-open-failed", format!("{e}")))?;
        let all_ok: Option<Vec<(String, Vec<u8>)>> = if any_missing {
            None
        } else {
            Some(names.iter().zip(want.iter()).map(|(n, s)| (n.clone(), s.as_ref().unwrap().clone())).collect())
        };
        let cmp = |label: &str, got: wow_mpq::Result<Vec<(String, Vec<u8>)>>| -> CaseResult {
            match (got, &all_ok) {
                (Ok(g), Some(w)) => {
                    if &g != w {
                        let pos = g.iter().zip(w.iter()).position(|(a, b)| a != b);
                        // a slot with the requested name and the bytes another request of this call should get
                        let diag = match pos {
                            Some(i) if g.len() == w.len() && g[i].0 == w[i].0 => slot_diag(&names, &want, i, &g[i].1),
                            _ => "",
                        };
                        vfail!(
                            if diag.is_empty() { format!("{label}-differs-from-sequential") } else { format!("{label}-{diag}") },
                            "{label}: {} results vs {} expected, first difference at {:?}{}",
                            g.len(),
                            w.len(),
                            pos,
                            pos.filter(|_| !diag.is_empty()).map(|i| format!(" (request {:?}: {diag})", names[i])).unwrap_or_default()
                        );
                    }
                    Ok(())
                }
                (Err(_), None) => Ok(()),
                (Ok(_), None) => vfail!(
                    format!("{label}-ok-despite-missing-name{}", if missing_confusable { ":confusable-with-a-readable-request" } else { "" }),
                    "{label} succeeded although a name is missing ({:?})",
                    names.iter().zip(want.iter()).find(|(_, w)| w.is_err()).map(|(n, _)| n)
                ),
                (Err(e), Some(_)) => vfail!(format!("{label}-fails-without-missing-name"), "{label} failed: {e}"),
            }
        };
        cmp("extract_files_parallel", engine::guard("extract_files_parallel", || pa.extract_files_parallel(&refs))?)?;
        if case.batch > 0 {
            cmp("extract_files_batched", engine::guard("extract_files_batched", || pa.extract_files_batched(&refs, case.batch))?)?;
        }
        let proc = engine::guard("process_files_parallel", || {
            pa.process_files_parallel(&refs, |n, d| Ok((n.to_string(), d)))
        })?;
        cmp("process_files_parallel", proc)?;
        // predicate: names containing a digit chosen by the case
        let needle = format!("{}", case.batch % 10);
        let got = engine::guard("extract_matching_parallel", || pa.extract_matching_parallel(|n| n.contains(&needle)))?;
        let mut seq2 = Archive::open(&path2).unwrap();
        let mut wantm = vec![];
        let mut fail_expected = false;
        for n in pa.list_files() {
            if n.contains(&needle) {
                match seq2.read_file(n) {
                    Ok(d) => wantm.push((n.clone(), d)),
                    Err(_) => fail_expected = true,
                }
            }
        }
        match got {
            Ok(g) => {
                if fail_expected || g != wantm {
                    vfail!("extract_matching_parallel-differs-from-sequential", "{} results vs {} expected", g.len(), wantm.len());
                }
            }
            Err(e) => {
                if !fail_expected {
                    vfail!("extract_matching_parallel-fails", "failed: {e}");
                }
            }
        }
        Ok(())
    };
    let mut first: Option<CaseResult> = None;
    for rep in 0..case.reps.max(1) {
        let r = with_contention(case.contention && rep % 2 == 1, &run_all);
        if let Err(f) = &r {
            if rep > 0 && first.as_ref().map(|x| x.is_ok()).unwrap_or(false) {
                vfail!("result-depends-on-scheduling", "repetition {rep} failed ({}) after an identical call succeeded", f.message);
            }
            return r;
        }
        if first.is_none() {
            first = Some(r);
        }
    }
    Ok(())
}

fn multi_archive_check(check: &Check) {
    use wow_mpq::parallel::*;
    let dir = engine::scratch("c09m");
    let mut paths = vec![];
    for a in 0..5u32 {
        let p = dir.path().join(["patch.mpq", "patch-2.mpq", "common.mpq", "part_10.mpq", "part_2.mpq"][a as usize]);
        let mut files: Vec<FileSpec> = (0..6)
            .map(|i| FileSpec {
                name: format!("common/f{i}.dat"),
                class: ContentClass::Text,
                len: LenSpec { halves: i as u8, delta: 11 },
                seed: a * 100 + i,
                method: METHODS[(i as usize) % 4],
                enc: if i == 3 { Enc::Key } else { Enc::None },
                locale: 0,
            })
            .collect();
        if a % 2 == 0 {
            files.push(FileSpec { name: format!("only_even_{a}.bin"), class: ContentClass::Random, len: LenSpec { halves: 1, delta: 0 }, seed: a, method: M_NONE, enc: Enc::None, locale: 0 });
        }
        let spec = ArchiveSpec { version: 1 + (a % 4) as u8, shift: 0, crcs: false, attrs: Attrs::None, listfile: true, compress_tables: false, table_method: M_ZLIB, files };
        spec.builder().build(&p).expect("build multi");
        paths.push((p, spec));
    }
    let ps: Vec<std::path::PathBuf> = paths.iter().map(|(p, _)| p.clone()).collect();
    for rep in 0..6 {
        check.count(&format!("multi-archive:rep{}", rep % 2), true);
        let r = with_contention(rep % 2 == 1, || extract_from_multiple_archives(&ps, "common\\f3.dat"));
        match r {
            Ok(v) => {
                for (i, (p, d)) in v.iter().enumerate() {
                    if p != &ps[i] || d != &paths[i].1.content(3) {
                        check.fail(&engine::Fail::new("extract_from_multiple_archives-differs", format!("slot {i}")), json!({"multi": "common"}));
                    }
                }
                if v.len() != ps.len() {
                    check.fail(&engine::Fail::new("extract_from_multiple_archives-count", format!("{} of {}", v.len(), ps.len())), json!({"multi": "count"}));
                }
            }
            Err(e) => {
                check.fail(&engine::Fail::new("extract_from_multiple_archives-fails", format!("{e}")), json!({"multi": "err"}));
            }
        }
        // a name only some archives have → whole call fails
        if extract_from_multiple_archives(&ps, "only_even_0.bin").is_ok() {
            check.fail(&engine::Fail::new("extract_from_multiple_archives-ok-despite-missing", "name only in archive 0"), json!({"multi": "missing"}));
        }
        let names = ["common/f0.dat", "COMMON\\F5.DAT", "common/f0.dat"];
        match extract_multiple_from_multiple_archives(&ps, &names) {
            Ok(v) => {
                for (i, (p, files)) in v.iter().enumerate() {
                    let w: Vec<(String, Vec<u8>)> = vec![
                        (names[0].to_string(), paths[i].1.content(0)),
                        (names[1].to_string(), paths[i].1.content(5)),
                        (names[2].to_string(), paths[i].1.content(0)),
                    ];
                    if p != &ps[i] || files != &w {
                        check.fail(&engine::Fail::new("extract_multiple_from_multiple_archives-differs", format!("archive {i}")), json!({"multi": "multiple"}));
                    }
                }
            }
            Err(e) => {
                check.fail(&engine::Fail::new("extract_multiple_from_multiple_archives-fails", format!("{e}")), json!({"multi": "multiple-err"}));
            }
        }
        match search_in_multiple_archives(&ps, "only_even") {
            Ok(v) => {
                for (i, (_, m)) in v.iter().enumerate() {
                    let expect = if i % 2 == 0 { 1 } else { 0 };
                    if m.len() != expect {
                        check.fail(&engine::Fail::new("search_in_multiple_archives-differs", format!("archive {i}: {m:?}")), json!({"multi": "search"}));
                    }
                }
            }
            Err(e) => {
                check.fail(&engine::Fail::new("search_in_multiple_archives-fails", format!("{e}")), json!({"multi": "search-err"}));
            }
        }
    }
}

/// The command-line front end of the parallel extraction (anchored in warcraft-rs/src/commands/mpq.rs):
/// with --skip-errors a failing name affects only its own slot (the command does not fail as a whole and
/// every other requested file is written), without it the command fails as a whole — whatever the length of
/// the request list and the position of the failing names.
fn cli_skip_errors(check: &Check) {
    let cli = std::env::var("VERIF_CLI").unwrap_or_else(|_| "/verif/target/repo/debug/warcraft-rs".into());
    if !std::path::Path::new(&cli).exists() {
        check.inconclusive(&format!("CLI binary {cli:?} not found (set VERIF_CLI or run /verif/check C09)"));
        return;
    }
    let dir = engine::scratch("c09cli");
    let arch = dir.path().join("a.mpq");
    let files: Vec<(String, Vec<u8>)> = (0..4usize).map(|i| (format!("f{i}.bin"), (0..(50 + i * 7000)).map(|k| ((k * 13 + i) % 251) as u8).collect())).collect();
    let mut b = wow_mpq::ArchiveBuilder::new().version(wow_mpq::FormatVersion::V1).listfile_option(wow_mpq::ListfileOption::Generate);
    for (n, d) in &files {
        b = b.add_file_data(d.clone(), n);
    }
    if let Err(e) = b.build(&arch) {
        check.inconclusive(&format!("cli clause: cannot build the archive: {e}"));
        return;
    }
    // request lists: P = present (index), M = missing
    let lists: Vec<Vec<Option<usize>>> = vec![
        vec![None],
        vec![Some(0)],
        vec![Some(2), None],
        vec![None, Some(1)],
        vec![Some(0), None, Some(3)],
        vec![None, None],
        vec![Some(3), Some(1), Some(2)],
    ];
    let mut run = 0;
    for list in &lists {
        for skip in [false, true] {
            for threads in [None, Some(1u8), Some(4)] {
                run += 1;
                let out = dir.path().join(format!("out{run}"));
                let names: Vec<String> = list.iter().enumerate().map(|(k, e)| e.map(|i| files[i].0.clone()).unwrap_or_else(|| format!("missing_{k}.bin"))).collect();
                // every other run extracts into a directory that already holds files of the same names and sizes
                // with other content (an earlier extraction of another archive): what a read returns is what is written
                let stale = run % 2 == 0;
                if stale {
                    std::fs::create_dir_all(&out).expect("out dir");
                    for e in list.iter().flatten() {
                        std::fs::write(out.join(&files[*e].0), vec![0x5Au8; files[*e].1.len()]).expect("stale file");
                    }
                }
                let mut cmd = std::process::Command::new(&cli);
                cmd.args(["mpq", "extract"]).arg(&arch).arg("-o").arg(&out);
                if let Some(t) = threads {
                    cmd.args(["--threads", &t.to_string()]);
                }
                if skip {
                    cmd.arg("--skip-errors");
                }
                cmd.arg("--").args(&names).stdin(std::process::Stdio::null());
                let o = match cmd.output() {
                    Ok(o) => o,
                    Err(e) => {
                        check.inconclusive(&format!("cli clause: cannot run {cli:?}: {e}"));
                        return;
                    }
                };
                let n_missing = list.iter().filter(|e| e.is_none()).count();
                check.count(&format!("cli:names{}:missing{}:skip{}:thr{}", list.len(), n_missing.min(2), skip as u8, threads.map(|t| t.to_string()).unwrap_or("-".into())), n_missing > 0);
                let shown = format!("`mpq extract a.mpq -o out{}{} -- {}` → exit {:?}, stderr {:?}", threads.map(|t| format!(" --threads {t}")).unwrap_or_default(), if skip { " --skip-errors" } else { "" }, names.join(" "), o.status.code(), engine::truncate(&String::from_utf8_lossy(&o.stderr), 200));
                let case = json!({"cli": {"names": names, "skip_errors": skip, "threads": threads, "stale_files_in_output_directory": stale}});
                if n_missing > 0 && !skip {
                    if o.status.success() {
                        check.fail(&engine::Fail::new("cli-extract-exit0-with-missing-name-without-skip-errors", shown.clone()), case.clone());
                    }
                    continue;
                }
                if !o.status.success() {
                    let sig = if n_missing > 0 { "cli-extract-fails-as-a-whole-despite-skip-errors" } else { "cli-extract-fails-on-present-names" };
                    check.fail(&engine::Fail::new(sig, format!("{shown} — {} of {} requested names exist and a failing name may only affect its own slot", list.len() - n_missing, list.len())), case.clone());
                    continue;
                }
                for e in list.iter().flatten() {
                    let got = std::fs::read(out.join(&files[*e].0)).ok();
                    if got.as_ref() != Some(&files[*e].1) {
                        check.fail(&engine::Fail::new("cli-extract-present-name-not-written-identically", format!("{shown} — {:?} is {} in the output directory", files[*e].0, got.map(|g| format!("{} other bytes", g.len())).unwrap_or("absent".into()))), case.clone());
                    }
                }
            }
        }
    }
}

/// Generated cases for the multi-archive helpers: 0..9 archives with overlapping file sets, a single
/// name / a name list (duplicates, case and slash variants, missing names) / a search pattern /
/// a processor; each helper must return one entry per archive in the order given, equal to what
/// opening and reading the archives one after the other gives, and must fail as a whole exactly
/// when one of those sequential steps fails.
fn multi_archive_generated(check: &Check, cases: usize) {
    use rand::Rng;
    use wow_mpq::parallel::*;
    let mut rng = engine::rng(check.sub_seed("c09-multi"));
    let pool = ["common\\a.dat", "common\\b.dat", "Dir\\Sub\\c.bin", "d.txt", "only\\e.bin", "f", "Common\\g.DAT", "h.h"];
    for case in 0..cases {
        let dir = engine::scratch("c09mg");
        let k = [0usize, 1, 2, 2, 3, 5, 9][rng.random_range(0..7)];
        let mut paths = vec![];
        let mut specs = vec![];
        for a in 0..k {
            let n = rng.random_range(0..=pool.len().min(6));
            let mut idx: Vec<usize> = (0..pool.len()).collect();
            for i in 0..n {
                let j = rng.random_range(i..idx.len());
                idx.swap(i, j);
            }
            let files: Vec<FileSpec> = idx[..n]
                .iter()
                .map(|&i| FileSpec {
                    name: pool[i].to_string(),
                    class: ALL_CLASSES[(i + a) % ALL_CLASSES.len()],
                    len: LenSpec { halves: rng.random_range(0..4), delta: rng.random_range(0..9) },
                    seed: rng.random(),
                    method: METHODS[rng.random_range(0..4)],
                    enc: if rng.random_range(0..6) == 0 { Enc::Key } else { Enc::None },
                    locale: 0,
                })
                .collect();
            let spec = ArchiveSpec { version: rng.random_range(1..=4), shift: rng.random_range(0..3), crcs: false, attrs: Attrs::None, listfile: true, compress_tables: false, table_method: M_ZLIB, files };
            // archive file names in the order a caller chooses (load order), which is not the order of the
            // path names: patch-2 sorts before patch, part_10 before part_2
            let p = dir.path().join(["patch.mpq", "patch-2.mpq", "common.mpq", "part_10.mpq", "part_2.mpq", "Zeta.mpq", "alpha.mpq", "expansion.mpq", "base.mpq"][(a + case) % 9]);
            if paths.contains(&p) || spec.builder().build(&p).is_err() {
                continue;
            }
            paths.push(p);
            specs.push(spec);
        }
        let spell = |rng: &mut rand_chacha::ChaCha8Rng, n: &str| match rng.random_range(0..4) {
            0 => n.to_ascii_uppercase(),
            1 => n.replace('\\', "/"),
            2 => n.to_ascii_lowercase(),
            _ => n.to_string(),
        };
        let pick = |rng: &mut rand_chacha::ChaCha8Rng| if rng.random_range(0..6) == 0 { "not\\there.bin".to_string() } else { let i = rng.random_range(0..pool.len()); spell(rng, pool[i]) };
        let seq_read = |p: &std::path::PathBuf, n: &str| -> Result<Vec<u8>, String> { Archive::open(p).and_then(|mut a| a.read_file(n)).map_err(|e| err_kind(&e)) };
        let class = |what: &str, any_err: bool| format!("multi-gen:{what}:archives{}:{}", paths.len().min(4), if any_err { "some-step-fails" } else { "all-ok" });
        let contention = case % 4 == 3;

        // one name from every archive
        let name = pick(&mut rng);
        let want: Vec<Result<Vec<u8>, String>> = paths.iter().map(|p| seq_read(p, &name)).collect();
        let any_err = want.iter().any(|w| w.is_err());
        check.count(&class("one-name", any_err), paths.len() >= 2);
        match with_contention(contention, || extract_from_multiple_archives(&paths, &name)) {
            Ok(v) => {
                if any_err {
                    check.fail(&engine::Fail::new("extract_from_multiple_archives-ok-despite-missing", format!("{name:?} cannot be read from every archive, yet Ok")), json!({"multi": "gen-one", "case": case}));
                } else if v.len() != paths.len() || v.iter().enumerate().any(|(i, (p, d))| p != &paths[i] || Ok(d.clone()) != want[i]) {
                    check.fail(&engine::Fail::new("extract_from_multiple_archives-differs", format!("{name:?} over {} archives: result differs from reading the archives in turn", paths.len())), json!({"multi": "gen-one", "case": case}));
                }
            }
            Err(e) => {
                if !any_err {
                    check.fail(&engine::Fail::new("extract_from_multiple_archives-fails", format!("{name:?}: {e}")), json!({"multi": "gen-one", "case": case}));
                }
            }
        }
        // several names from every archive
        // mostly a few names; one case in four asks for a long list (more names than files, so with
        // repeats, in shuffled order): results must stay in request order whatever the length
        let n_names = if case % 4 == 1 { rng.random_range(33..90) } else { rng.random_range(0..5) };
        let long_list_all_present = case % 8 == 1;
        let names: Vec<String> = (0..n_names)
            .map(|_| {
                if long_list_all_present && !specs.is_empty() {
                    // names every archive holds (if any): a long request that succeeds
                    let common: Vec<&str> = pool.iter().copied().filter(|n| specs.iter().all(|s| s.files.iter().any(|f| f.name == *n))).collect();
                    if !common.is_empty() {
                        let i = rng.random_range(0..common.len());
                        return spell(&mut rng, common[i]);
                    }
                }
                pick(&mut rng)
            })
            .collect();
        let refs: Vec<&str> = names.iter().map(|s| s.as_str()).collect();
        let wantm: Vec<Vec<Result<Vec<u8>, String>>> = paths.iter().map(|p| names.iter().map(|n| seq_read(p, n)).collect()).collect();
        let any_err = wantm.iter().flatten().any(|w| w.is_err());
        check.count(&class(&format!("names{}", names.len().min(3)), any_err), paths.len() >= 2 && names.len() >= 2);
        match with_contention(contention, || extract_multiple_from_multiple_archives(&paths, &refs)) {
            Ok(v) => {
                let same = v.len() == paths.len()
                    && v.iter().enumerate().all(|(i, (p, files))| {
                        p == &paths[i] && files.len() == names.len() && files.iter().enumerate().all(|(j, (n, d))| n == &names[j] && Ok(d.clone()) == wantm[i][j])
                    });
                if any_err {
                    check.fail(&engine::Fail::new("extract_multiple_from_multiple_archives-ok-despite-missing", format!("{names:?}")), json!({"multi": "gen-many", "case": case}));
                } else if !same {
                    check.fail(&engine::Fail::new("extract_multiple_from_multiple_archives-differs", format!("{names:?} over {} archives", paths.len())), json!({"multi": "gen-many", "case": case}));
                }
            }
            Err(e) => {
                if !any_err {
                    check.fail(&engine::Fail::new("extract_multiple_from_multiple_archives-fails", format!("{names:?}: {e}")), json!({"multi": "gen-many", "case": case}));
                }
            }
        }
        // search: names of each archive's listing that contain the pattern
        let pat = ["common", "Common", ".dat", "\\", "e", "", "zzz", "DAT"][rng.random_range(0..8)];
        let wants: Vec<Result<Vec<String>, String>> = paths
            .iter()
            .map(|p| Archive::open(p).and_then(|mut a| a.list()).map(|l| l.into_iter().map(|e| e.name).filter(|n| n.contains(pat)).collect()).map_err(|e| err_kind(&e)))
            .collect();
        let any_err = wants.iter().any(|w| w.is_err());
        check.count(&class("search", any_err), paths.len() >= 2);
        match search_in_multiple_archives(&paths, pat) {
            Ok(v) => {
                let same = v.len() == paths.len()
                    && v.iter().enumerate().all(|(i, (p, m))| {
                        let mut a = m.clone();
                        let mut b = wants[i].clone().unwrap_or_default();
                        a.sort();
                        b.sort();
                        p == &paths[i] && a == b
                    });
                if any_err || !same {
                    check.fail(&engine::Fail::new("search_in_multiple_archives-differs", format!("pattern {pat:?} over {} archives", paths.len())), json!({"multi": "gen-search", "case": case}));
                }
            }
            Err(e) => {
                if !any_err {
                    check.fail(&engine::Fail::new("search_in_multiple_archives-fails", format!("{pat:?}: {e}")), json!({"multi": "gen-search", "case": case}));
                }
            }
        }
        // processor: one result per archive, in order
        check.count(&class("process", false), paths.len() >= 2);
        match process_archives_parallel(&paths, |mut a| Ok(a.list()?.len())) {
            Ok(v) => {
                let w: Vec<usize> = paths.iter().map(|p| Archive::open(p).and_then(|mut a| a.list()).map(|l| l.len()).unwrap_or(usize::MAX)).collect();
                if v != w {
                    check.fail(&engine::Fail::new("process_archives_parallel-differs", format!("{v:?} vs {w:?}")), json!({"multi": "gen-process", "case": case}));
                }
            }
            Err(e) => {
                check.fail(&engine::Fail::new("process_archives_parallel-fails", format!("{e}")), json!({"multi": "gen-process", "case": case}));
            }
        }
    }
}

fn fixed_spec(nfiles: usize) -> ArchiveSpec {
    ArchiveSpec {
        version: 2,
        shift: 0,
        crcs: false,
        attrs: Attrs::None,
        listfile: true,
        compress_tables: false,
        table_method: M_ZLIB,
        files: (0..nfiles)
            .map(|i| FileSpec {
                name: format!("d{}/file{i}.bin", i % 3),
                class: ALL_CLASSES[i % ALL_CLASSES.len()],
                len: LenSpec { halves: (i % 5) as u8, delta: (i as i16) % 7 },
                seed: i as u32,
                method: METHODS[i % 4],
                enc: if i % 6 == 5 { Enc::Key } else { Enc::None },
                locale: 0,
            })
            .collect(),
    }
}

fn grid(thorough: bool) -> Vec<Case> {
    let mut v = vec![];
    let spec = fixed_spec(12);
    let n = spec.files.len() as u16;
    let b = 10usize;
    let mut lens = vec![0usize, 1, b - 1, b, b + 1, 2 * b, 999, 1000, 1001, 1500];
    if thorough {
        lens.push(5001);
    } else {
        lens.push(5001);
    }
    for &len in &lens {
        for (mi, missing_pos) in [None, Some(0usize), Some(len / 2), Some(len.saturating_sub(1))].iter().enumerate() {
            for skip in [false, true] {
                for (threads, batch) in [(1usize, 10usize), (4, 10), (16, 3), (7, 1000)] {
                    if len > 1500 && !(threads == 4 || threads == 16) {
                        continue;
                    }
                    if len == 0 && mi > 0 {
                        continue;
                    }
                    let mut requests: Vec<u16> = (0..len).map(|i| ((i * 7 + i / 5) % n as usize) as u16).collect();
                    if let Some(p) = missing_pos {
                        if len > 0 {
                            requests[*p] = n + 1;
                        }
                    }
                    v.push(Case { spec: spec.clone(), requests, n_missing_pool: 3, threads, batch, skip_errors: skip, reps: 1, contention: false, cfg_order: (v.len() % 6) as u8, listfile_mode: ((v.len() / 6) % 3) as u8, damage: if v.len() % 5 == 4 { 1 + (v.len() % 7) as u8 } else { 0 }, spell: vec![] });
                }
            }
        }
    }
    v
}

/// Names grid: for every family of confusable names an archive of 6 plain files + the family, and request lists that
/// put the members of the family into ONE call: each once (both orders), repeated and respelt (ASCII case / slashes:
/// the same member), and under full Unicode upper/lower case (another member, or no member: a failing slot).
/// Plus one archive with all families and request lists long enough for the batched path (> 1000 names).
fn grid_names() -> Vec<(String, Case)> {
    let mut v = vec![];
    let base = 6usize;
    let mk = |spec: &ArchiveSpec, requests: Vec<u16>, spell: Vec<u8>, threads: usize, batch: usize, skip: bool, k: usize| Case {
        spec: spec.clone(),
        requests,
        n_missing_pool: 3,
        threads,
        batch,
        skip_errors: skip,
        reps: 1,
        contention: false,
        cfg_order: (k % 6) as u8,
        listfile_mode: ((k / 2) % 3) as u8,
        damage: 0,
        spell,
    };
    for (fi, (kind, fam)) in FAMILIES.iter().enumerate() {
        let mut spec = fixed_spec(base);
        for (k, nm) in fam.iter().enumerate() {
            spec.files.push(family_file(nm, k, fi as u32));
        }
        let n = spec.files.len() as u16;
        let once: Vec<u16> = (0..n).collect();
        let reverse: Vec<u16> = (0..n).rev().collect();
        // three rounds over the family (rotated), a plain file between the rounds
        let mut repeat: Vec<u16> = vec![];
        for round in 0..3usize {
            for k in 0..fam.len() {
                repeat.push((base + (k + round) % fam.len()) as u16);
            }
            repeat.push(round as u16);
        }
        // stored name, its Unicode upper case, its Unicode lower case — for every member
        let unicase: Vec<u16> = (0..fam.len()).flat_map(|k| [(base + k) as u16; 3]).chain([0u16, 0, 0]).collect();
        for (ti, (threads, batch)) in [(4usize, 1usize), (16, 2), (2, 1000)].into_iter().enumerate() {
            let k = fi * 3 + ti;
            v.push((format!("grid-names:{kind}:once"), mk(&spec, once.clone(), vec![], threads, batch, k % 2 == 0, k)));
            v.push((format!("grid-names:{kind}:reverse"), mk(&spec, reverse.clone(), vec![], threads, batch, k % 2 == 1, k)));
            v.push((format!("grid-names:{kind}:repeat-respelt"), mk(&spec, repeat.clone(), vec![0, 1, 2, 3, 4], threads, batch, k % 2 == 0, k)));
            for skip in [false, true] {
                v.push((format!("grid-names:{kind}:unicode-case"), mk(&spec, unicase.clone(), vec![0, 5, 6], threads, batch, skip, k)));
            }
        }
    }
    // all families in one archive; request lists beyond 1000 names
    let mut spec = fixed_spec(base);
    for (fi, (_, fam)) in FAMILIES.iter().enumerate() {
        for (k, nm) in fam.iter().enumerate() {
            spec.files.push(family_file(nm, k + fi, fi as u32));
        }
    }
    let n = spec.files.len();
    for (ti, (threads, batch)) in [(4usize, 10usize), (16, 3)].into_iter().enumerate() {
        let all: Vec<u16> = (0..1100 + 7 * ti).map(|i| ((i * 5 + i / n) % n) as u16).collect();
        v.push(("grid-names:all-families:long".to_string(), mk(&spec, all.clone(), vec![], threads, batch, ti == 0, ti)));
        v.push(("grid-names:all-families:long-respelt".to_string(), mk(&spec, all.clone(), vec![0, 1, 2, 3, 4, 0, 3], threads, batch, ti == 1, ti)));
        for skip in [false, true] {
            v.push(("grid-names:all-families:long-unicode-case".to_string(), mk(&spec, all.clone(), vec![0, 0, 0, 5, 0, 6, 0], threads, batch, skip, ti)));
        }
    }
    v
}

/// Random strategy: put some families of confusable names into a generated archive (`plant` selects them; the
/// members take over the shape of generated files but get their own lengths) and steer a third of the requests to them.
fn plant_families(spec: &mut ArchiveSpec, plant: &[u16]) -> Vec<usize> {
    let mut planted = vec![];
    for (j, &sel) in plant.iter().enumerate() {
        let (_, fam) = FAMILIES[sel as usize % FAMILIES.len()];
        for (k, nm) in fam.iter().enumerate() {
            if spec.files.iter().any(|f| member_key(&f.name) == member_key(nm)) {
                continue;
            }
            let mut f = family_file(nm, k, sel as u32 + j as u32);
            if let Some(model) = spec.files.get(j + k) {
                f.class = model.class;
                f.method = model.method;
                f.enc = model.enc;
                f.locale = model.locale;
                f.len.halves = model.len.halves.min(2);
            }
            planted.push(spec.files.len());
            spec.files.push(f);
        }
    }
    planted
}

fn main() {
    let (check, _args) = Check::new("C09", "exploration");
    check.set_rule(
        "archive of 1..30 generated files (mixed sizes/methods, some encrypted) + a request list built from indices (so \
         duplicates and missing names appear at chosen positions), threads ∈ {1,2,3,4,7,8,16,32}, batch ∈ {1,2,3,10,25,len−1,len,len+1,1000}, \
         skip_errors on/off; grid over request lengths {0,1,b−1,b,b+1,2b,999,1000,1001,1500,5001} × missing position {none, first, middle, last} × skip × 4 (threads,batch) \
         pairs. Oracle: one sequential Archive handle. Interfaces: extract_with_config (both code paths), ParallelArchive::{extract_files_parallel, extract_files_batched, \
         process_files_parallel, extract_matching_parallel}, parallel::{extract_from_multiple_archives, extract_multiple_from_multiple_archives, search_in_multiple_archives}. \
         Random cases are repeated (2–3 times, odd repetitions under 16 busy threads). non-trivial = ≥2 threads, ≥2 batches and a duplicate, missing, respelt or confusable name; \
         distinct = length class × threads × batches × skip × missing × dup × contention × respell × conf. \
         Names: request positions carry a spelling (as stored / ASCII upper / lower / flipped slashes / mixed: the same member; full Unicode upper / lower case: \
         for names with letters outside ASCII another member or none), and archives hold families of confusable names — distinct members equal under a coarser \
         comparison than the archive's (Unicode case incl. expanding and special mappings, canonical/compatibility forms, blanks, repeated separators, prefixes); \
         names grid = 14 families × {once, reverse, repeated+respelt, Unicode-cased} × 3 (threads,batch) + an all-families archive with > 1000 requests; \
         respell = one member under several spellings in one call, conf = two requested names that are distinct members (or member and missing name) yet coarse-equal",
    );
    check.assume("thread count 0 and batch size 0 are outside the stated domain");
    check.assume("the schedule is rayon's; independence from scheduling is supported by repetition under contention, not proved");

    if let Some(p) = check.replay.clone() {
        let v: serde_json::Value = serde_json::from_str(&std::fs::read_to_string(&p).expect("replay")).expect("json");
        let case: Case = serde_json::from_value(v["case"].clone()).expect("case");
        if let Err(f) = check_case(&check, &case, "replay") {
            check.fail(&f, v["case"].clone());
        }
        check.count("replay-pad", true);
        check.finish();
    }

    multi_archive_check(&check);
    cli_skip_errors(&check);
    multi_archive_generated(&check, check.tier.pick(60usize, 1500));
    let g = grid(check.tier == engine::Tier::Thorough);
    for c in &g {
        if let Err(f) = check_case(&check, c, "grid") {
            check.fail(&f, serde_json::to_value(c).unwrap());
        }
    }
    check.set_extra("grid_cases", json!(g.len()));
    let gn = grid_names();
    for (origin, c) in &gn {
        if let Err(f) = check_case(&check, c, origin) {
            check.fail(&f, serde_json::to_value(c).unwrap());
        }
    }
    check.set_extra("names_grid_cases", json!(gn.len()));

    let n = check.tier.pick(160u32, 4000);
    let reps = check.tier.pick(2u8, 5);
    pt::run(
        &check,
        "c09",
        n,
        pt::Opts { workers: 4, ..Default::default() },
        || {
            (
                archive_strategy(params()),
                proptest::collection::vec(any::<u16>(), 0..60),
                prop_oneof![Just(1usize), Just(2), Just(3), Just(4), Just(7), Just(8), Just(16), Just(32)],
                prop_oneof![Just(1usize), Just(2), Just(3), Just(10), Just(25), Just(1000), (1usize..70)],
                any::<bool>(),
                any::<bool>(),
                0u8..6,
                prop_oneof![2 => Just(0u8), 1 => Just(1u8), 1 => Just(2u8)],
                prop_oneof![3 => Just(0u8), 1 => 1u8..9],
                // names: families of confusable names planted into the archive, and a spelling per request position
                (
                    prop_oneof![3 => Just(vec![]), 2 => proptest::collection::vec(any::<u16>(), 1..=3)],
                    prop_oneof![
                        3 => Just(vec![]),
                        2 => proptest::collection::vec(0u8..5, 1..8),
                        2 => proptest::collection::vec(prop_oneof![3 => Just(0u8), 1 => 1u8..5, 2 => 5u8..7], 1..8),
                    ],
                ),
            )
                .prop_map(move |(mut spec, sel, threads, batch, skip_errors, contention, cfg_order, listfile_mode, damage, (plant, spell))| {
                    let planted = plant_families(&mut spec, &plant);
                    let pool = spec.files.len() + 3;
                    let requests = sel
                        .iter()
                        .map(|&s| if !planted.is_empty() && s % 3 == 0 { planted[pt::pick_idx(s / 3, planted.len())] as u16 } else { pt::pick_idx(s, pool) as u16 })
                        .collect();
                    Case { spec, requests, n_missing_pool: 3, threads, batch, skip_errors, reps, contention, cfg_order, listfile_mode, damage, spell }
                })
        },
        |c| serde_json::to_value(c).unwrap(),
        |c| check_case(&check, c, "rnd"),
    );
    if check.classes_with_prefix("grid:len1001-5000") == 0 || check.classes_with_prefix("grid:len100-1000") == 0 {
        check.inconclusive("grid did not reach both extraction code paths");
    }
    for (kind, _) in FAMILIES.iter() {
        if check.classes_with_prefix(&format!("grid-names:{kind}:")) == 0 {
            check.inconclusive(&format!("names grid: no case of the family {kind:?} was evaluated (the archive could not be built)"));
        }
    }
    if check.classes_with_prefix("grid-names:all-families:long") == 0 {
        check.inconclusive("names grid: the archive with all families was not evaluated");
    }
    {
        let apart = FAMILY_NOT_KEPT_APART.lock().unwrap();
        if !apart.is_empty() {
            check.inconclusive(&format!("names grid: sequential reads of the stored names do not give every member of the families {apart:?} its own content, so these families show nothing"));
        }
    }
    check.finish();
}
