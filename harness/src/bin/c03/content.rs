//! Deterministic input builder for C03. A case's data is described by a small descriptor
//! (kind, len, seed, p) from which `build` reconstructs the bytes without proptest, or by
//! explicit bytes (hex) for small shrinkable inputs.
use serde_json::{Value, json};

#[derive(Clone, Debug, PartialEq, Eq)]
pub enum Content {
    Desc {
        kind: Kind,
        len: usize,
        seed: u64,
        p: u32,
    },
    Bytes(Vec<u8>),
}

#[derive(Clone, Copy, Debug, PartialEq, Eq, PartialOrd, Ord)]
pub enum Kind {
    /// every byte = p & 0xFF
    Const,
    /// period p (1..): a seeded table of p bytes repeated
    Period,
    /// alternating zero / non-zero runs, run lengths drawn around the sparse codec thresholds
    Runs,
    /// 2..4 symbols, heavily skewed
    LowEnt,
    /// words from a small dictionary
    Text,
    /// seeded uniform bytes
    Random,
    /// random bytes with one long zero hole (position/length from p)
    Hole,
    /// 16-bit little-endian saw, step p
    PcmSaw,
    /// 16-bit little-endian smooth wave (integer parabola approximation of a sine), period p
    PcmSine,
    /// 16-bit uniformly random samples (worst case for ADPCM)
    PcmNoise,
    /// interleaved stereo: left constant 0, right full-scale square of half-period p samples
    StereoL0,
    /// mirror: right constant 0, left full-scale square
    StereoR0,
    /// compressible head (zeros/period) followed by a random tail
    HeadTail,
}

pub const ALL_KINDS: [Kind; 13] = [
    Kind::Const,
    Kind::Period,
    Kind::Runs,
    Kind::LowEnt,
    Kind::Text,
    Kind::Random,
    Kind::Hole,
    Kind::PcmSaw,
    Kind::PcmSine,
    Kind::PcmNoise,
    Kind::StereoL0,
    Kind::StereoR0,
    Kind::HeadTail,
];

impl Kind {
    pub fn name(self) -> &'static str {
        match self {
            Kind::Const => "const",
            Kind::Period => "period",
            Kind::Runs => "runs",
            Kind::LowEnt => "lowent",
            Kind::Text => "text",
            Kind::Random => "random",
            Kind::Hole => "hole",
            Kind::PcmSaw => "pcmsaw",
            Kind::PcmSine => "pcmsine",
            Kind::PcmNoise => "pcmnoise",
            Kind::StereoL0 => "stereoL0",
            Kind::StereoR0 => "stereoR0",
            Kind::HeadTail => "headtail",
        }
    }
    pub fn from_name(s: &str) -> Option<Kind> {
        ALL_KINDS.iter().copied().find(|k| k.name() == s)
    }
    /// kinds whose compressed size stays (almost) constant while the length grows: the only
    /// ones generated at 2^20..2^21 in the quick tier, and the ones the bomb-ratio switch steers
    pub fn highly_compressible(self) -> bool {
        matches!(
            self,
            Kind::Const | Kind::Period | Kind::StereoL0 | Kind::StereoR0 | Kind::PcmSaw
        )
    }
}

pub struct SplitMix(pub u64);
impl SplitMix {
    pub fn next(&mut self) -> u64 {
        self.0 = self.0.wrapping_add(0x9e3779b97f4a7c15);
        let mut z = self.0;
        z = (z ^ (z >> 30)).wrapping_mul(0xbf58476d1ce4e5b9);
        z = (z ^ (z >> 27)).wrapping_mul(0x94d049bb133111eb);
        z ^ (z >> 31)
    }
    pub fn below(&mut self, n: u64) -> u64 {
        if n == 0 { 0 } else { self.next() % n }
    }
    pub fn fill(&mut self, out: &mut Vec<u8>, n: usize) {
        let end = out.len() + n;
        while out.len() + 8 <= end {
            out.extend_from_slice(&self.next().to_le_bytes());
        }
        while out.len() < end {
            out.push(self.next() as u8);
        }
    }
}

/// run lengths around the sparse codec's thresholds (3 zeros, 0x80/0x81 literals,
/// 0x82/0x85 zeros) plus a few long ones
const RUN_LENS: [usize; 40] = [
    1, 1, 2, 2, 3, 3, 4, 5, 6, 7, 8, 0x7D, 0x7E, 0x7F, 0x80, 0x81, 0x82, 0x83, 0x84, 0x85, 0x86,
    0x87, 0x88, 0xFF, 0x100, 0x101, 0x102, 0x103, 0x104, 0x105, 0x107, 0x108, 0x109, 0x10A, 0x10B,
    0x180, 0x181, 0x18A, 1000, 5000,
];

const WORDS: [&str; 24] = [
    "Interface\\", "Glue", "XML", ".blp", "World\\Maps\\", "Azeroth", "the", " ", "\r\n", "_",
    "texture", "DBFilesClient\\", ".dbc", "Sound", "0", "1", "255", "item", "spell", "=", ";",
    "creature", "model.m2", "\t",
];

fn push_sample(out: &mut Vec<u8>, s: i16) {
    out.extend_from_slice(&s.to_le_bytes());
}

impl Content {
    pub fn kind_name(&self) -> &'static str {
        match self {
            Content::Desc { kind, .. } => kind.name(),
            Content::Bytes(_) => "bytes",
        }
    }
    pub fn to_json(&self) -> Value {
        match self {
            Content::Desc { kind, len, seed, p } => {
                json!({"kind": kind.name(), "len": len, "seed": seed.to_string(), "p": p})
            }
            Content::Bytes(b) => json!({"kind": "bytes", "hex": hex::encode(b)}),
        }
    }
    pub fn from_json(v: &Value) -> Option<Content> {
        let k = v["kind"].as_str()?;
        if k == "bytes" {
            return Some(Content::Bytes(hex::decode(v["hex"].as_str()?).ok()?));
        }
        Some(Content::Desc {
            kind: Kind::from_name(k)?,
            len: v["len"].as_u64()? as usize,
            seed: v["seed"].as_str()?.parse().ok()?,
            p: v["p"].as_u64()? as u32,
        })
    }

    pub fn build(&self) -> Vec<u8> {
        let (kind, len, seed, p) = match self {
            Content::Bytes(b) => return b.clone(),
            Content::Desc { kind, len, seed, p } => (*kind, *len, *seed, *p),
        };
        let mut r = SplitMix(seed ^ 0xC03C_03C0_3C03);
        let mut out: Vec<u8> = Vec::with_capacity(len + 16);
        match kind {
            Kind::Const => out.resize(len, p as u8),
            Kind::Period => {
                let per = (p as usize).max(1);
                let mut t = Vec::new();
                r.fill(&mut t, per);
                // make the period exact: first byte differs from all others where possible
                for i in 0..len {
                    out.push(t[i % per]);
                }
            }
            Kind::Runs => {
                // p bit0: non-zero runs are constant (1) or random non-zero (0);
                // p bit1: start with a zero run
                let mut zero = p & 2 != 0;
                while out.len() < len {
                    let n = RUN_LENS[r.below(RUN_LENS.len() as u64) as usize];
                    if zero {
                        out.resize(out.len() + n, 0);
                    } else if p & 1 != 0 {
                        let b = 1 + r.below(255) as u8;
                        out.resize(out.len() + n, b);
                    } else {
                        for _ in 0..n {
                            out.push(1 + r.below(255) as u8);
                        }
                    }
                    zero = !zero;
                }
            }
            Kind::LowEnt => {
                let k = 2 + (p % 3) as u64;
                let mut sym = Vec::new();
                r.fill(&mut sym, k as usize);
                if p & 4 != 0 {
                    sym[0] = 0;
                }
                for _ in 0..len {
                    let x = r.next();
                    // symbol 0 with probability 7/8
                    let i = if x & 7 != 0 { 0 } else { ((x >> 3) % k) as usize };
                    out.push(sym[i]);
                }
            }
            Kind::Text => {
                while out.len() < len {
                    let w = WORDS[r.below(WORDS.len() as u64) as usize];
                    out.extend_from_slice(w.as_bytes());
                }
            }
            Kind::Random => r.fill(&mut out, len),
            Kind::Hole => {
                r.fill(&mut out, len);
                if len > 0 {
                    let start = (p as usize % 1000) * len / 1000;
                    let hl = ((p as usize / 1000) % 1000 + 1) * (len - start) / 1000;
                    for b in &mut out[start..(start + hl).min(len)] {
                        *b = 0;
                    }
                }
            }
            Kind::PcmSaw => {
                let step = p as i32 % 4001;
                let mut v: i32 = (seed % 2000) as i32 - 1000;
                while out.len() < len {
                    push_sample(&mut out, v as i16);
                    v += step;
                    if v > 30000 {
                        v -= 60000;
                    }
                }
            }
            Kind::PcmSine => {
                let per = (p as i64).clamp(4, 4096);
                let mut i: i64 = 0;
                while out.len() < len {
                    // parabola approximation of sin on [0, per)
                    let x = i % per;
                    let h = per / 2;
                    let (y, sign) = if x < h { (x, 1) } else { (x - h, -1) };
                    let v = sign * (4 * 28000 * y * (h - y)) / (h * h).max(1);
                    push_sample(&mut out, v.clamp(-32768, 32767) as i16);
                    i += 1;
                }
            }
            Kind::PcmNoise => r.fill(&mut out, len),
            Kind::StereoL0 | Kind::StereoR0 => {
                let half = (p as usize).clamp(1, 4096);
                let mut i = 0usize;
                while out.len() < len {
                    let sq: i16 = if (i / half) % 2 == 0 { 30000 } else { -30000 };
                    if kind == Kind::StereoL0 {
                        push_sample(&mut out, 0);
                        push_sample(&mut out, sq);
                    } else {
                        push_sample(&mut out, sq);
                        push_sample(&mut out, 0);
                    }
                    i += 1;
                }
            }
            Kind::HeadTail => {
                // p % 1001 = permille of the compressible head; p bit 16: mirror (random head)
                let head = (p as usize % 1001) * len / 1000;
                let mirror = p & 0x1_0000 != 0;
                let mut comp = vec![0u8; head];
                for (i, b) in comp.iter_mut().enumerate() {
                    *b = if p & 0x2_0000 != 0 { (i % 5) as u8 } else { 0 };
                }
                let mut rnd = Vec::new();
                r.fill(&mut rnd, len - head.min(len));
                if mirror {
                    out.extend_from_slice(&rnd);
                    out.extend_from_slice(&comp);
                } else {
                    out.extend_from_slice(&comp);
                    out.extend_from_slice(&rnd);
                }
            }
        }
        out.truncate(len);
        debug_assert_eq!(out.len(), len);
        out
    }
}

/// the length boundaries the design names (NT rule: within ±2 of one of these)
pub const BOUNDARIES: [usize; 12] = [
    0,
    3,
    16,
    128,
    256,
    512,
    4096,
    65536,
    131072,
    1 << 20,
    (1 << 21) - 2, // so that 2^21 itself (the upper end of the quantifier) is within ±2
    1 << 21,
];

pub fn near_boundary(len: usize) -> bool {
    BOUNDARIES.iter().any(|&b| len + 2 >= b && len <= b + 2)
}

pub fn len_class(len: usize) -> &'static str {
    match len {
        0 => "0",
        1..=5 => "1-5",
        6..=130 => "6-130",
        131..=513 => "131-513",
        514..=4097 => "514-4097",
        4098..=65537 => "4k-64k",
        65538..=131073 => "64k-128k",
        131074..=1048575 => "128k-1M",
        _ => "1M-2M",
    }
}
