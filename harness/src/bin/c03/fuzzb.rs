//! Coverage-guided part of C03: libFuzzer campaigns over `/verif/fuzz/fuzz_targets/codec.rs`, which runs
//! this check's oracle (`oracle::evaluate`) inside the target. The driver `/verif/fuzz/run_codec.sh` judges
//! nothing; every artifact comes back here as an explicit-bytes case and is evaluated again in-process —
//! a reproduced clause failure is an ordinary failure of this check (signature, replay file), an artifact
//! that does not reproduce (libFuzzer's own -timeout/-rss limits under load) is counted only.
use crate::content::{Content, Kind};
use crate::oracle::{Case, fuzz_selectors};
use crate::plan::Planned;
use serde_json::{Value, json};
use std::path::{Path, PathBuf};
use vcheck::engine::{self, Check, Tier};

pub fn enabled() -> bool {
    std::env::var("VERIF_C03_FUZZ").map(|v| v != "0").unwrap_or(true) && driver().exists()
}
fn driver() -> PathBuf {
    PathBuf::from(std::env::var("VERIF_FUZZ_DIR").unwrap_or_else(|_| "/verif/fuzz".into())).join("run_codec.sh")
}

/// Seed corpus: every selector of the table once × a few content kinds × lengths around the codecs'
/// thresholds (input byte 0 = table index of the selector's first occurrence).
pub fn dump_seeds(dir: &Path) -> usize {
    std::fs::create_dir_all(dir).expect("seed dir");
    let table = fuzz_selectors();
    let mut seen = std::collections::BTreeSet::new();
    let mut n = 0;
    for (i, m) in table.iter().enumerate() {
        if !seen.insert(*m) {
            continue;
        }
        for (kind, p) in [(Kind::Text, 0u32), (Kind::Runs, 3), (Kind::LowEnt, 2), (Kind::PcmSine, 64), (Kind::HeadTail, 1)] {
            for len in [130usize, 2052] {
                let d = Content::Desc { kind, len, seed: (i as u64) * 31 + len as u64, p }.build();
                let mut f = vec![i as u8];
                f.extend_from_slice(&d);
                std::fs::write(dir.join(format!("s{:02x}-{}-{len}", m, kind.name())), f).expect("write seed");
                n += 1;
            }
        }
    }
    n
}

/// artifact bytes → the case the target evaluated
pub fn case_of(bytes: &[u8]) -> Option<Case> {
    let t = fuzz_selectors();
    let (b0, rest) = bytes.split_first()?;
    Some(Case { method: t[(*b0 as usize) % t.len()], content: Content::Bytes(rest.to_vec()) })
}

pub fn run(check: &Check, run_case: &dyn Fn(&Check, &Planned) -> engine::CaseResult) {
    let tier = check.tier.name();
    let base = PathBuf::from("/verif/target/fuzz-out");
    let out = std::env::var("VERIF_C03_FUZZ_OUT").map(PathBuf::from).unwrap_or_else(|_| base.join(format!("codec-{tier}-{}", std::process::id())));
    let seeds = out.with_file_name(format!("seeds-{}", out.file_name().unwrap_or_default().to_string_lossy()));
    let _ = std::fs::remove_dir_all(&seeds);
    let n_seeds = dump_seeds(&seeds);
    let log = std::env::temp_dir().join(format!("c03-fuzz-driver-{}.log", std::process::id()));
    let lf = std::fs::File::create(&log).expect("driver log");
    let status = std::process::Command::new(driver())
        .arg(tier)
        .arg((check.sub_seed("c03-fuzz") % 4_000_000_000).to_string())
        .arg(&out)
        .arg(&seeds)
        .stdin(std::process::Stdio::null())
        .stdout(lf.try_clone().expect("dup"))
        .stderr(lf)
        .status();
    let tail = || {
        let t = std::fs::read_to_string(&log).unwrap_or_default();
        let l: Vec<&str> = t.lines().collect();
        l[l.len().saturating_sub(8)..].join(" / ")
    };
    let code = match status {
        Ok(s) => s.code().unwrap_or(-1),
        Err(e) => {
            check.inconclusive(&format!("codec fuzzing: cannot start {:?}: {e}", driver()));
            return;
        }
    };
    if code != 0 {
        check.inconclusive(&format!("codec fuzzing: driver exit {code} (3 = build failed, 4 = a campaign could not run): {}", engine::truncate(&tail(), 600)));
    }
    let _ = std::fs::remove_file(&log);
    let Some(summary) = std::fs::read_to_string(out.join("summary.json")).ok().and_then(|s| serde_json::from_str::<Value>(&s).ok()) else {
        if code == 0 {
            check.inconclusive("codec fuzzing: no readable summary.json");
        }
        return;
    };
    let mut table = vec![];
    let mut arts: Vec<PathBuf> = vec![];
    for c in summary["campaigns"].as_array().cloned().unwrap_or_default() {
        let name = c["name"].as_str().unwrap_or("?").to_string();
        let kind = c["corpus_kind"].as_str().unwrap_or("?").to_string();
        let (runs, want, cov) = (c["runs"].as_u64().unwrap_or(0), c["runs_requested"].as_u64().unwrap_or(0), c["cov"].as_u64().unwrap_or(0));
        check.bump(&format!("fuzz:codec:{kind}:runs"), runs);
        check.bump("fuzz:codec:campaigns", 1);
        // one evaluated class per campaign; non-trivial when coverage shows the codecs were reached
        check.count(&format!("fuzz:codec:{name}:campaign"), cov > 500);
        let a: Vec<PathBuf> = c["artifacts"].as_array().cloned().unwrap_or_default().iter().filter_map(|x| x.as_str().map(PathBuf::from)).collect();
        if runs < want && a.is_empty() {
            check.inconclusive(&format!("codec fuzzing: campaign {name} executed {runs} of {want} runs without leaving an artifact"));
        }
        if cov == 0 {
            check.inconclusive(&format!("codec fuzzing: campaign {name} reported no coverage"));
        }
        table.push(json!({"name": name, "corpus": kind, "runs": runs, "runs_requested": want, "cov": cov, "ft": c["ft"], "corpus_files": c["corpus_files"], "wall_s": c["wall_s"], "restarts": c["restarts"], "artifacts": a.len()}));
        arts.extend(a);
    }
    if table.len() != 8 {
        check.inconclusive(&format!("codec fuzzing: {} of 8 campaigns reported", table.len()));
    }
    let mut judged = vec![];
    for p in &arts {
        let fname = p.file_name().map(|n| n.to_string_lossy().to_string()).unwrap_or_default();
        let kind = fname.split('-').next().unwrap_or("other").to_string();
        if kind == "slow" {
            continue;
        }
        let Some(case) = std::fs::read(p).ok().and_then(|b| case_of(&b)) else {
            check.bump("fuzz-artifact-unreadable", 1);
            continue;
        };
        let pc = Planned::new(case, "fuzz-artifact");
        match run_case(check, &pc) {
            Err(f) => {
                judged.push(json!({"artifact": fname, "kind": kind, "result": "reproduced", "signature": f.signature}));
                check.fail(&f, pc.case.to_json());
            }
            Ok(()) => {
                check.bump(&format!("fuzz-artifact-not-reproduced:{kind}"), 1);
                let keep = engine::verif_root().join("replays").join("C03").join("fuzz-artifacts");
                let _ = std::fs::create_dir_all(&keep);
                let _ = std::fs::copy(p, keep.join(&fname));
                judged.push(json!({"artifact": fname, "kind": kind, "result": "not-reproduced"}));
            }
        }
    }
    check.set_extra(
        "fuzz",
        json!({"driver": driver(), "target": "codec", "tier": tier, "driver_seed": summary["seed"], "seed_corpus_files": n_seeds,
               "flags": "-len_control=0 -max_len=8192 -timeout=30 -rss_limit_mb=3072 -malloc_limit_mb=1024", "campaigns": table, "artifacts": judged}),
    );
    if check.tier == Tier::Thorough {
        check.bump("fuzz:tier-thorough", 1);
    }
    let _ = std::fs::remove_dir_all(&out);
    let _ = std::fs::remove_dir_all(&seeds);
}
