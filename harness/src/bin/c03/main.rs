//! C03 — lossless MPQ codecs invert exactly, never expand, and accept their own output;
//! lossy ADPCM selectors preserve length and channel interleaving.
//!
//! Layout: `content.rs` deterministic input builder (descriptor → bytes), `oracle.rs` the
//! judge, `plan.rs` the deterministic grid, canaries, exclusion switches and the random
//! strategy. Everything runs in-process; library panics are caught with `engine::guard`.
mod blast;
mod content;
mod fuzzb;
mod oracle;
mod plan;

use content::{Content, len_class, near_boundary};
use oracle::{Case, evaluate, method_name};
use plan::{Planned, Switches};
use rayon::prelude::*;
use serde_json::json;
use vcheck::engine::{CaseResult, Check, pt};

/// Evaluate one case, do all bookkeeping, return the verdict.
fn run_case(check: &Check, pc: &Planned) -> CaseResult {
    let case = &pc.case;
    let d = case.content.build();
    let (info, r) = evaluate(case, &d);
    let name = method_name(case.method);
    let class = format!(
        "{}:{}:{}:{}",
        name,
        len_class(d.len()),
        case.content.kind_name(),
        info.outcome
    );
    let nt = info.outcome == "shrunk" || (near_boundary(d.len()) && info.outcome != "unsupported");
    check.count(&class, nt);
    check.bump(&format!("outcome:{name}:{}", info.outcome), 1);
    check.bump(&format!("origin:{}", pc.origin), 1);
    if let Some(x) = pc.excluded_by {
        check.bump(&format!("excluded-by-switch:{x}"), 1);
    }
    if let Some(e) = &info.compress_err {
        check.bump(&format!("unsupported-reason:{e}"), 1);
    }
    match info.independent {
        Some(true) => check.bump("independent-decoder-agrees", 1),
        Some(false) => check.bump(&format!("independent-decoder-DISAGREES:{name}"), 1),
        None => {}
    }
    match info.session_accounting_ok {
        Some(true) => check.bump("session-accounting-ok", 1),
        Some(false) => check.bump("session-accounting-WRONG", 1),
        None => {}
    }
    if info.interleave_checked {
        check.bump("interleave-judged", 1);
    }
    if d.len() == 1 << 21 {
        check.bump("len=2^21", 1);
    }
    if info.time_limit {
        // the library's wall-clock limit (30 s) fired: the machine is overloaded, the
        // property says nothing about time
        check.inconclusive("library wall-clock decompression limit fired; machine overloaded?");
        return Ok(());
    }
    if info.outcome == "shrunk" && r.is_ok() {
        check.sample(&format!("{name}:{}", case.content.kind_name()), || {
            json!({"case": case.to_json(), "input_len": d.len(), "stored_len": info.clen})
        });
    }
    r
}

fn run_fixed(check: &Check, cases: &[Planned]) {
    cases.par_iter().for_each(|pc| {
        if let Err(f) = run_case(check, pc) {
            check.fail(&f, pc.case.to_json());
        }
    });
}

fn main() {
    let (check, args) = Check::new("C03", "exploration");
    check.set_rule(
        "case = (selector byte, input). Inputs come from a deterministic builder (kind ∈ const, \
         period{1,2,3,4,7,255,256,257,…}, zero/non-zero runs with lengths around 3/0x7F..0x88/0x100.., \
         low-entropy, text, random, random-with-zero-hole, compressible-head+random-tail, 16-bit \
         saw/sine/noise PCM, stereo with one silent channel) or explicit bytes. A fixed grid visits \
         every lossless selector (zlib, bzip2, LZMA, sparse, PKWare) × every listed boundary length \
         (0..5, 15..17, 126..130, 254..258, 511..513, 4095..4097, 65535..65537, 131071..131073, \
         2^20, 2^21) × content kinds, an exhaustive family of sparse threshold strings, every \
         two-flag selector × 7 inputs, and the ADPCM selectors × PCM kinds × lengths incl. the \
         interleaving construction; proptest adds seeded random volume over the same space \
         (lengths ≤128 KiB, up to 2 MiB for highly compressible kinds; thorough: all kinds). \
         Class = selector × length class × kind × outcome(unsupported|raw|shrunk). Non-trivial = \
         compression actually shrank the input (so the decoders ran), or the length is within ±2 \
         of a listed boundary and the compressor accepted the selector.",
    );
    check.assume("compress() returning Err means the selector/input shape is unsupported (odd length for ADPCM, Huffman/Implode encoders absent, >1 lossless stage): counted, never a failure");
    check.assume("a selector is in scope when it is one of zlib/bzip2/LZMA/sparse/PKWare, an ADPCM selector, or any two-flag combination of the eight flag bits that compress() accepts");
    check.assume("flate2 / bzip2 crates and my 25-line sparse decoder are only used as informational cross-checks (counter independent-decoder-*), not as failures: the statement does not demand a standard stream");
    check.assume("the library's 30 s wall-clock decompression limit never fires on ≤2 MiB inputs unless the machine is overloaded (reported as inconclusive, not as violation)");

    if let Some(p) = check.replay.clone() {
        let v: serde_json::Value =
            serde_json::from_str(&std::fs::read_to_string(&p).expect("replay file")).expect("json");
        let Some(case) = Case::from_json(&v["case"]) else {
            eprintln!("replay file has no usable case");
            std::process::exit(2)
        };
        let pc = Planned::new(case, "replay");
        if let Err(f) = run_case(&check, &pc) {
            check.fail(&f, pc.case.to_json());
        }
        check.finish();
    }

    // seed corpus of the libFuzzer target (used by hand; the campaigns get theirs from fuzzb::run)
    if let Some(i) = args.rest.iter().position(|a| a == "--dump-fuzz-seeds") {
        let n = fuzzb::dump_seeds(std::path::Path::new(&args.rest[i + 1]));
        println!("{n} seed files");
        std::process::exit(0);
    }
    // judge one libFuzzer artifact by hand: --artifact <file>
    if let Some(i) = args.rest.iter().position(|a| a == "--artifact") {
        let b = std::fs::read(&args.rest[i + 1]).expect("artifact");
        let case = fuzzb::case_of(&b).expect("empty artifact");
        let d = case.content.build();
        let (info, r) = evaluate(&case, &d);
        println!("{} {:?} {:?}", method_name(case.method), info, r);
        std::process::exit(0);
    }

    // debugging aid: --one <method> <kind> <len> <seed> <p>
    if let Some(i) = args.rest.iter().position(|a| a == "--one") {
        let a = &args.rest[i + 1..];
        let m = u8::from_str_radix(a[0].trim_start_matches("0x"), 16).expect("method hex");
        let case = Case {
            method: m,
            content: Content::Desc {
                kind: content::Kind::from_name(&a[1]).expect("kind"),
                len: a[2].parse().expect("len"),
                seed: a.get(3).map(|s| s.parse().unwrap()).unwrap_or(1),
                p: a.get(4).map(|s| s.parse().unwrap()).unwrap_or(0),
            },
        };
        let d = case.content.build();
        let (info, r) = evaluate(&case, &d);
        println!("{} {:?} {:?}", method_name(m), info, r);
        std::process::exit(0);
    }

    let sw = Switches::from_env();
    check.set_extra("exclusion_switches", sw.to_json());

    // 1. deterministic grid: essential classes by construction (independent of VERIF_SEED)
    let (grid, dropped) = plan::grid(&sw, check.tier);
    check.bump("excluded-by-switch:grid-cases-dropped", dropped);
    let t0 = std::time::Instant::now();
    let verbose = std::env::var("VERIF_VERBOSE").is_ok();
    run_fixed(&check, &grid);
    if verbose {
        eprintln!("grid: {} cases, {:.1}s", grid.len(), t0.elapsed().as_secs_f64());
    }
    // 2. canaries: fixed cases inside every excluded region, always run
    let canaries = plan::canaries();
    run_fixed(&check, &canaries);
    if verbose {
        eprintln!("canaries done {:.1}s", t0.elapsed().as_secs_f64());
    }

    // 3. random volume
    let n = check.tier.pick(100_000u32, 1_500_000);
    let tier = check.tier;
    pt::run(
        &check,
        "random",
        n,
        pt::Opts {
            max_shrink_iters: 400,
            ..pt::Opts::default()
        },
        || plan::strategy(sw, tier),
        |pc| pc.case.to_json(),
        |pc| run_case(&check, pc),
    );

    if verbose {
        eprintln!("random done {:.1}s", t0.elapsed().as_secs_f64());
    }
    // 4. coverage-guided campaigns with the same oracle inside the libFuzzer target
    if fuzzb::enabled() {
        fuzzb::run(&check, &run_case);
        if verbose {
            eprintln!("fuzz done {:.1}s", t0.elapsed().as_secs_f64());
        }
    } else {
        check.bump("fuzz:codec:skipped", 1);
    }

    // 5. self-test of the generator: essential classes must be populated
    for sel in ["zlib", "bzip2", "lzma", "sparse", "pkware"] {
        for oc in ["shrunk", "raw"] {
            if check.counter(&format!("outcome:{sel}:{oc}")) == 0 {
                check.inconclusive(&format!("essential class empty: {sel} with outcome {oc}"));
            }
        }
    }
    if check.counter("interleave-judged") == 0 {
        check.inconclusive("no ADPCM stereo interleaving case was judged");
    }
    if check.counter("len=2^21") == 0 {
        check.inconclusive("no input of length 2^21 was evaluated");
    }
    if check.counter("outcome:adpcm1:shrunk") == 0 || check.counter("outcome:adpcm2:shrunk") == 0 {
        check.inconclusive("ADPCM selectors never shrank an input");
    }
    check.finish();
}
