//! Independent decoder for the PKWARE Data Compression Library format ("implode"), written
//! from the public description of the format (Mark Adler's blast): header byte 0 = literals
//! coded (1) or raw (0), header byte 1 = log2(dictionary)-6 ∈ 4..=6, then LSB-first bit stream
//! of literals and (length, distance) pairs, terminated by length 519.
//! Used only as an informational cross-check of what `compress(.., PKWARE)` emits; never
//! a failure by itself.

struct Huff {
    count: [u16; 16],
    symbol: Vec<u16>,
}

fn construct(rep: &[u8]) -> Huff {
    let mut lengths: Vec<u8> = vec![];
    for &b in rep {
        for _ in 0..(b >> 4) + 1 {
            lengths.push(b & 15);
        }
    }
    let mut count = [0u16; 16];
    for &l in &lengths {
        count[l as usize] += 1;
    }
    let mut offs = [0u16; 16];
    for l in 1..15 {
        offs[l + 1] = offs[l] + count[l];
    }
    let mut symbol = vec![0u16; lengths.len()];
    for (s, &l) in lengths.iter().enumerate() {
        if l != 0 {
            symbol[offs[l as usize] as usize] = s as u16;
            offs[l as usize] += 1;
        }
    }
    Huff { count, symbol }
}

const LITLEN: [u8; 98] = [
    11, 124, 8, 7, 28, 7, 188, 13, 76, 4, 10, 8, 12, 10, 12, 10, 8, 23, 8, 9, 7, 6, 7, 8, 7, 6, 55,
    8, 23, 24, 12, 11, 7, 9, 11, 12, 6, 7, 22, 5, 7, 24, 6, 11, 9, 6, 7, 22, 7, 11, 38, 7, 9, 8, 25,
    11, 8, 11, 9, 12, 8, 12, 5, 38, 5, 38, 5, 11, 7, 5, 6, 21, 6, 10, 53, 8, 7, 24, 10, 27, 44, 253,
    253, 253, 252, 252, 252, 13, 12, 45, 12, 45, 12, 61, 12, 45, 44, 173,
];
const LENLEN: [u8; 6] = [2, 35, 36, 53, 38, 23];
const DISTLEN: [u8; 7] = [2, 20, 53, 230, 247, 151, 248];
const BASE: [usize; 16] = [3, 2, 4, 5, 6, 7, 8, 9, 10, 12, 16, 24, 40, 72, 136, 264];
const EXTRA: [u32; 16] = [0, 0, 0, 0, 0, 0, 0, 0, 1, 2, 3, 4, 5, 6, 7, 8];

struct Bits<'a> {
    d: &'a [u8],
    pos: usize,
    buf: u32,
    cnt: u32,
}

impl Bits<'_> {
    fn bits(&mut self, need: u32) -> Option<u32> {
        let mut val = self.buf;
        while self.cnt < need {
            let b = *self.d.get(self.pos)?;
            self.pos += 1;
            val |= (b as u32) << self.cnt;
            self.cnt += 8;
        }
        self.buf = val >> need;
        self.cnt -= need;
        Some(val & ((1u32 << need) - 1))
    }
    fn decode(&mut self, h: &Huff) -> Option<u16> {
        let mut code: i32 = 0;
        let mut first: i32 = 0;
        let mut index: i32 = 0;
        for len in 1..16 {
            let bit = self.bits(1)? as i32 ^ 1; // codes are stored inverted
            code |= bit;
            let count = h.count[len] as i32;
            if code < first + count {
                return h.symbol.get((index + (code - first)) as usize).copied();
            }
            index += count;
            first += count;
            first <<= 1;
            code <<= 1;
        }
        None
    }
}

/// Decode a complete DCL stream. `None` = malformed / truncated / no end marker within
/// `limit` output bytes.
pub fn explode(data: &[u8], limit: usize) -> Option<Vec<u8>> {
    let lit = construct(&LITLEN);
    let len = construct(&LENLEN);
    let dist = construct(&DISTLEN);
    let mut s = Bits {
        d: data,
        pos: 0,
        buf: 0,
        cnt: 0,
    };
    let coded = s.bits(8)?;
    if coded > 1 {
        return None;
    }
    let dict = s.bits(8)?;
    if !(4..=6).contains(&dict) {
        return None;
    }
    let mut out: Vec<u8> = vec![];
    loop {
        if s.bits(1)? == 1 {
            let sym = s.decode(&len)? as usize;
            let l = BASE[sym] + s.bits(EXTRA[sym])? as usize;
            if l == 519 {
                return Some(out);
            }
            let sh = if l == 2 { 2 } else { dict };
            let mut d = (s.decode(&dist)? as usize) << sh;
            d += s.bits(sh)? as usize;
            d += 1;
            if d > out.len() {
                return None;
            }
            for _ in 0..l {
                out.push(out[out.len() - d]);
            }
        } else {
            let b = if coded == 1 {
                s.decode(&lit)? as u8
            } else {
                s.bits(8)? as u8
            };
            out.push(b);
        }
        if out.len() > limit {
            return None;
        }
    }
}
