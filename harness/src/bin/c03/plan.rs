//! What is evaluated: deterministic grid (essential classes by construction), canaries for
//! the regions removed by exclusion switches, and the proptest strategy for random volume.
use crate::content::{ALL_KINDS, Content, Kind};
use crate::oracle::Case;
use proptest::prelude::*;
use serde_json::{Value, json};
use vcheck::engine::{Tier, pt::pick_idx};

#[derive(Clone, Debug)]
pub struct Planned {
    pub case: Case,
    pub origin: &'static str,
    /// the generator drew a case inside an excluded region and steered it out
    pub excluded_by: Option<&'static str>,
}

impl Planned {
    pub fn new(case: Case, origin: &'static str) -> Planned {
        Planned {
            case,
            origin,
            excluded_by: None,
        }
    }
}

/// Exclusion switches: each one steers the generator around one open finding so that the
/// remaining space is explored at full depth. All on by default;
/// `VERIF_C03_EXCLUDE=none` or a comma list of names turns them on selectively.
#[derive(Clone, Copy, Debug)]
pub struct Switches {
    /// highly compressible input × zlib/bzip2 family × length above the point where
    /// `len / stored > 1000` (finding: own output rejected as compression bomb)
    pub bomb_ratio: bool,
    /// selectors 0x08, 0x48, 0x88 (finding: PKWare decoder panics on the encoder's ASCII mode)
    pub pkware: bool,
    /// selectors 0x50, 0x90 (finding: bzip2 stage of a multi-selector demands final size)
    pub bzip2_after_adpcm: bool,
    /// two-flag selectors 0x0C 0x14 0x44 0x84 (IMPLODE bit silently ignored by the
    /// compressor) and 0xC0 (compressor encodes mono, decoder decodes stereo)
    pub exotic_selectors: bool,
}

impl Switches {
    pub fn from_env() -> Switches {
        // default = the findings that are still open; the ADPCM+bzip2 and exotic-selector findings were
        // fixed in /repo, so those regions are explored at full depth again
        let v = std::env::var("VERIF_C03_EXCLUDE").unwrap_or_else(|_| "none".into());
        let has = |n: &str| v == "all" || v.split(',').any(|x| x.trim() == n);
        Switches {
            bomb_ratio: has("bomb-ratio"),
            pkware: has("pkware"),
            bzip2_after_adpcm: has("bzip2-after-adpcm"),
            exotic_selectors: has("exotic-selectors"),
        }
    }
    pub fn to_json(self) -> Value {
        json!({
            "bomb-ratio": self.bomb_ratio, "pkware": self.pkware,
            "bzip2-after-adpcm": self.bzip2_after_adpcm, "exotic-selectors": self.exotic_selectors,
            "env": "VERIF_C03_EXCLUDE=all|none|<comma list>",
            "canaries": "plan::canaries() runs fixed cases inside every excluded region regardless of the switches",
        })
    }
}

pub const ZLIB: u8 = 0x02;
pub const PKWARE: u8 = 0x08;
pub const BZIP2: u8 = 0x10;
pub const LZMA: u8 = 0x12;
pub const SPARSE: u8 = 0x20;
pub const LOSSLESS_SINGLES: [u8; 5] = [ZLIB, BZIP2, LZMA, SPARSE, PKWARE];

/// Above this length a highly compressible input stored with the selector has
/// `len / stored_len > 1000` (measured on the pinned tree; only used to *steer*, the
/// oracle never looks at it).
fn bomb_threshold(m: u8) -> Option<usize> {
    match m {
        0x02 | 0x06 => Some(BOMB_ZLIB),
        0x42 | 0x82 | 0x46 | 0x86 => Some(BOMB_ZLIB_ADPCM),
        0x10 | 0x14 => Some(BOMB_BZIP2),
        0x50 | 0x90 => Some(BOMB_BZIP2),
        _ => None,
    }
}
pub const BOMB_ZLIB: usize = 700_000;
pub const BOMB_ZLIB_ADPCM: usize = 60_000;
pub const BOMB_BZIP2: usize = 40_000;

fn is_exotic(m: u8) -> bool {
    matches!(m, 0x0C | 0x14 | 0x44 | 0x84 | 0xC0)
}

/// Steer one drawn case around the excluded regions (random volume).
pub fn steer(sw: &Switches, mut case: Case, origin: &'static str) -> Planned {
    let mut ex = None;
    if sw.exotic_selectors && is_exotic(case.method) {
        case.method = if case.method == 0xC0 { 0x80 } else { 0x06 };
        ex = Some("exotic-selectors");
    }
    if sw.bzip2_after_adpcm && matches!(case.method, 0x50 | 0x90) {
        case.method = (case.method & 0xC0) | ZLIB;
        ex = Some("bzip2-after-adpcm");
    }
    if sw.pkware && matches!(case.method, 0x08 | 0x48 | 0x88) {
        case.method = (case.method & 0xC0) | ZLIB;
        ex = Some("pkware");
    }
    if sw.bomb_ratio
        && let Content::Desc { kind, len, .. } = &mut case.content
        && kind.highly_compressible()
        && let Some(t) = bomb_threshold(case.method)
        && *len > t
    {
        *len %= t;
        ex = Some("bomb-ratio");
    }
    Planned {
        case,
        origin,
        excluded_by: ex,
    }
}

/// Would `steer` change this case? (grid: such cases are dropped, the canaries cover them)
fn in_excluded_region(sw: &Switches, case: &Case) -> bool {
    steer(sw, case.clone(), "x").excluded_by.is_some()
}

fn desc(kind: Kind, len: usize, seed: u64, p: u32) -> Content {
    Content::Desc { kind, len, seed, p }
}

pub const LENS_SMALL: [usize; 25] = [
    0, 1, 2, 3, 4, 5, 15, 16, 17, 126, 127, 128, 129, 130, 254, 255, 256, 257, 258, 511, 512, 513,
    4095, 4096, 4097,
];
pub const LENS_BIG: [usize; 6] = [65535, 65536, 65537, 131071, 131072, 131073];
pub const LENS_HUGE: [usize; 2] = [1 << 20, 1 << 21];

const HOLE_MID: u32 = 250 + 1000 * 499; // hole starts at 25 %, covers half of the rest

fn kinds_full() -> Vec<(Kind, u32)> {
    let mut v = vec![
        (Kind::Const, 0),
        (Kind::Const, 0xFF),
        (Kind::Const, 0x41),
        (Kind::LowEnt, 0),
        (Kind::LowEnt, 4),
        (Kind::Text, 0),
        (Kind::Random, 0),
        (Kind::Hole, HOLE_MID),
        (Kind::HeadTail, 500),
        (Kind::HeadTail, 500 | 0x1_0000),
        (Kind::HeadTail, 900 | 0x2_0000),
        (Kind::PcmSaw, 100),
        (Kind::PcmSine, 64),
    ];
    for p in [1, 2, 3, 4, 7, 255, 256, 257] {
        v.push((Kind::Period, p));
    }
    for p in 0..4 {
        v.push((Kind::Runs, p));
    }
    v
}

fn kinds_big() -> Vec<(Kind, u32)> {
    vec![
        (Kind::Const, 0),
        (Kind::Period, 2),
        (Kind::Period, 257),
        (Kind::Runs, 0),
        (Kind::Runs, 3),
        (Kind::LowEnt, 4),
        (Kind::Text, 0),
        (Kind::Random, 0),
        (Kind::Hole, HOLE_MID),
        (Kind::HeadTail, 500),
    ]
}

/// all 28 two-flag selectors (0x12 is LZMA by definition of the format)
pub fn two_flag_selectors() -> Vec<u8> {
    let mut v = vec![];
    for i in 0..8 {
        for j in i + 1..8 {
            v.push((1u8 << i) | (1u8 << j));
        }
    }
    v
}

pub fn grid(sw: &Switches, tier: Tier) -> (Vec<Planned>, u64) {
    let mut raw: Vec<Case> = vec![];
    let seeds: Vec<u64> = (1..=tier.pick(1u64, 6)).collect();

    // A. lossless singles × boundary lengths × kinds
    for &m in &LOSSLESS_SINGLES {
        for &seed in &seeds {
            for &len in &LENS_SMALL {
                for (k, p) in kinds_full() {
                    raw.push(Case {
                        method: m,
                        content: desc(k, len, seed, p),
                    });
                }
            }
            for &len in &LENS_BIG {
                for (k, p) in kinds_big() {
                    raw.push(Case {
                        method: m,
                        content: desc(k, len, seed, p),
                    });
                }
            }
        }
    }
    // B. 2^20 and 2^21
    for &m in &[ZLIB, BZIP2, LZMA, SPARSE] {
        for &len in &LENS_HUGE {
            for (k, p) in [
                (Kind::Const, 0),
                (Kind::Period, 2),
                (Kind::Period, 257),
                (Kind::Runs, 0),
                (Kind::StereoL0, 32),
            ] {
                raw.push(Case {
                    method: m,
                    content: desc(k, len, 1, p),
                });
            }
        }
    }
    // B2. ratio sweep: the library's bomb protection compares input/stored size ratios with limits, in compress()
    // (store raw beyond the limit) and again in decompress(); the two sides must agree at every length, not only
    // at powers of two. Flat input (the highest ratio a codec reaches) over a geometric ladder of lengths from
    // 64 KiB to 2 MiB — step 0.4 % for the bzip2/zlib selectors (a window in which the sides disagree by one stored
    // byte is about 1/N wide, N ≈ 40..150 stored bytes), 2 % for the slower codecs.
    for (m, step_permille) in [(BZIP2, 4u64), (ZLIB, 4), (0x50, 4), (0x90, 4), (0x42, 4), (0x82, 4), (LZMA, 20), (SPARSE, 20), (PKWARE, 20)] {
        let mut len = 65_536u64;
        while len <= 1 << 21 {
            raw.push(Case {
                method: m,
                content: desc(Kind::Const, (len as usize) & !3, 1, 0),
            });
            len += (len * step_permille / 1000).max(4);
        }
    }
    for &m in &[ZLIB, SPARSE] {
        raw.push(Case {
            method: m,
            content: desc(Kind::Random, 1 << 21, 1, 0),
        });
        raw.push(Case {
            method: m,
            content: desc(Kind::Text, 1 << 21, 1, 0),
        });
    }
    if tier == Tier::Thorough {
        for &m in &LOSSLESS_SINGLES {
            for &len in &LENS_HUGE {
                for (k, p) in kinds_big() {
                    raw.push(Case {
                        method: m,
                        content: desc(k, len, 2, p),
                    });
                }
            }
        }
    }
    // C. sparse thresholds, exhaustive family: n non-zeros, z zeros, t non-zeros (and doubled)
    let ns = [
        0usize, 1, 2, 3, 0x7F, 0x80, 0x81, 0x82, 0x83, 0x100, 0x101, 0x102, 0x103,
    ];
    let mut zs: Vec<usize> = (0..=8).collect();
    zs.extend(0x7F..=0x8A);
    zs.extend(0x101..=0x10C);
    for &n in &ns {
        for &z in &zs {
            for t in 0..=4usize {
                let mut b = vec![0x41u8; n];
                b.resize(n + z, 0);
                b.resize(n + z + t, 0x42);
                raw.push(Case {
                    method: SPARSE,
                    content: Content::Bytes(b.clone()),
                });
                if tier == Tier::Thorough {
                    for m in [ZLIB, BZIP2, LZMA] {
                        raw.push(Case {
                            method: m,
                            content: Content::Bytes(b.clone()),
                        });
                    }
                }
            }
        }
    }
    // D0. every selector with an ADPCM stage × every length 0..=96 × three small contents: the ADPCM stream of a
    // handful of samples is longer than the samples (header, start values), a second stage may still make the
    // whole smaller than the input — the one region where an intermediate stream exceeds the final size
    {
        let mut sel: Vec<u8> = vec![0x40, 0x80, 0xC0];
        sel.extend(two_flag_selectors().into_iter().filter(|m| m & 0xC0 != 0));
        sel.sort();
        sel.dedup();
        for m in sel {
            for len in 0..=96usize {
                let mut half: Vec<u8> = vec![0x47; len / 2];
                let mut x = 0x9E37_79B9u32 ^ len as u32;
                while half.len() < len {
                    x = x.wrapping_mul(1664525).wrapping_add(1013904223);
                    half.push((x >> 24) as u8);
                }
                for c in [Content::Bytes(half), desc(Kind::Const, len, 1, 0x41), desc(Kind::LowEnt, len, 1, 4)] {
                    raw.push(Case { method: m, content: c });
                }
            }
        }
    }
    // D. every two-flag selector × 8 inputs
    for m in two_flag_selectors() {
        for c in [
            desc(Kind::Text, 4096, 1, 0),
            desc(Kind::Const, 4096, 1, 0),
            desc(Kind::PcmSine, 4096, 1, 64),
            desc(Kind::StereoL0, 4096, 1, 32),
            desc(Kind::Random, 512, 1, 0),
            desc(Kind::Const, 0, 1, 0),
            desc(Kind::Text, 3, 1, 0),
            desc(Kind::Text, 130, 1, 0),
        ] {
            raw.push(Case {
                method: m,
                content: c,
            });
        }
    }
    // plus the non-selectors: none, huffman, implode (expected: raw / unsupported)
    for m in [0x00u8, 0x01, 0x04] {
        for c in [
            desc(Kind::Text, 4096, 1, 0),
            desc(Kind::Const, 0, 1, 0),
            desc(Kind::Random, 17, 1, 0),
        ] {
            raw.push(Case {
                method: m,
                content: c,
            });
        }
    }
    // E. ADPCM selectors × PCM kinds × lengths (odd lengths → precondition Err)
    let adpcm = [0x40u8, 0x80, 0x42, 0x82, 0x60, 0xA0, 0x50, 0x90, 0x48, 0x88];
    let pcm_kinds = [
        (Kind::PcmSine, 64),
        (Kind::PcmSine, 441),
        (Kind::PcmSaw, 100),
        (Kind::PcmSaw, 4000),
        (Kind::PcmNoise, 0),
        (Kind::StereoL0, 32),
        (Kind::StereoR0, 32),
        (Kind::Const, 0),
        (Kind::Const, 0x80),
        (Kind::Random, 0),
        (Kind::Text, 0),
    ];
    for &m in &adpcm {
        for &(k, p) in &pcm_kinds {
            for len in [
                0usize, 1, 2, 3, 4, 5, 6, 8, 16, 126, 128, 130, 4096, 4097, 4098, 65536, 131072,
            ] {
                raw.push(Case {
                    method: m,
                    content: desc(k, len, 1, p),
                });
            }
        }
    }
    // interleaving construction
    for m in [0x80u8, 0x82, 0xA0] {
        for k in [Kind::StereoL0, Kind::StereoR0] {
            for p in [1u32, 2, 8, 32, 64, 500] {
                for len in [8usize, 64, 4096, 65536] {
                    raw.push(Case {
                        method: m,
                        content: desc(k, len, 1, p),
                    });
                }
            }
        }
    }

    let mut out = vec![];
    let mut dropped = 0u64;
    for c in raw {
        if in_excluded_region(sw, &c) {
            // dropped: canaries() covers the region
            dropped += 1;
            continue;
        }
        out.push(Planned::new(c, "grid"));
    }
    (out, dropped)
}

/// Fixed cases inside every excluded region. They are evaluated whatever the switches say,
/// so each open finding keeps being measured (and its disappearance after a fix is seen).
/// They also populate the essential PKWare classes (raw and shrunk).
pub fn canaries() -> Vec<Planned> {
    let mut v: Vec<Case> = vec![];
    // bomb-ratio
    for (m, k, len, p) in [
        (ZLIB, Kind::Const, 1usize << 21, 0u32),
        (ZLIB, Kind::Const, 1 << 20, 0),
        (ZLIB, Kind::Period, 1 << 21, 2),
        (BZIP2, Kind::Const, 131072, 0),
        (BZIP2, Kind::Const, 1 << 21, 0),
        (BZIP2, Kind::Period, 131072, 257),
        (BZIP2, Kind::Const, 65536, 0xFF),
        (0x42, Kind::Const, 1 << 21, 0),
        (0x82, Kind::StereoL0, 1 << 21, 32),
    ] {
        v.push(Case {
            method: m,
            content: desc(k, len, 1, p),
        });
    }
    // pkware
    for (m, k, len, p) in [
        (PKWARE, Kind::Const, 4096usize, 0u32),
        (PKWARE, Kind::Text, 4096, 0),
        (PKWARE, Kind::Text, 600, 0),
        (PKWARE, Kind::Text, 130, 0),
        (PKWARE, Kind::Random, 4096, 0),
        (PKWARE, Kind::Random, 16, 0),
        (PKWARE, Kind::LowEnt, 65536, 4),
        (PKWARE, Kind::Runs, 131072, 0),
        (PKWARE, Kind::PcmSine, 4096, 64),
        (0x48, Kind::PcmSine, 4096, 64),
        (0x88, Kind::StereoL0, 4096, 32),
    ] {
        v.push(Case {
            method: m,
            content: desc(k, len, 1, p),
        });
    }
    // bzip2 after ADPCM
    for (m, k, len, p) in [
        (0x50u8, Kind::PcmSine, 4096usize, 64u32),
        (0x50, Kind::Text, 512, 0),
        (0x90, Kind::StereoL0, 4096, 32),
        (0x90, Kind::PcmNoise, 65536, 0),
    ] {
        v.push(Case {
            method: m,
            content: desc(k, len, 1, p),
        });
    }
    // exotic selectors
    for (m, k, len, p) in [
        (0x0Cu8, Kind::Text, 4096usize, 0u32),
        (0x14, Kind::Text, 4096, 0),
        (0x44, Kind::PcmSine, 4096, 64),
        (0x84, Kind::StereoL0, 4096, 32),
        (0xC0, Kind::Const, 4096, 0),
        (0xC0, Kind::StereoL0, 4096, 32),
        (0xC0, Kind::PcmSine, 4096, 64),
    ] {
        v.push(Case {
            method: m,
            content: desc(k, len, 1, p),
        });
    }
    v.into_iter().map(|c| Planned::new(c, "canary")).collect()
}

// -----------------------------------------------------------------------------------------
// random volume

fn method_table() -> Vec<u8> {
    let mut t = vec![];
    for (m, w) in [
        (ZLIB, 24),
        (BZIP2, 18),
        (LZMA, 15),
        (SPARSE, 24),
        (PKWARE, 12),
        (0x40, 6),
        (0x80, 6),
        (0x42, 5),
        (0x82, 5),
        (0x60, 3),
        (0xA0, 3),
        (0x50, 2),
        (0x90, 2),
        (0x00, 1),
        (0x01, 1),
        (0x04, 1),
    ] {
        for _ in 0..w {
            t.push(m);
        }
    }
    // every two-flag selector once (28 of 156 draws; 16 of them are combinations the compressor rejects)
    t.extend(two_flag_selectors());
    t
}

/// round down to whole frames for selectors with an ADPCM stage
fn align_for(m: u8, len: usize) -> usize {
    if m == LZMA {
        len
    } else if m & 0x40 != 0 {
        // compressor picks mono when the mono bit is set
        len & !1
    } else if m & 0x80 != 0 {
        len & !3
    } else {
        len
    }
}

fn norm_p(kind: Kind, raw: u32) -> u32 {
    let hi = raw >> 8;
    match kind {
        Kind::Const => match raw % 4 {
            0 | 1 => 0,
            2 => 0xFF,
            _ => hi & 0xFF,
        },
        Kind::Period => {
            if raw % 3 != 0 {
                [1, 2, 3, 4, 7, 255, 256, 257][(hi % 8) as usize]
            } else {
                1 + hi % 600
            }
        }
        Kind::Runs => raw % 4,
        Kind::LowEnt => raw % 8,
        Kind::Hole => raw % 1_000_000,
        Kind::PcmSaw => raw % 4001,
        Kind::PcmSine => {
            if raw % 2 == 0 {
                [4, 16, 64, 441, 4096][(hi % 5) as usize]
            } else {
                4 + hi % 4093
            }
        }
        Kind::StereoL0 | Kind::StereoR0 => [1, 2, 8, 32, 64, 500][(raw % 6) as usize],
        Kind::HeadTail => raw & 0x3_FFFF,
        Kind::Text | Kind::Random | Kind::PcmNoise => 0,
    }
}

fn len_strategy() -> BoxedStrategy<usize> {
    prop_oneof![
        5 => proptest::sample::select(LENS_SMALL.to_vec()),
        2 => proptest::sample::select(LENS_BIG.to_vec()),
        7 => 0usize..600,
        5 => 600usize..5000,
        4 => 5000usize..70000,
        2 => 70000usize..131074,
        1 => prop_oneof![Just(1usize << 20), Just(1usize << 21), 131074usize..=(1 << 21)],
    ]
    .boxed()
}

pub fn strategy(sw: Switches, tier: Tier) -> BoxedStrategy<Planned> {
    let table = method_table();
    let table2 = table.clone();
    let described = (
        any::<u16>(),
        any::<u16>(),
        len_strategy(),
        0u64..1_000_000,
        any::<u32>(),
    )
        .prop_map(move |(ms, ks, len, seed, praw)| {
            let m = table[pick_idx(ms, table.len())];
            let kind = ALL_KINDS[pick_idx(ks, ALL_KINDS.len())];
            let mut len = len;
            // ≥128 KiB: quick tier only for kinds whose codecs stay fast and small
            if len > 131073 && tier == Tier::Quick && !kind.highly_compressible() {
                len %= 131074;
            }
            // ADPCM needs whole 16-bit frames: keep 1 in 8 unaligned (expected: Err), align the rest
            if praw % 8 != 0 {
                len = align_for(m, len);
            }
            let case = Case {
                method: m,
                content: Content::Desc {
                    kind,
                    len,
                    seed,
                    p: norm_p(kind, praw),
                },
            };
            steer(&sw, case, "random")
        });
    let byte = prop_oneof![4 => Just(0u8), 2 => any::<u8>(), 1 => Just(0xFFu8), 1 => Just(0x41u8)];
    let explicit = (any::<u16>(), proptest::collection::vec(byte, 0..400)).prop_map(
        move |(ms, bytes)| {
            let m = table2[pick_idx(ms, table2.len())];
            let mut bytes = bytes;
            if bytes.len() % 8 != 7 {
                bytes.truncate(align_for(m, bytes.len()));
            }
            steer(
                &sw,
                Case {
                    method: m,
                    content: Content::Bytes(bytes),
                },
                "random-bytes",
            )
        },
    );
    prop_oneof![4 => described, 1 => explicit].boxed()
}
