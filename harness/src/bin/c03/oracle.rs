//! The C03 oracle: what `compress` must return and what `decompress` / `decompress_secure`
//! must make of it, clause by clause of the property statement.
use crate::content::{Content, Kind};
use serde_json::{Value, json};
use vcheck::engine::{Fail, guard, normalise_msg};
use wow_mpq::compression::{
    SecurityLimits, SessionTracker, compress, decompress, decompress_secure, flags,
};

#[derive(Clone, Debug)]
pub struct Case {
    pub method: u8,
    pub content: Content,
}

impl Case {
    pub fn to_json(&self) -> Value {
        json!({"method": self.method, "method_name": method_name(self.method), "content": self.content.to_json()})
    }
    pub fn from_json(v: &Value) -> Option<Case> {
        Some(Case {
            method: v["method"].as_u64()? as u8,
            content: Content::from_json(&v["content"])?,
        })
    }
}

pub fn method_name(m: u8) -> String {
    match m {
        0 => return "none".into(),
        flags::LZMA => return "lzma".into(),
        _ => {}
    }
    let names = [
        (flags::HUFFMAN, "huffman"),
        (flags::ZLIB, "zlib"),
        (flags::IMPLODE, "implode"),
        (flags::PKWARE, "pkware"),
        (flags::BZIP2, "bzip2"),
        (flags::SPARSE, "sparse"),
        (flags::ADPCM_MONO, "adpcm1"),
        (flags::ADPCM_STEREO, "adpcm2"),
    ];
    let v: Vec<&str> = names
        .iter()
        .filter(|(b, _)| m & b != 0)
        .map(|(_, n)| *n)
        .collect();
    v.join("+")
}

/// Selector table of the libFuzzer target (`/verif/fuzz/fuzz_targets/codec.rs`): input byte 0 indexes it
/// (mod its length). The named codecs come first and several times, so that an unguided byte lands on
/// them more often than on a two-flag combination the compressor refuses.
pub fn fuzz_selectors() -> Vec<u8> {
    let mut v = vec![];
    for _ in 0..4 {
        v.extend_from_slice(&[flags::ZLIB, flags::BZIP2, flags::LZMA, flags::SPARSE, flags::PKWARE]);
    }
    v.extend_from_slice(&[flags::ADPCM_MONO, flags::ADPCM_STEREO, flags::ADPCM_MONO, flags::ADPCM_STEREO]);
    for i in 0..8 {
        for j in i + 1..8 {
            v.push((1u8 << i) | (1u8 << j));
        }
    }
    v
}

/// one codec stage (as opposed to a multi-flag selector)
pub fn is_single(m: u8) -> bool {
    m == flags::LZMA || m.count_ones() <= 1
}

/// the selector applies ADPCM (lossy) when it shrinks the data
pub fn is_lossy(m: u8) -> bool {
    m != flags::LZMA && m & (flags::ADPCM_MONO | flags::ADPCM_STEREO) != 0
}

/// how the case ended, for the class signature
#[derive(Clone, Debug, Default)]
pub struct Info {
    /// "unsupported" | "raw" | "shrunk" | "failed-early"
    pub outcome: &'static str,
    pub clen: Option<usize>,
    pub compress_err: Option<String>,
    /// an independent decoder (flate2 / bzip2 crate / own sparse decoder) was run on the stream
    pub independent: Option<bool>,
    /// interleaving judged on this case
    pub interleave_checked: bool,
    /// decompress_secure recorded exactly this decompression in the fresh SessionTracker
    pub session_accounting_ok: Option<bool>,
    /// wall-clock limit of the library fired: the machine, not the code, is at fault
    pub time_limit: bool,
}

fn first_diff(a: &[u8], b: &[u8]) -> String {
    let n = a.len().min(b.len());
    match (0..n).find(|&i| a[i] != b[i]) {
        Some(i) => format!(
            "first difference at byte {i}: got {:#04x}, want {:#04x}",
            a[i], b[i]
        ),
        None => format!("common prefix equal, lengths {} vs {}", a.len(), b.len()),
    }
}

/// limits that switch every ratio/pattern heuristic off (used only to tell "inversion is
/// wrong" from "inversion is right but the default limits refuse it")
pub fn relaxed_limits() -> SecurityLimits {
    SecurityLimits {
        max_compression_ratio: 40_000_000,
        enable_pattern_detection: false,
        ..SecurityLimits::default()
    }
}

fn reject_signature(via: &str, m: u8, e: &wow_mpq::Error, info: &mut Info) -> Fail {
    let name = method_name(m);
    let default_ratio = SecurityLimits::default().max_compression_ratio as u64;
    match e {
        wow_mpq::Error::CompressionBomb { ratio, limit } => {
            // the non-adaptive test in validate_file_bounds reports the configured base limit;
            // the adaptive / pattern tests report a derived one
            let which = if *limit == default_ratio {
                format!("static-ratio-limit-{limit}")
            } else {
                "adaptive-or-pattern-limit".to_string()
            };
            Fail::new(
                format!("own-output-rejected-as-bomb:{which}"),
                format!(
                    "{via} refused what compress(.., {name}) emitted: compression bomb, ratio {ratio}:1 > {limit}:1"
                ),
            )
        }
        wow_mpq::Error::MaliciousContent(s) => Fail::new(
            format!("own-output-rejected-as-malicious:{}", normalise_msg(s)),
            format!("{via} refused what compress(.., {name}) emitted: {s}"),
        ),
        wow_mpq::Error::ResourceExhaustion(s) => {
            if s.contains("time limit") {
                info.time_limit = true;
            }
            Fail::new(
                format!("own-output-rejected-resource:{}", normalise_msg(s)),
                format!("{via} refused what compress(.., {name}) emitted: {s}"),
            )
        }
        other => Fail::new(
            format!(
                "own-output-rejected:{}:{}",
                if is_single(m) { "single" } else { "multi" },
                normalise_msg(&other.to_string())
            ),
            format!("{via} failed on what compress(.., {name}) emitted: {other}"),
        ),
    }
}

/// StormLib sparse stream decoder written from the format description (big-endian length,
/// control byte: bit7 → (n&0x7F)+1 literals, else (n&0x7F)+3 zeros). Strict: any
/// inconsistency is `None`.
pub fn ref_sparse_decode(s: &[u8]) -> Option<Vec<u8>> {
    if s.len() < 4 {
        return None;
    }
    let n = u32::from_be_bytes([s[0], s[1], s[2], s[3]]) as usize;
    let mut out = Vec::with_capacity(n);
    let mut i = 4;
    while i < s.len() && out.len() < n {
        let c = s[i];
        i += 1;
        if c & 0x80 != 0 {
            let k = (c & 0x7F) as usize + 1;
            let k = k.min(n - out.len());
            if i + k > s.len() {
                return None;
            }
            out.extend_from_slice(&s[i..i + k]);
            i += k;
        } else {
            let k = ((c & 0x7F) as usize + 3).min(n - out.len());
            out.resize(out.len() + k, 0);
        }
    }
    if out.len() == n { Some(out) } else { None }
}

fn independent_decode(m: u8, stream: &[u8], want: &[u8]) -> Option<bool> {
    use std::io::Read;
    match m {
        flags::ZLIB => {
            let mut o = Vec::with_capacity(want.len());
            let ok = flate2::read::ZlibDecoder::new(stream)
                .read_to_end(&mut o)
                .is_ok();
            Some(ok && o == want)
        }
        flags::BZIP2 => {
            let mut o = Vec::with_capacity(want.len());
            let ok = bzip2::read::BzDecoder::new(stream)
                .read_to_end(&mut o)
                .is_ok();
            Some(ok && o == want)
        }
        flags::SPARSE => Some(ref_sparse_decode(stream).as_deref() == Some(want)),
        flags::PKWARE => Some(crate::blast::explode(stream, want.len()).as_deref() == Some(want)),
        _ => None,
    }
}

/// sum |sample| per channel of interleaved 16-bit stereo
fn channel_energy(b: &[u8]) -> (u64, u64) {
    let mut l = 0u64;
    let mut r = 0u64;
    for f in b.chunks_exact(4) {
        l += (i16::from_le_bytes([f[0], f[1]]) as i64).unsigned_abs();
        r += (i16::from_le_bytes([f[2], f[3]]) as i64).unsigned_abs();
    }
    (l, r)
}

/// Evaluate one case. Never panics (library panics are caught and turned into failures).
pub fn evaluate(case: &Case, d: &[u8]) -> (Info, Result<(), Fail>) {
    let mut info = Info {
        outcome: "failed-early",
        ..Info::default()
    };
    let mut r = eval_inner(case, d, &mut info);
    // Triggering class for multi-flag selectors that carry the IMPLODE bit: the compressor has
    // no implode encoder, so however the decode then fails, the root cause is the selector.
    let m = case.method;
    if let Err(f) = &mut r
        && m & flags::IMPLODE != 0
        && m != flags::IMPLODE
        && info.outcome == "shrunk"
        && !f.signature.starts_with("panic@")
    {
        f.message = format!("[{}] {}", f.signature, f.message);
        f.signature = format!("implode-bit-selector-not-invertible:{}", method_name(m));
    }
    // Same for selectors with both ADPCM bits: the compressor encodes mono, the decoder decodes
    // stereo; length, interleaving or the ±10 % size validation may be what notices.
    let both = flags::ADPCM_MONO | flags::ADPCM_STEREO;
    if let Err(f) = &mut r
        && m & both == both
        && m & flags::IMPLODE == 0
        && info.outcome == "shrunk"
        && !f.signature.starts_with("panic@")
        && !f.signature.starts_with("own-output-rejected-as-bomb")
    {
        f.message = format!("[{}] {}", f.signature, f.message);
        f.signature = format!("adpcm-both-bits-selector-not-invertible:{}", method_name(m));
    }
    (info, r)
}

fn eval_inner(case: &Case, d: &[u8], info: &mut Info) -> Result<(), Fail> {
    let m = case.method;
    let name = method_name(m);
    let lossy = is_lossy(m);

    // -- compress: Err = the compressor does not support this selector / input shape
    let c = match guard("compress", || compress(d, m))? {
        Ok(c) => c,
        Err(e) => {
            info.outcome = "unsupported";
            info.compress_err = Some(normalise_msg(&e.to_string()));
            // The statement names these selectors: refusing them is not "unsupported".
            let named_lossless = matches!(
                m,
                flags::ZLIB | flags::BZIP2 | flags::LZMA | flags::SPARSE | flags::PKWARE
            );
            let named_adpcm = (m == flags::ADPCM_MONO && d.len() % 2 == 0)
                || (m == flags::ADPCM_STEREO && d.len() % 4 == 0);
            if named_lossless || named_adpcm {
                return Err(Fail::new(
                    format!("compress-rejects-named-selector:{name}"),
                    format!("compress({} bytes, {name}) = Err({e})", d.len()),
                ));
            }
            return Ok(());
        }
    };
    info.clen = Some(c.len());

    // -- "the stored form is never longer than the input"
    if c.len() > d.len() {
        return Err(Fail::new(
            format!("stored-form-longer-than-input:{name}"),
            format!(
                "compress({} bytes, {name}) returned {} bytes",
                d.len(),
                c.len()
            ),
        ));
    }
    // -- "when compression does not shrink the data it is stored raw"
    if c.len() == d.len() {
        if c != d {
            return Err(Fail::new(
                format!("not-shrunk-but-not-raw:{name}"),
                format!(
                    "compress({} bytes, {name}) returned {} bytes that are not the input ({})",
                    d.len(),
                    c.len(),
                    first_diff(&c, d)
                ),
            ));
        }
        info.outcome = "raw";
        return Ok(());
    }
    // -- shrunk: method byte prefix, then the stream
    if c[0] != m {
        return Err(Fail::new(
            format!("method-byte-prefix-wrong:{name}"),
            format!(
                "compress(.., {m:#04x}) shrank {} → {} bytes but the first byte is {:#04x}, not the selector",
                d.len(),
                c.len(),
                c[0]
            ),
        ));
    }
    info.outcome = "shrunk";
    let stream = &c[1..];
    if !lossy {
        info.independent = independent_decode(m, stream, d);
    }

    // -- decompress with the true length, default limits, fresh session
    let via = "decompress";
    let out = match guard("decompress", || decompress(stream, c[0], d.len()))? {
        Ok(o) => o,
        Err(e) => {
            let f = reject_signature(via, m, &e, info);
            // Is the inversion itself right? (tells a limit problem from a codec problem)
            if f.signature.starts_with("own-output-rejected-as-") {
                // (entry name "decompress": whatever is wrong underneath gets the signature it
                // would have had if the limits had not fired first)
                let relaxed = guard("decompress", || {
                    decompress_secure(
                        stream,
                        c[0],
                        d.len(),
                        None,
                        &SessionTracker::new(),
                        &relaxed_limits(),
                    )
                })?;
                match relaxed {
                    Ok(o) => judge_output(case, d, &o, "decompress_secure(relaxed limits)", info)?,
                    Err(e2) => {
                        let mut f2 = reject_signature(
                            "decompress_secure(relaxed limits)",
                            m,
                            &e2,
                            info,
                        );
                        f2.message = format!("default limits: {e}; {}", f2.message);
                        return Err(f2);
                    }
                }
            }
            return Err(f);
        }
    };
    judge_output(case, d, &out, via, info)?;

    // -- the same through decompress_secure (explicit default limits, fresh tracker, a path)
    let via = "decompress_secure";
    let tracker = SessionTracker::new();
    let out2 = match guard("decompress_secure", || {
        decompress_secure(
            stream,
            c[0],
            d.len(),
            Some("Data\\file.bin"),
            &tracker,
            &SecurityLimits::default(),
        )
    })? {
        Ok(o) => o,
        Err(e) => {
            let f = reject_signature(via, m, &e, info);
            return Err(Fail::new(
                format!("decompress_secure-disagrees-with-decompress:{}", f.signature),
                f.message,
            ));
        }
    };
    if out2 != out {
        return Err(Fail::new(
            format!("decompress_secure-output-differs-from-decompress:{name}"),
            first_diff(&out2, &out),
        ));
    }
    // informational only (the statement says nothing about session accounting)
    let (bytes, files, _) = tracker.get_stats();
    info.session_accounting_ok = Some(bytes == out2.len() as u64 && files == 1);
    Ok(())
}

fn judge_output(
    case: &Case,
    d: &[u8],
    out: &[u8],
    via: &str,
    info: &mut Info,
) -> Result<(), Fail> {
    let m = case.method;
    let name = method_name(m);
    if !is_lossy(m) {
        if out != d {
            return Err(Fail::new(
                format!("roundtrip-mismatch:{name}"),
                format!(
                    "{via}(compress(d, {name})) != d for {} bytes: {}",
                    d.len(),
                    first_diff(out, d)
                ),
            ));
        }
        return Ok(());
    }
    // lossy: length …
    if out.len() != d.len() {
        return Err(Fail::new(
            format!("adpcm-length-not-preserved:{name}"),
            format!(
                "{via}(compress(d, {name})) has {} bytes, input had {}",
                out.len(),
                d.len()
            ),
        ));
    }
    // … and interleaving, on the tolerance-free construction only
    if m & flags::ADPCM_STEREO != 0 && d.len() % 4 == 0 && d.len() >= 8 {
        let quiet_left = match &case.content {
            Content::Desc {
                kind: Kind::StereoL0,
                ..
            } => Some(true),
            Content::Desc {
                kind: Kind::StereoR0,
                ..
            } => Some(false),
            _ => None,
        };
        if let Some(quiet_left) = quiet_left {
            info.interleave_checked = true;
            let (l, r) = channel_energy(out);
            let (quiet, loud) = if quiet_left { (l, r) } else { (r, l) };
            if quiet.saturating_mul(4) >= loud {
                return Err(Fail::new(
                    format!("adpcm-stereo-interleaving-not-preserved:{name}"),
                    format!(
                        "input: {} channel constant 0, other channel ±30000 square; output Σ|L|={l} Σ|R|={r} over {} frames",
                        if quiet_left { "left" } else { "right" },
                        d.len() / 4
                    ),
                ));
            }
        }
    }
    Ok(())
}
