//! C19 — the StormLib-style C API (libstorm.so built from the current tree, loaded with dlopen)
//! is memory-safe and agrees with the Rust API on any history.
//!
//! All C-API calls happen in supervised worker processes: a panic inside `extern "C"` aborts, a
//! write past a buffer hits a PROT_NONE guard page, a self-deadlock leaves the worker silent with
//! zero CPU progress; the parent attributes the death / deadlock to the call announced last
//! (`OP <i> <api> <variant> <handle class>` on stderr).
mod ext;
mod generate;
mod guard;
mod hist;
mod interp;
mod mt;
mod ops_a;
mod ops_b;

use hist::*;
use proptest::strategy::{Strategy, ValueTree};
use rand::Rng;
use serde_json::{Value, json};
use std::collections::{BTreeMap, BTreeSet};
use vcheck::engine::supervise::{self, Outcome, Spec};
use vcheck::engine::{self, Check, Fail, Tier};
use vcheck::ffi::{self, Storm};

fn worker() -> ! {
    engine::install_panic_hook();
    guard::install_segv_reporter();
    guard::install_stderr_filter();
    let storm = Storm::load(&ffi::lib_path()).expect("libstorm");
    let ext = ext::Ext::load(&ffi::lib_path()).expect("libstorm ext");
    let mut max_handle: usize = 0;
    supervise::worker_loop(|v| {
        let dir = engine::scratch("c19");
        match v["t"].as_str() {
            Some("st") => {
                let h: History = match serde_json::from_value(v["h"].clone()) {
                    Ok(h) => h,
                    Err(e) => return json!({"ok": false, "sig": "bad-case", "msg": e.to_string()}),
                };
                let mut it = interp::Interp::new(&storm, &ext, &h, dir.path().to_path_buf(), &mut max_handle);
                let r = it.run();
                let r = match r {
                    Err(f) if f.signature != "DISCARD" => {
                        // leave the process-global handle tables clean for the next history
                        let keep = it.opi;
                        let _ = it.cleanup();
                        it.sweep();
                        it.opi = keep;
                        Err(f)
                    }
                    Err(f) => {
                        let _ = it.cleanup();
                        it.sweep();
                        Err(f)
                    }
                    ok => ok,
                };
                it.result(&r)
            }
            Some("mt") => {
                let c: mt::MtCase = match serde_json::from_value(v["c"].clone()) {
                    Ok(c) => c,
                    Err(e) => return json!({"ok": false, "sig": "bad-case", "msg": e.to_string()}),
                };
                mt::run_mt(&storm, &ext, &c, dir.path(), &mut max_handle)
            }
            Some("mtpart") => {
                let c: mt::PartCase = match serde_json::from_value(v["c"].clone()) {
                    Ok(c) => c,
                    Err(e) => return json!({"ok": false, "sig": "bad-case", "msg": e.to_string()}),
                };
                mt::run_partition(&storm, &c, dir.path(), &mut max_handle)
            }
            _ => json!({"ok": false, "sig": "bad-case", "msg": "unknown case type"}),
        }
    })
}

const HCLASSES: [&str; 7] = ["live", "closed", "orphan", "null", "forged", "wrongkind-live", "wrongkind-closed"];
const BOUNDARY_SZ: [&str; 7] = ["sz:0", "sz:1", "sz:n-1", "sz:n", "sz:n+1", "sz:2^31", "sz:260"];

struct Judged {
    class: String,
    nontrivial: bool,
    result: Result<(), Fail>,
}

/// last announced call in a stderr tail: (api, variant)
fn last_op(tail: &str) -> (String, String, String) {
    let l = tail.lines().rev().find_map(|l| l.strip_prefix("LAST-OP ")).or_else(|| tail.lines().rev().find(|l| l.starts_with("OP "))).unwrap_or("OP ? ? ? ?");
    let f: Vec<&str> = l.split_whitespace().collect();
    (f.get(2).unwrap_or(&"?").to_string(), f.get(3).unwrap_or(&"-").to_string(), l.to_string())
}

fn panic_sig(tail: &str) -> String {
    let lines: Vec<&str> = tail.lines().collect();
    let mut found: Vec<String> = vec![];
    for (i, l) in lines.iter().enumerate() {
        if let Some(p) = l.find("panicked at ") {
            let loc = l[p + 12..].trim_end_matches(':');
            let file = loc.split(':').next().unwrap_or("?");
            let msg = lines.get(i + 1).copied().unwrap_or("");
            // addresses and other hex values are case-specific
            let mut clean = String::new();
            let mut it = msg.split("0x");
            clean.push_str(it.next().unwrap_or(""));
            for part in it {
                clean.push_str("0x#");
                clean.push_str(part.trim_start_matches(|c: char| c.is_ascii_hexdigit()));
            }
            found.push(format!("{}:{}", engine::short_loc(file), engine::normalise_msg(&clean)));
        }
    }
    // the first panic is the cause; "panic in a function that cannot unwind" is its consequence
    found.iter().find(|m| !m.contains("cannot unwind")).or(found.last()).cloned().unwrap_or_else(|| "no-panic-message".into())
}

fn judge(check: &Check, case: &Value, source: &str, out: &Outcome) -> Judged {
    let is_mt = case["t"] == "mt" || case["t"] == "mtpart";
    let death = |pre: &str, how: &str, tail: &str| -> Fail {
        let (api, variant, line) = last_op(tail);
        if is_mt {
            return Fail::new(format!("mt:{pre}{how}"), format!("multi-threaded run: worker {pre}{how}; last announced call `{line}`: {}", engine::truncate(tail, 400)));
        }
        if tail.contains("GUARD-PAGE-HIT") {
            return Fail::new(format!("guard-page-hit:{api}:{variant}"), format!("`{line}` wrote past the end of the caller's buffer (guard page hit)"));
        }
        if how == "abort" {
            return Fail::new(format!("abort:{api}:{variant}:{}", panic_sig(tail)), format!("worker aborted in `{line}`: {}", engine::truncate(tail, 500)));
        }
        Fail::new(format!("{pre}{how}:{api}:{variant}"), format!("worker {pre}{how} in `{line}`: {}", engine::truncate(tail, 300)))
    };
    match out {
        Outcome::Done(v) => {
            for (k, n) in v["skipped"].as_object().into_iter().flatten() {
                check.bump(&format!("excluded:{k}"), n.as_u64().unwrap_or(0));
            }
            if v["discard"].is_string() {
                check.bump("discarded", 1);
            }
            let result = if v["ok"] == true { Ok(()) } else { Err(Fail::new(v["sig"].as_str().unwrap_or("?"), v["msg"].as_str().unwrap_or(""))) };
            if is_mt {
                for k in ["calls", "ok_calls", "reads_checked"] {
                    check.bump(&format!("mt_{k}"), v["stats"][k].as_u64().unwrap_or(0));
                }
                let c = &case["c"];
                if case["t"] == "mtpart" {
                    let class = format!("mt|shared-handle-partition|T{}|chunk{}|m{}", c["threads"], c["chunk"], c["method"].as_u64().unwrap_or(0) % 3);
                    return Judged { class, nontrivial: true, result };
                }
                let class = format!("mt|T{}|w{}|disks{}", c["threads"], c["writable"].as_bool().unwrap_or(false) as u8, c["disks"].as_array().map(|a| a.len()).unwrap_or(0));
                return Judged { class, nontrivial: c["threads"].as_u64().unwrap_or(0) >= 2 && v["discard"].is_null(), result };
            }
            let mut hset = BTreeSet::new();
            for (k, n) in v["cells"].as_object().into_iter().flatten() {
                check.bump(&format!("cell:{k}"), n.as_u64().unwrap_or(0));
                if let Some(l) = k.rsplit(':').next() {
                    if HCLASSES.contains(&l) {
                        hset.insert(l.to_string());
                    }
                }
            }
            let feats: Vec<String> = v["feat"].as_array().into_iter().flatten().filter_map(|x| x.as_str().map(|s| s.to_string())).collect();
            let nontrivial = v["discard"].is_null() && (hset.iter().any(|h| h != "live") || feats.iter().any(|f| BOUNDARY_SZ.contains(&f.as_str())));
            let nd = case["h"]["disks"].as_array().map(|a| a.len()).unwrap_or(0);
            let class = format!("st|{source}|d{nd}|h:{}|f:{}", hset.into_iter().collect::<Vec<_>>().join(","), feats.join(","));
            Judged { class, nontrivial, result }
        }
        Outcome::Died { how, stderr_tail } => Judged { class: format!("{}|{source}|died", if is_mt { "mt" } else { "st" }), nontrivial: false, result: Err(death("died:", how, stderr_tail)) },
        Outcome::Deadlock { stderr_tail } => {
            let (api, variant, line) = last_op(stderr_tail);
            let f = if is_mt {
                Fail::new("mt:deadlock", format!("multi-threaded run: no answer and no CPU progress; last announced call `{line}`"))
            } else {
                Fail::new(format!("deadlock:{api}:{variant}"), format!("`{line}` never returned: the worker made no progress and burned no CPU (self-deadlock)"))
            };
            Judged { class: format!("{}|{source}|deadlock", if is_mt { "mt" } else { "st" }), nontrivial: false, result: Err(f) }
        }
    }
}

fn st_case(h: &History) -> Value {
    json!({"t": "st", "h": serde_json::to_value(h).unwrap()})
}

/// delta-debug a failing single-threaded history: drop ops while an unknown failure persists
fn shrink(check: &Check, spec: &Spec, mut h: History, mut f: Fail) -> (History, Fail) {
    let mut chunk = (h.ops.len() / 2).max(1);
    let mut budget = 120;
    loop {
        let mut i = 0;
        let mut progressed = false;
        while i < h.ops.len() && budget > 0 {
            let mut cand = h.clone();
            let end = (i + chunk).min(cand.ops.len());
            cand.ops.drain(i..end);
            budget -= 1;
            let c = st_case(&cand);
            let out = supervise::run_cases(spec, &[c.clone()], 1);
            match judge(check, &c, "shrink", &out[0]).result {
                Err(f2) if !check.is_known(&f2.signature) => {
                    h = cand;
                    f = f2;
                    progressed = true;
                }
                _ => i += chunk,
            }
        }
        if budget == 0 || (!progressed && chunk == 1) {
            break;
        }
        if !progressed {
            chunk /= 2;
        }
    }
    (h, f)
}

fn main() {
    if std::env::args().nth(1).as_deref() == Some("--worker") {
        worker();
    }
    let (check, _a) = Check::new("C19", "exploration");
    check.set_rule(
        "Single-threaded: histories of C-API calls {open, create, create2, close, open-file, close-file, read, seek, size, has-file, enum, find-first/next/close, add(ex), remove, rename, flush, compact, \
         verify-file/archive, get-info, get-file-name, get-archive-name} against libstorm.so, interpreted in a supervised worker against a model (handle value → archive with its Rust-API reference / open file with \
         content and cursor / search with the expected remaining names). Handle arguments are drawn from {live, closed, NULL, forged (next unallocated value, huge values), wrong kind live/closed, search handle of a closed archive}; \
         buffer sizes from {0, 1, n−1, n, n+1, 2^31, 260, random} relative to the natural size n of the call; seeks with three origins (+ invalid origin) and distances beyond both ends, with and without the high part. \
         Output buffers end at a PROT_NONE page and are preceded by canaries. Archives come from vcheck::gens::mpq (V1–V4, sector 512–4096, none/zlib/bzip2, encrypted files, CRCs, attributes, with/without listfile) \
         plus writable archives created through SFileCreateArchive2, whose operations are mirrored on a byte-copy twin through wow_mpq::MutableArchive. A deterministic grid visits every API × handle class, every size class, \
         every seek origin × region, masks × callbacks, every creation mode; canary histories keep exercising the excluded regions of open findings. Multi-threaded: 2..8 threads × 200 random calls over one shared handle pool. \
         non-trivial = the history used a stale/closed/NULL/forged/wrong-kind handle or a boundary-size buffer (MT: ≥2 threads on shared handles); distinct = source × #disks × set of handle classes × set of features (size classes, seek regions, writable, long names/paths, …)",
    );
    check.assume("libstorm.so is the debug build of the current /repo tree (VERIF_LIBSTORM); debug assertions and overflow checks are on, as in the repository's own test profile");
    check.assume("the Rust API (wow_mpq::Archive on the same file; wow_mpq::MutableArchive on a byte copy driven by the same operations) is the reference for bytes, sizes, names and existence; if wow_mpq itself panics on an input the history is discarded (other properties judge that)");
    check.assume("SFileGetFileName has no size argument: the caller's buffer is MAX_PATH (260) characters as in StormLib; SFILE_FIND_DATA.cFileName truncates to 259 bytes by contract");
    check.assume("seek targets are judged exactly only where the Win32 reading (unsigned low part when a high part is given) and the sign-extending reading agree and the target lies inside the file; elsewhere only 'returned cursor ≤ length and the next read continues there'");
    check.assume("a deadlock is a stable state: no answer for 4 s wall and zero CPU ticks over two further samples 1 s apart");
    check.assume("interleavings of the multi-threaded runs are the OS scheduler's; absence of data races is not shown");

    // one scratch root per run: workers that die (abort, guard-page hit, deadlock) cannot remove their
    // per-history directories, the parent removes the root at the end
    let run_dir = engine::scratch("c19run");
    let run_root = run_dir.path().to_path_buf();
    let spec = Spec {
        cpu_secs: 120,
        wall_grace_secs: 4,
        rlimit_as: 0,
        env: vec![("RUST_BACKTRACE".into(), "0".into()), ("VERIF_SCRATCH".into(), run_root.to_string_lossy().to_string())],
        ..Spec::new("c19")
    };
    let finish = |check: &Check| -> ! {
        let _ = std::fs::remove_dir_all(&run_root);
        check.finish()
    };

    if let Some(p) = check.replay.clone() {
        let v: Value = serde_json::from_str(&std::fs::read_to_string(&p).expect("replay")).expect("json");
        let case = v["case"].clone();
        let out = supervise::run_cases(&spec, &[case.clone()], 1);
        let j = judge(&check, &case, "replay", &out[0]);
        check.count(&j.class, j.nontrivial);
        if let Err(f) = j.result {
            check.fail(&f, case);
        }
        finish(&check);
    }
    if let Err(e) = Storm::load(&ffi::lib_path()) {
        check.inconclusive(&format!("cannot load libstorm: {e}"));
        finish(&check);
    }

    // ---------------------------------------------------------------- cases
    let mut cases: Vec<(String, Value)> = vec![];
    for (label, h) in generate::grid() {
        cases.push((format!("grid:{label}"), st_case(&h)));
    }
    let canaries = generate::canaries();
    for (label, h) in &canaries {
        cases.push((format!("canary:{label}"), st_case(h)));
    }
    let n_fixed = cases.len();

    let mut runner = proptest::test_runner::TestRunner::new_with_rng(
        proptest::test_runner::Config { failure_persistence: None, ..Default::default() },
        proptest::test_runner::TestRng::from_seed(proptest::test_runner::RngAlgorithm::ChaCha, &{
            let mut b = [0u8; 32];
            b[..8].copy_from_slice(&check.sub_seed("c19-specs").to_le_bytes());
            b
        }),
    );
    let strat = vcheck::gens::mpq::archive_strategy(generate::gen_params());
    let mut draw_spec = || strat.new_tree(&mut runner).expect("gen").current();
    let mut rng = engine::rng(check.sub_seed("c19-histories"));
    let n_st = check.tier.pick(2000usize, 50_000);
    for _ in 0..n_st {
        let nd = [1usize, 1, 2, 2, 3][rng.random_range(0..5)];
        let specs = (0..nd).map(|_| draw_spec()).collect();
        let h = if rng.random_range(0..3) == 0 { generate::writable_history(&mut rng, specs) } else { generate::random_history(&mut rng, specs) };
        cases.push(("random".into(), st_case(&h)));
    }
    let n_mt = check.tier.pick(50usize, 1000);
    let mut mrng = engine::rng(check.sub_seed("c19-mt"));
    for i in 0..n_mt {
        let mut disks = vec![generate::spec_a()];
        for _ in 0..mrng.random_range(1..3) {
            let mut s = draw_spec();
            s.files.retain(|f| f.name.len() < 200);
            disks.push(s);
        }
        let c = mt::MtCase { disks, threads: 2 + (i % 7) as u8, ops: 200, seed: mrng.random(), writable: i % 2 == 0 };
        cases.push(("mt".into(), json!({"t": "mt", "c": serde_json::to_value(&c).unwrap()})));
    }

    // shared file handle drained by several threads
    let n_part = check.tier.pick(12usize, 200);
    for i in 0..n_part {
        let c = mt::PartCase { threads: [2u8, 3, 4, 8][i % 4], chunk: [4096u32, 65536, 131072, 8, 1000 * 8][i % 5], size: [1u32 << 20, 3 << 19, 1 << 22][i % 3], rounds: 3, method: (i % 3) as u8 };
        cases.push(("mt".into(), json!({"t": "mtpart", "c": serde_json::to_value(&c).unwrap()})));
    }

    // ---------------------------------------------------------------- run
    let values: Vec<Value> = cases.iter().map(|c| c.1.clone()).collect();
    let outs = supervise::run_cases(&spec, &values, engine::WORKERS);
    // a deadlock is deterministic here: confirm each one in a fresh worker with a longer grace period
    // (a starved worker on a loaded machine also shows no CPU progress); the confirmations run together
    let dl: Vec<usize> = outs.iter().enumerate().filter(|(_, o)| matches!(o, Outcome::Deadlock { .. })).map(|(i, _)| i).collect();
    let dl_cases: Vec<Value> = dl.iter().map(|i| values[*i].clone()).collect();
    let dl_outs = supervise::run_cases(&Spec { cpu_secs: 120, wall_grace_secs: 8, rlimit_as: 0, env: spec.env.clone(), ..Spec::new("c19") }, &dl_cases, engine::WORKERS);
    let mut confirmed: BTreeMap<usize, Outcome> = BTreeMap::new();
    for (i, o) in dl.iter().zip(dl_outs) {
        if !matches!(o, Outcome::Deadlock { .. }) {
            check.bump("deadlock_not_confirmed_on_rerun", 1);
            confirmed.insert(*i, o);
        }
    }
    let mut failing: Vec<(usize, Fail)> = vec![];
    let mut canary_state: BTreeMap<String, String> = BTreeMap::new();
    for (i, ((source, case), out)) in cases.iter().zip(outs.iter()).enumerate() {
        let src = source.split(':').next().unwrap_or("?");
        let out = confirmed.get(&i).unwrap_or(out);
        let j = judge(&check, case, src, out);
        check.count(&j.class, j.nontrivial);
        if i >= n_fixed {
            check.sample(&format!("{src}{}", i % 3), || case.clone());
        }
        if let Some(l) = source.strip_prefix("canary:") {
            canary_state.insert(l.to_string(), match &j.result { Ok(()) => "passes".into(), Err(f) => f.signature.clone() });
        }
        if let Err(f) = j.result {
            if check.is_known(&f.signature) {
                check.known_hit(&f.signature, &format!("[{source}] {}", f.message));
            } else {
                failing.push((i, f));
            }
        }
    }
    check.set_extra("canaries", json!(canary_state));
    check.set_extra("work", json!({"grid": n_fixed - canaries.len(), "canaries": canaries.len(), "random_histories": n_st, "mt_runs": n_mt}));

    // unknown failures: shrink single-threaded histories (one per signature), report
    let mut seen = BTreeSet::new();
    let limit = if check.tier == Tier::Quick { 6 } else { 16 };
    for (i, f) in failing {
        if !seen.contains(&f.signature) {
            eprintln!("unlisted failure: {} [{}]", f.signature, cases[i].0);
        }
        if !seen.insert(f.signature.clone()) || seen.len() > limit {
            check.bump("repeat_violation_hits", 1);
            continue;
        }
        let case = &cases[i].1;
        if case["t"] == "st" {
            let h: History = serde_json::from_value(case["h"].clone()).unwrap();
            let (hm, fm) = shrink(&check, &spec, h, f);
            check.fail(&fm, st_case(&hm));
        } else {
            check.fail(&f, case.clone());
        }
    }

    // ---------------------------------------------------------------- essential classes (by construction)
    let apis_with_handle = [
        "SFileCloseArchive", "SFileOpenFileEx", "SFileCloseFile", "SFileReadFile", "SFileSetFilePointer", "SFileGetFileSize", "SFileHasFile", "SFileEnumFiles", "SFileFindFirstFile", "SFileFindNextFile",
        "SFileFindClose", "SFileAddFileEx", "SFileAddFile", "SFileRemoveFile", "SFileRenameFile", "SFileFlushArchive", "SFileCompactArchive", "SFileVerifyFile", "SFileVerifyArchive", "SFileGetFileInfo",
        "SFileGetFileName", "SFileGetArchiveName",
    ];
    let mut missing = vec![];
    for api in apis_with_handle {
        for hc in ["live", "closed", "null", "forged", "wrongkind-live", "wrongkind-closed"] {
            if check.counter(&format!("cell:{api}:{hc}")) == 0 {
                missing.push(format!("{api}:{hc}"));
            }
        }
    }
    for c in [
        "SFileReadFile:size:0", "SFileReadFile:size:1", "SFileReadFile:size:n-1", "SFileReadFile:size:n", "SFileReadFile:size:n+1", "SFileReadFile:size:2^31",
        "SFileGetFileInfo:size:0", "SFileGetFileInfo:size:n-1", "SFileGetFileInfo:size:n", "SFileGetFileInfo:size:n+1",
        "SFileGetArchiveName:size:0", "SFileGetArchiveName:size:n-1", "SFileGetArchiveName:size:n", "SFileGetArchiveName:size:n+1", "SFileGetArchiveName:size:260:longpath",
        "SFileSetFilePointer:m0:in-range", "SFileSetFilePointer:m0:beyond-end", "SFileSetFilePointer:m0:before-start",
        "SFileSetFilePointer:m1:in-range", "SFileSetFilePointer:m1:beyond-end", "SFileSetFilePointer:m1:before-start",
        "SFileSetFilePointer:m2:in-range", "SFileSetFilePointer:m2:beyond-end", "SFileSetFilePointer:m2:before-start", "SFileSetFilePointer:m3:bad-method",
        "SFileEnumFiles:cb:passive", "SFileEnumFiles:cb:passive-stop", "SFileGetFileName:name<260",
        "SFileAddFileEx:live-writable", "SFileRemoveFile:live-writable", "SFileRenameFile:live-writable", "SFileFlushArchive:live-writable", "SFileCompactArchive:live-writable",
        "agree-after-close", "SFileOpenArchive:valid", "SFileOpenArchive:unopenable", "SFileOpenArchive:valid-longpath", "SFileCreateArchive:ok", "SFileCreateArchive2:ok",
    ] {
        if check.counter(&format!("cell:{c}")) == 0 {
            missing.push(c.to_string());
        }
    }
    if !missing.is_empty() {
        check.inconclusive(&format!("essential classes not reached: {}", missing.join(", ")));
    }
    if check.counter("mt_reads_checked") == 0 || check.counter("mt_ok_calls") * 4 < check.counter("mt_calls") {
        check.inconclusive("multi-threaded runs are vacuous (no checked read, or fewer than a quarter of the calls succeeded)");
    }
    finish(&check);
}
