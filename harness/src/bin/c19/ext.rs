//! Local extension of vcheck::ffi::Storm: SFileCreateArchive2 (the only way to obtain a
//! writable archive handle from the C API) and small call helpers.
use libc::{c_char, c_void};
use vcheck::ffi::Handle;

#[repr(C)]
pub struct CreateMpq {
    pub cb_size: u32,
    pub mpq_version: u32,
    pub user_data: *mut c_void,
    pub cb_user_data: u32,
    pub stream_flags: u32,
    pub file_flags_1: u32,
    pub file_flags_2: u32,
    pub file_flags_3: u32,
    pub attr_flags: u32,
    pub sector_size: u32,
    pub raw_chunk_size: u32,
    pub max_file_count: u32,
}

pub struct Ext {
    _lib: libloading::Library,
    pub create2: unsafe extern "C" fn(*const c_char, *const CreateMpq, *mut Handle) -> bool,
}

unsafe impl Send for Ext {}
unsafe impl Sync for Ext {}

impl Ext {
    pub fn load(path: &str) -> Result<Ext, String> {
        unsafe {
            let lib = libloading::Library::new(path).map_err(|e| format!("dlopen {path}: {e}"))?;
            let create2 = *lib
                .get::<unsafe extern "C" fn(*const c_char, *const CreateMpq, *mut Handle) -> bool>(b"SFileCreateArchive2\0")
                .map_err(|e| format!("symbol SFileCreateArchive2: {e}"))?;
            Ok(Ext { _lib: lib, create2 })
        }
    }
}

/// C string for a name argument: pool string, NULL, or bytes that are not UTF-8
pub enum CName {
    Str(std::ffi::CString),
    Null,
}

impl CName {
    pub fn ptr(&self) -> *const c_char {
        match self {
            CName::Str(s) => s.as_ptr(),
            CName::Null => std::ptr::null(),
        }
    }
}

pub fn bad_utf8() -> std::ffi::CString {
    std::ffi::CString::new(vec![0xffu8, 0xfe, b'a', b'.', b'x']).unwrap()
}
