//! Worker-side interpreter: executes a history against libstorm.so and a model.
//! Model: every handle value the library ever returned → object (archive with its Rust-API
//! reference, open file with content + cursor, search with the expected remaining names) and
//! whether it is live. The Rust API is always asked first (under a panic guard): if wow_mpq
//! itself panics on the input, the rest of the history is discarded (other properties' business).
use crate::ext::{CName, Ext};
use crate::hist::*;
use serde_json::{Value, json};
use std::collections::BTreeMap;
use std::path::PathBuf;
use vcheck::engine::{self, Fail};
use vcheck::ffi::{Handle, Storm};
use wow_mpq::{Archive, MutableArchive};

pub struct ArchObj {
    pub live: bool,
    pub path: String,
    pub pref: PathRef,
    pub mutable: bool,
    pub modified: bool,
    /// writable handles: modified since the last successful flush/compact (the file on disk is
    /// behind the handle while this is set)
    pub dirty: bool,
    /// writable handles: plain map of what the successful add / remove / rename calls of this
    /// handle amount to (folded name → content); ground truth that shares no code with wow_mpq
    pub map: std::collections::BTreeMap<String, Vec<u8>>,
    /// read-only handles: the same file opened through the Rust API
    pub reference: Option<Archive>,
    /// writable handles: a byte copy of the archive taken right after creation, driven through
    /// wow_mpq::MutableArchive with the same operations
    pub twin: Option<MutableArchive>,
}

pub struct FileObj {
    pub live: bool,
    pub arch: usize,
    pub name: String,
    pub data: Vec<u8>,
    pub size: u64,
    pub cursor: usize,
}

pub struct FindObj {
    pub live: bool,
    pub orphan: bool,
    pub arch: usize,
    /// expected remaining (name, size) sequence; None = mask semantics not judged (subset check only)
    pub expect: Option<Vec<(String, u64)>>,
    pub universe: Vec<String>,
    pub idx: usize,
}

pub enum Obj {
    A(ArchObj),
    F(FileObj),
    S(FindObj),
}

impl Obj {
    pub fn kind(&self) -> Kind {
        match self {
            Obj::A(_) => Kind::Arch,
            Obj::F(_) => Kind::File,
            Obj::S(_) => Kind::Find,
        }
    }
    pub fn live(&self) -> bool {
        match self {
            Obj::A(a) => a.live,
            Obj::F(f) => f.live,
            Obj::S(s) => s.live,
        }
    }
}

#[derive(Clone, Copy, PartialEq, Eq, Debug)]
pub enum HClass {
    Live,
    Closed,
    Orphan,
    Null,
    Forged,
    WrongLive,
    WrongClosed,
}

impl HClass {
    pub fn label(&self) -> &'static str {
        match self {
            HClass::Live => "live",
            HClass::Closed => "closed",
            HClass::Orphan => "orphan",
            HClass::Null => "null",
            HClass::Forged => "forged",
            HClass::WrongLive => "wrongkind-live",
            HClass::WrongClosed => "wrongkind-closed",
        }
    }
}

pub struct Interp<'a> {
    pub storm: &'a Storm,
    pub ext: &'a Ext,
    pub h: &'a History,
    pub dir: PathBuf,
    pub disk_paths: Vec<String>,
    pub model: BTreeMap<usize, Obj>,
    pub order: Vec<usize>,
    pub max_handle: &'a mut usize,
    pub start_max: usize,
    pub cells: BTreeMap<String, u64>,
    pub feats: std::collections::BTreeSet<String>,
    pub skipped: BTreeMap<String, u64>,
    pub opi: usize,
    pub discard: Option<String>,
}

pub type R = Result<(), Fail>;

/// Err(Fail{signature:"DISCARD"}) ends the history without judgement
pub fn discard(why: impl Into<String>) -> Fail {
    Fail::new("DISCARD", why)
}

pub fn hval(v: usize) -> Handle {
    v as Handle
}

impl<'a> Interp<'a> {
    pub fn new(storm: &'a Storm, ext: &'a Ext, h: &'a History, dir: PathBuf, max_handle: &'a mut usize) -> Interp<'a> {
        Interp {
            storm,
            ext,
            h,
            dir,
            disk_paths: vec![],
            model: BTreeMap::new(),
            order: vec![],
            start_max: *max_handle,
            max_handle,
            cells: BTreeMap::new(),
            feats: Default::default(),
            skipped: BTreeMap::new(),
            opi: 0,
            discard: None,
        }
    }

    pub fn cell(&mut self, c: String) {
        *self.cells.entry(c).or_insert(0) += 1;
    }
    pub fn feat(&mut self, f: &str) {
        self.feats.insert(f.to_string());
    }
    pub fn skip(&mut self, why: &str) {
        *self.skipped.entry(why.to_string()).or_insert(0) += 1;
    }
    /// announce the next C call (the supervisor attributes a death or a deadlock to the last line)
    pub fn announce(&self, api: &str, variant: &str, hc: &str) {
        let line = format!("OP {} {} {} {}", self.opi, api, if variant.is_empty() { "-" } else { variant }, hc);
        crate::guard::set_last_op(&line);
        eprintln!("{line}");
    }

    pub fn note_handle(&mut self, v: usize) {
        if v > *self.max_handle && v < (1usize << 40) {
            *self.max_handle = v;
        }
    }

    /// register a handle the library returned; a value that was handed out before is a defect
    pub fn register(&mut self, api: &str, v: usize, o: Obj) -> R {
        self.note_handle(v);
        if v == 0 {
            return Err(Fail::new(format!("{api}:success-with-null-handle"), format!("{api} returned success and a NULL handle")));
        }
        if let Some(old) = self.model.get(&v) {
            let sig = if old.live() { "handle-value-duplicates-live-handle" } else { "handle-value-reused-after-close" };
            return Err(Fail::new(
                format!("{sig}:{api}"),
                format!("{api} returned handle {v:#x}, which the library had already handed out ({}): a stale copy of the old handle is now accepted", if old.live() { "and which is still open" } else { "and which was closed" }),
            ));
        }
        self.model.insert(v, o);
        self.order.push(v);
        Ok(())
    }

    pub fn resolve(&self, r: &HRef, want: Kind, both_file_arch: bool) -> (usize, HClass) {
        let pick = |k: Kind, live: bool, i: u8| -> Option<usize> {
            let c: Vec<usize> = self.order.iter().copied().filter(|v| self.model[v].kind() == k && self.model[v].live() == live).collect();
            if c.is_empty() { None } else { Some(c[i as usize % c.len()]) }
        };
        let v = match r {
            HRef::Null => return (0, HClass::Null),
            HRef::Live(k, i) => pick(*k, true, *i),
            HRef::Closed(k, i) => pick(*k, false, *i),
            HRef::ForgedNext(k) => Some(*self.max_handle + (*k as usize).max(1)),
            HRef::ForgedAbs(v) => Some(*v as usize),
        };
        let Some(v) = v else { return (0, HClass::Null) };
        if v == 0 {
            return (0, HClass::Null);
        }
        match self.model.get(&v) {
            None => (v, HClass::Forged),
            Some(o) => {
                let kind_ok = o.kind() == want || (both_file_arch && matches!(o.kind(), Kind::Arch | Kind::File));
                let c = match (kind_ok, o.live()) {
                    (true, true) => HClass::Live,
                    (true, false) => {
                        if let Obj::S(s) = o { if s.orphan { HClass::Orphan } else { HClass::Closed } } else { HClass::Closed }
                    }
                    (false, true) => HClass::WrongLive,
                    (false, false) => HClass::WrongClosed,
                };
                (v, c)
            }
        }
    }

    pub fn name(&self, n: &NameRef) -> (CName, Option<String>) {
        match n {
            NameRef::Null => (CName::Null, None),
            NameRef::BadUtf8 => (CName::Str(crate::ext::bad_utf8()), None),
            NameRef::Pool(i) => {
                if self.h.names.is_empty() {
                    return (CName::Str(vcheck::ffi::cstr("none.txt")), Some("none.txt".into()));
                }
                let s = self.h.names[*i as usize % self.h.names.len()].replace('\0', "?");
                (CName::Str(std::ffi::CString::new(s.clone()).unwrap()), Some(s))
            }
        }
    }
    pub fn name_label(n: &NameRef) -> &'static str {
        match n {
            NameRef::Null => "name=null",
            NameRef::BadUtf8 => "name=bad-utf8",
            NameRef::Pool(_) => "",
        }
    }

    pub fn created_path(&self, j: u8) -> String {
        self.dir.join(format!("c{}.mpq", j % 4)).to_string_lossy().to_string()
    }
    pub fn path_of(&self, p: &PathRef) -> String {
        match p {
            PathRef::Disk(i) => {
                if self.disk_paths.is_empty() {
                    self.dir.join("nodisk.mpq").to_string_lossy().to_string()
                } else {
                    self.disk_paths[*i as usize % self.disk_paths.len()].clone()
                }
            }
            PathRef::Created(j) => self.created_path(*j),
        }
    }
    pub fn live_on_path(&self, path: &str) -> (bool, bool) {
        let mut any = false;
        let mut mutable = false;
        for o in self.model.values() {
            if let Obj::A(a) = o {
                if a.live && a.path == path {
                    any = true;
                    mutable |= a.mutable;
                }
            }
        }
        (any, mutable)
    }

    /// build the disk archives of the history
    pub fn setup(&mut self) -> R {
        for (i, d) in self.h.disks.iter().enumerate() {
            let (long, p) = match d {
                Disk::Built { long_path, .. } => (*long_path, ()),
                _ => (false, ()),
            };
            let _ = p;
            let base = if long {
                // nest directories until the whole path has 270..300 bytes
                let mut b = self.dir.clone();
                while b.to_string_lossy().len() < 262 {
                    let room = 268usize.saturating_sub(b.to_string_lossy().len());
                    b = b.join("L".repeat(room.clamp(1, 60)));
                }
                std::fs::create_dir_all(&b).map_err(|e| discard(format!("mkdir: {e}")))?;
                b
            } else {
                self.dir.clone()
            };
            let path = base.join(format!("d{i}.mpq"));
            match d {
                Disk::Built { spec, .. } => {
                    let r = engine::guard("builder", || spec.builder().build(&path)).map_err(|f| discard(f.message))?;
                    r.map_err(|e| discard(format!("start build failed: {e}")))?;
                }
                Disk::Missing => {}
                Disk::Empty => std::fs::write(&path, b"").map_err(|e| discard(e.to_string()))?,
                Disk::Text => std::fs::write(&path, b"this is not an MPQ archive, just one hundred-odd bytes of plain text to be rejected by the header search.....").map_err(|e| discard(e.to_string()))?,
            }
            self.disk_paths.push(path.to_string_lossy().to_string());
        }
        Ok(())
    }

    /// close everything that is still open in the library (the handle tables are process-global and
    /// the worker goes on to the next history); closing is judged like any other valid close
    pub fn cleanup(&mut self) -> R {
        self.opi = self.h.ops.len();
        let vals: Vec<usize> = self.order.clone();
        for k in [Kind::Find, Kind::File, Kind::Arch] {
            for v in &vals {
                let (is, live, orphan) = match &self.model[v] {
                    Obj::S(s) => (k == Kind::Find, s.live, s.orphan),
                    o => (o.kind() == k, o.live(), false),
                };
                if !is || !(live || orphan) {
                    continue;
                }
                match k {
                    Kind::Find => {
                        self.announce("SFileFindClose", "cleanup", "live");
                        let ok = unsafe { (self.storm.SFileFindClose)(hval(*v)) };
                        if !ok && live {
                            return Err(Fail::new("close-of-live-handle-fails:SFileFindClose", format!("SFileFindClose({v:#x}) on a live search handle returned false")));
                        }
                        if let Some(Obj::S(s)) = self.model.get_mut(v) {
                            s.live = false;
                            s.orphan = false;
                        }
                    }
                    Kind::File => {
                        self.announce("SFileCloseFile", "cleanup", "live");
                        let ok = unsafe { (self.storm.SFileCloseFile)(hval(*v)) };
                        if !ok {
                            return Err(Fail::new("close-of-live-handle-fails:SFileCloseFile", format!("SFileCloseFile({v:#x}) on a live file handle returned false")));
                        }
                        if let Some(Obj::F(f)) = self.model.get_mut(v) {
                            f.live = false;
                        }
                    }
                    Kind::Arch => self.close_archive_live(*v, "cleanup")?,
                }
            }
        }
        self.sweep();
        Ok(())
    }

    /// defensive: close every handle value the library may have allocated during this history that the
    /// model does not know (a handle leaked by a failed check must not be alive in the next history,
    /// where a forged small integer could hit it)
    pub fn sweep(&mut self) {
        for v in self.start_max + 1..=*self.max_handle + 32 {
            if !self.model.contains_key(&v) {
                unsafe {
                    (self.storm.SFileFindClose)(hval(v));
                    (self.storm.SFileCloseFile)(hval(v));
                    (self.storm.SFileCloseArchive)(hval(v));
                }
            }
        }
    }

    pub fn result(&self, r: &R) -> Value {
        let cells: BTreeMap<&String, &u64> = self.cells.iter().collect();
        let mut v = json!({
            "cells": cells,
            "feat": self.feats.iter().collect::<Vec<_>>(),
            "skipped": self.skipped,
            "ops_run": self.opi,
        });
        match r {
            Ok(()) => v["ok"] = json!(true),
            Err(f) if f.signature == "DISCARD" => {
                v["ok"] = json!(true);
                v["discard"] = json!(f.message);
            }
            Err(f) => {
                v["ok"] = json!(false);
                v["sig"] = json!(f.signature);
                v["msg"] = json!(format!("op {}: {}", self.opi, f.message));
                v["op"] = json!(self.opi);
            }
        }
        v
    }

    pub fn run(&mut self) -> R {
        self.setup()?;
        let ops = &self.h.ops;
        for (i, op) in ops.iter().enumerate() {
            self.opi = i;
            self.step(op)?;
        }
        self.cleanup()
    }
}
