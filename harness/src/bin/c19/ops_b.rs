//! enumeration / search / modification / verification / information operations
use crate::guard::GuardBuf;
use crate::hist::*;
use crate::interp::*;
use libc::{c_char, c_void};
use vcheck::engine::{self, Fail};
use vcheck::ffi::{FindData, Handle};
use vcheck::gens::mpq::{ContentClass, materialize};
use wow_mpq::AddFileOptions;
use wow_mpq::compression::CompressionMethod;

pub struct EnumState {
    pub names: Vec<String>,
    pub stop_at: usize,
    pub reentrant: Option<(unsafe extern "C" fn(Handle, *const c_char) -> bool, Handle)>,
    pub answers: Vec<bool>,
}

impl EnumState {
    pub fn passive(stop_at: usize) -> EnumState {
        EnumState { names: vec![], stop_at, reentrant: None, answers: vec![] }
    }
}

pub extern "C" fn enum_cb(name: *const c_char, ud: *mut c_void) -> bool {
    let st = unsafe { &mut *(ud as *mut EnumState) };
    let n = unsafe { std::ffi::CStr::from_ptr(name) }.to_string_lossy().to_string();
    st.names.push(n);
    if let Some((has, h)) = st.reentrant {
        // what a C caller naturally does inside the callback: ask the library about the file
        let a = unsafe { has(h, name) };
        st.answers.push(a);
    }
    !(st.stop_at > 0 && st.names.len() >= st.stop_at)
}

/// independent wildcard matcher: '*' any run, '?' one byte, ASCII case-insensitive
pub fn wild(mask: &[u8], text: &[u8]) -> bool {
    let (mut m, mut t) = (0usize, 0usize);
    let (mut star, mut mark) = (usize::MAX, 0usize);
    while t < text.len() {
        if m < mask.len() && (mask[m] == b'?' || mask[m].eq_ignore_ascii_case(&text[t])) && mask[m] != b'*' {
            m += 1;
            t += 1;
        } else if m < mask.len() && mask[m] == b'*' {
            star = m;
            mark = t;
            m += 1;
        } else if star != usize::MAX {
            m = star + 1;
            mark += 1;
            t = mark;
        } else {
            return false;
        }
    }
    while m < mask.len() && mask[m] == b'*' {
        m += 1;
    }
    m == mask.len()
}

fn trunc259(s: &str) -> &[u8] {
    let b = s.as_bytes();
    &b[..b.len().min(MAX_PATH - 1)]
}

impl<'a> Interp<'a> {
    /// (mask string or None for NULL, judged exactly by the search functions?)
    fn mask(&self, m: &Mask) -> (Option<String>, bool, &'static str) {
        let pool = |i: &u16| -> String {
            if self.h.names.is_empty() { "none.txt".to_string() } else { self.h.names[*i as usize % self.h.names.len()].replace('\0', "?") }
        };
        match m {
            Mask::Null => (None, true, "mask=null"),
            Mask::Star => (Some("*".into()), true, "mask=*"),
            Mask::Ext(i) => {
                let n = pool(i);
                let e = n.rfind('.').map(|p| n[p..].to_string()).unwrap_or_default();
                (Some(format!("*{e}")), true, "mask=*.ext")
            }
            Mask::Prefix(i) => {
                let n = pool(i);
                let p: String = n.chars().take(3).collect();
                (Some(format!("{p}*")), true, "mask=prefix*")
            }
            Mask::Exact(i) => (Some(pool(i)), true, "mask=exact"),
            Mask::QStar => (Some("?*".into()), true, "mask=?*"),
            Mask::NoMatch => (Some("zzz*nomatch".into()), true, "mask=nomatch"),
            Mask::StarDotStar => (Some("*.*".into()), false, "mask=*.*"),
        }
    }

    // ------------------------------------------------------------------ enumeration

    pub fn op_enum(&mut self, h: &HRef, mask: &Mask, cb: &Cb) -> R {
        let (v, hc) = self.resolve(h, Kind::Arch, false);
        if matches!(cb, Cb::Reentrant) && self.h.excl.reentrant_cb {
            self.skip("enum-with-reentrant-callback");
            return Ok(());
        }
        let (ms, _, ml) = self.mask(mask);
        let all = matches!(mask, Mask::Null | Mask::Star);
        let cbl = match cb {
            Cb::Passive { stop_at: 0 } => "passive",
            Cb::Passive { .. } => "passive-stop",
            Cb::Reentrant => "reentrant",
            Cb::NullFn => "callback=null",
        };
        self.cell(format!("SFileEnumFiles:{}", hc.label()));
        let list = if hc == HClass::Live { self.rust_list(v, false)? } else { None };
        if hc == HClass::Live {
            self.cell(format!("SFileEnumFiles:cb:{cbl}"));
            if matches!(cb, Cb::Reentrant) {
                self.feat("cb:reentrant");
            }
        }
        let mut st = match cb {
            Cb::Passive { stop_at } => EnumState::passive(*stop_at as usize),
            Cb::Reentrant => EnumState { names: vec![], stop_at: 0, reentrant: Some((self.storm.SFileHasFile, hval(v))), answers: vec![] },
            Cb::NullFn => EnumState::passive(0),
        };
        let cm = ms.as_ref().map(|s| vcheck::ffi::cstr(s));
        let _ = ml;
        self.announce("SFileEnumFiles", cbl, hc.label());
        let ok = unsafe {
            (self.storm.SFileEnumFiles)(
                hval(v),
                cm.as_ref().map(|c| c.as_ptr()).unwrap_or(std::ptr::null()),
                std::ptr::null(),
                if matches!(cb, Cb::NullFn) { None } else { Some(enum_cb) },
                &mut st as *mut _ as *mut c_void,
            )
        };
        if hc != HClass::Live {
            self.must_fail("SFileEnumFiles", hc, v, ok)?;
            if !st.names.is_empty() {
                return Err(Fail::new(format!("invalid-handle-accepted:SFileEnumFiles:{}:callback-invoked", hc.label()), "callback invoked for an invalid archive handle".to_string()));
            }
            return Ok(());
        }
        if matches!(cb, Cb::NullFn) {
            return Ok(());
        }
        let names: Vec<String> = list.clone().unwrap_or_default().into_iter().map(|e| e.0).collect();
        if all {
            let want: Vec<String> = if st.stop_at > 0 { names.iter().take(st.stop_at).cloned().collect() } else { names.clone() };
            if st.names != want {
                return Err(Fail::new(format!("enum-name-list-differs:{cbl}"), format!("SFileEnumFiles({ms:?}) delivered {:?}, the Rust API lists {:?}", st.names, want)));
            }
            if list.is_some() && !ok {
                return Err(Fail::new("enum-on-live-handle-fails", format!("SFileEnumFiles returned false (error {}) on a live archive the Rust API can list", self.storm.last_error())));
            }
        } else if let Some(x) = st.names.iter().find(|n| !names.contains(n)) {
            return Err(Fail::new("enum-delivers-unknown-name", format!("SFileEnumFiles({ms:?}) delivered {x:?}, which the Rust API does not list ({names:?})")));
        }
        // The existence answer given inside the callback must agree with the Rust API. (An enumerated
        // name is not necessarily a findable one: archives without a listfile are enumerated under
        // synthetic file_NNNNNNNN.dat names, for which "not found" is the right answer.)
        for (i, a) in st.answers.iter().enumerate() {
            let Some(name) = st.names.get(i) else { break };
            let want = self.rust_find(v, name)?.is_some();
            if *a != want {
                return Err(Fail::new(
                    "reentrant-hasfile-differs-from-rust-api",
                    format!("inside the enumeration callback SFileHasFile({name:?}) = {a}, the Rust API says {want}"),
                ));
            }
        }
        Ok(())
    }

    fn check_find_data(&mut self, buf: &GuardBuf, want: Option<&(String, u64)>, universe: &[String]) -> R {
        let fd = unsafe { &*(buf.ptr() as *const FindData) };
        let raw: Vec<u8> = fd.c_file_name.iter().map(|c| *c as u8).collect();
        let Some(nul) = raw.iter().position(|b| *b == 0) else {
            return Err(Fail::new("find-data-name-not-terminated", "cFileName has no terminating NUL within MAX_PATH".to_string()));
        };
        let got = &raw[..nul];
        let full: &String = match want {
            Some((n, size)) => {
                if got != trunc259(n) {
                    return Err(Fail::new("find-name-differs", format!("search delivered {:?}, the Rust API lists {:?} at this position", String::from_utf8_lossy(got), n)));
                }
                if fd.file_size != *size as u32 {
                    return Err(Fail::new("find-size-differs", format!("search reports size {} for {:?}, the Rust API lists {}", fd.file_size, n, size)));
                }
                n
            }
            None => match universe.iter().find(|n| trunc259(n) == got) {
                Some(n) => n,
                None => return Err(Fail::new("find-delivers-unknown-name", format!("search delivered {:?}, which the Rust API does not list", String::from_utf8_lossy(got)))),
            },
        };
        let sep = full.rfind('\\').map(|p| p + 1).unwrap_or(0);
        if sep >= MAX_PATH - 1 {
            self.feat("long-plain-offset");
            if self.h.excl.long_plain_offset {
                self.skip("plain-name-check-for-late-separator");
                return Ok(());
            }
        }
        let off = (fd.sz_plain_name as usize).wrapping_sub(buf.ptr() as usize);
        if off >= MAX_PATH {
            return Err(Fail::new("find-data-plain-name-outside-buffer", format!("szPlainName points {off} bytes after the start of cFileName[260] (name of {} bytes, last separator at {sep})", full.len())));
        }
        // the plain name lives in the (possibly truncated) cFileName
        let sep_t = trunc259(full).iter().rposition(|b| *b == b'\\').map(|p| p + 1).unwrap_or(0);
        if off != sep_t {
            return Err(Fail::new("find-data-plain-name-wrong", format!("szPlainName offset {off}, expected {sep_t} for {full:?}")));
        }
        Ok(())
    }

    pub fn op_find_first(&mut self, h: &HRef, mask: &Mask, null_data: bool) -> R {
        let (v, hc) = self.resolve(h, Kind::Arch, false);
        let (ms, judged, ml) = self.mask(mask);
        self.cell(format!("SFileFindFirstFile:{}", hc.label()));
        let list = if hc == HClass::Live { self.rust_list(v, true)? } else { None };
        let universe: Vec<String> = list.clone().unwrap_or_default().into_iter().map(|e| e.0).collect();
        let ascii = universe.iter().all(|n| n.is_ascii()) && ms.as_ref().map(|m| m.is_ascii()).unwrap_or(true);
        let all = matches!(mask, Mask::Null | Mask::Star);
        let expect: Option<Vec<(String, u64)>> = match (&list, all, judged && ascii) {
            (None, _, _) => Some(vec![]),
            (Some(l), true, _) => Some(l.clone()),
            (Some(l), false, true) => {
                let m = ms.clone().unwrap();
                Some(l.iter().filter(|e| wild(m.as_bytes(), e.0.as_bytes())).cloned().collect())
            }
            (Some(_), false, false) => None,
        };
        let buf = GuardBuf::new(std::mem::size_of::<FindData>(), 8);
        let cm = ms.as_ref().map(|s| vcheck::ffi::cstr(s));
        self.announce("SFileFindFirstFile", if null_data { "data=null" } else { ml }, hc.label());
        let fh = unsafe {
            (self.storm.SFileFindFirstFile)(
                hval(v),
                cm.as_ref().map(|c| c.as_ptr()).unwrap_or(std::ptr::null()),
                if null_data { std::ptr::null_mut() } else { buf.ptr() as *mut FindData },
                std::ptr::null(),
            )
        };
        buf.check().map_err(|m| Fail::new("write-outside-buffer:SFileFindFirstFile", m))?;
        if hc != HClass::Live {
            return self.must_fail("SFileFindFirstFile", hc, v, !fh.is_null());
        }
        if null_data {
            if !fh.is_null() {
                self.note_handle(fh as usize);
                unsafe { (self.storm.SFileFindClose)(fh) };
                return Err(Fail::new("findfirst-null-data-accepted", "SFileFindFirstFile with lpFindFileData = NULL returned a handle".to_string()));
            }
            return Ok(());
        }
        match (&expect, fh.is_null()) {
            (Some(e), true) if e.is_empty() => Ok(()),
            (Some(e), true) => Err(Fail::new("findfirst-fails-where-rust-lists", format!("SFileFindFirstFile({ms:?}) found nothing (error {}), the Rust API lists {:?}", self.storm.last_error(), e.iter().map(|x| &x.0).collect::<Vec<_>>()))),
            (Some(e), false) if e.is_empty() => {
                self.note_handle(fh as usize);
                unsafe { (self.storm.SFileFindClose)(fh) };
                Err(Fail::new("findfirst-finds-where-rust-lists-nothing", format!("SFileFindFirstFile({ms:?}) returned a handle, the Rust API lists no matching file")))
            }
            (None, true) => Ok(()),
            (_, false) => {
                let want = expect.as_ref().map(|e| e[0].clone());
                if universe.iter().any(|n| n.len() >= MAX_PATH) {
                    self.feat("longname");
                }
                // register first: a failed check below must not leak the handle into the next history
                self.register("SFileFindFirstFile", fh as usize, Obj::S(FindObj { live: true, orphan: false, arch: v, expect, universe: universe.clone(), idx: 1 }))?;
                self.check_find_data(&buf, want.as_ref(), &universe)
            }
        }
    }

    pub fn op_find_next(&mut self, h: &HRef) -> R {
        let (v, hc) = self.resolve(h, Kind::Find, false);
        if hc == HClass::Orphan && self.h.excl.orphan_find {
            self.skip("search-handle-of-closed-archive");
            return Ok(());
        }
        self.cell(format!("SFileFindNextFile:{}", hc.label()));
        let buf = GuardBuf::new(std::mem::size_of::<FindData>(), 8);
        self.announce("SFileFindNextFile", "-", hc.label());
        let ok = unsafe { (self.storm.SFileFindNextFile)(hval(v), buf.ptr() as *mut FindData) };
        buf.check().map_err(|m| Fail::new("write-outside-buffer:SFileFindNextFile", m))?;
        if hc != HClass::Live {
            return self.must_fail("SFileFindNextFile", hc, v, ok);
        }
        let (want, universe, exhausted) = {
            let Some(Obj::S(s)) = self.model.get_mut(&v) else { unreachable!() };
            let w = s.expect.as_ref().map(|e| e.get(s.idx).cloned());
            s.idx += 1;
            (w.clone().flatten(), s.universe.clone(), matches!(w, Some(None)))
        };
        if exhausted {
            if ok {
                return Err(Fail::new("findnext-beyond-rust-list", "SFileFindNextFile delivered another file after the Rust API's list was exhausted".to_string()));
            }
            return Ok(());
        }
        if want.is_some() && !ok {
            return Err(Fail::new("findnext-ends-before-rust-list", format!("SFileFindNextFile returned false (error {}), the Rust API lists {:?} next", self.storm.last_error(), want.unwrap().0)));
        }
        if ok {
            self.check_find_data(&buf, want.as_ref(), &universe)?;
        }
        Ok(())
    }

    pub fn op_find_close(&mut self, h: &HRef) -> R {
        let (v, hc) = self.resolve(h, Kind::Find, false);
        if hc == HClass::Orphan && self.h.excl.orphan_find {
            self.skip("search-handle-of-closed-archive");
            return Ok(());
        }
        self.cell(format!("SFileFindClose:{}", hc.label()));
        self.announce("SFileFindClose", "-", hc.label());
        let ok = unsafe { (self.storm.SFileFindClose)(hval(v)) };
        if hc == HClass::Orphan {
            // whatever the answer, the handle is gone now
            if let Some(Obj::S(s)) = self.model.get_mut(&v) {
                s.orphan = false;
            }
        }
        if hc != HClass::Live {
            return self.must_fail("SFileFindClose", hc, v, ok);
        }
        if !ok {
            return Err(Fail::new("close-of-live-handle-fails:SFileFindClose", format!("SFileFindClose({v:#x}) on a live search handle returned false")));
        }
        if let Some(Obj::S(s)) = self.model.get_mut(&v) {
            s.live = false;
        }
        Ok(())
    }

    // ------------------------------------------------------------------ modification

    /// (is a live writable archive, is live)
    fn writable(&self, v: usize, hc: HClass) -> bool {
        hc == HClass::Live && matches!(self.model.get(&v), Some(Obj::A(a)) if a.mutable)
    }
    fn twin(&mut self, v: usize) -> &mut wow_mpq::MutableArchive {
        match self.model.get_mut(&v) {
            Some(Obj::A(a)) => a.twin.as_mut().unwrap(),
            _ => unreachable!(),
        }
    }
    fn set_modified(&mut self, v: usize) {
        if let Some(Obj::A(a)) = self.model.get_mut(&v) {
            a.modified = true;
            a.dirty = true;
        }
    }
    fn judge_mod(&mut self, api: &str, v: usize, hc: HClass, writable: bool, twin_ok: Option<bool>, c_ok: bool, what: String) -> R {
        if hc != HClass::Live {
            return self.must_fail(api, hc, v, c_ok);
        }
        if !writable {
            return Ok(()); // read-only handle: the answer is not judged, later reads are
        }
        if c_ok {
            self.set_modified(v);
            self.feat("modification");
        }
        match twin_ok {
            Some(t) if t != c_ok => Err(Fail::new(
                format!("modification-result-differs:{api}"),
                format!("{api}({what}) = {c_ok} (error {}), the same operation on a Rust-API twin of the archive = {t}", self.storm.last_error()),
            )),
            _ => Ok(()),
        }
    }

    #[allow(clippy::too_many_arguments)]
    pub fn op_add(&mut self, h: &HRef, name: &NameRef, len: u16, seed: u32, flags: u32, compression: u32, ex: bool, src_missing: bool) -> R {
        let api = if ex { "SFileAddFileEx" } else { "SFileAddFile" };
        let (v, hc) = self.resolve(h, Kind::Arch, false);
        let (cn, ns) = self.name(name);
        let w = self.writable(v, hc);
        self.cell(format!("{api}:{}{}", hc.label(), if w { "-writable" } else { "" }));
        let src = self.dir.join(format!("src_{}.bin", self.opi));
        if !src_missing {
            let data = materialize(if seed % 2 == 0 { ContentClass::Text } else { ContentClass::Random }, len as usize, seed);
            std::fs::write(&src, &data).map_err(|e| discard(e.to_string()))?;
        }
        let src_s = src.to_string_lossy().to_string();
        let mut twin_ok = None;
        if w {
            if let Some(n) = &ns {
                // StormLib constants: MPQ_COMPRESSION_ZLIB 0x02, BZIP2 0x10, LZMA 0x12; MPQ_FILE_ENCRYPTED 0x10000,
                // MPQ_FILE_FIX_KEY 0x20000, MPQ_FILE_REPLACEEXISTING 0x80000000; SFileAddFile compresses with zlib
                let method = match if ex { compression } else { 0x02 } {
                    0 => CompressionMethod::None,
                    0x10 => CompressionMethod::BZip2,
                    0x12 => CompressionMethod::Lzma,
                    _ => CompressionMethod::Zlib,
                };
                let mut o = AddFileOptions::new().compression(method);
                if flags & 0x0001_0000 != 0 {
                    o = o.encrypt();
                }
                if flags & 0x0002_0000 != 0 {
                    o = o.fix_key();
                }
                if flags & 0x8000_0000 != 0 {
                    o = o.replace_existing(true);
                }
                let t = self.twin(v);
                let r = engine::guard("MutableArchive::add_file", || t.add_file(&src_s, n, o)).map_err(|f| discard(f.message))?;
                twin_ok = Some(r.is_ok());
            } else {
                twin_ok = Some(false);
            }
        }
        let cs = vcheck::ffi::cstr(&src_s);
        self.announce(api, Self::name_label(name), hc.label());
        let ok = unsafe {
            if ex {
                (self.storm.SFileAddFileEx)(hval(v), cs.as_ptr(), cn.ptr(), flags, compression, 0)
            } else {
                (self.storm.SFileAddFile)(hval(v), cs.as_ptr(), cn.ptr(), flags)
            }
        };
        if w && ok {
            if let (Some(n), Some(Obj::A(a))) = (&ns, self.model.get_mut(&v)) {
                // the special files are maintained by the library itself: never modelled
                if !n.starts_with('(') {
                    if let Ok(d) = std::fs::read(&src) {
                        a.map.insert(crate::ops_a::fold_name(n), d);
                    }
                }
            }
        }
        self.judge_mod(api, v, hc, w, twin_ok, ok, format!("{ns:?}, {len} bytes, flags {flags:#x}, compression {compression:#x}"))
    }

    pub fn op_remove(&mut self, h: &HRef, name: &NameRef) -> R {
        let (v, hc) = self.resolve(h, Kind::Arch, false);
        let (cn, ns) = self.name(name);
        let w = self.writable(v, hc);
        self.cell(format!("SFileRemoveFile:{}{}", hc.label(), if w { "-writable" } else { "" }));
        let mut twin_ok = None;
        if w {
            twin_ok = Some(match &ns {
                Some(n) => {
                    let t = self.twin(v);
                    engine::guard("MutableArchive::remove_file", || t.remove_file(n)).map_err(|f| discard(f.message))?.is_ok()
                }
                None => false,
            });
        }
        self.announce("SFileRemoveFile", Self::name_label(name), hc.label());
        let ok = unsafe { (self.storm.SFileRemoveFile)(hval(v), cn.ptr(), 0) };
        if w && ok {
            if let (Some(n), Some(Obj::A(a))) = (&ns, self.model.get_mut(&v)) {
                a.map.remove(&crate::ops_a::fold_name(n));
            }
        }
        self.judge_mod("SFileRemoveFile", v, hc, w, twin_ok, ok, format!("{ns:?}"))
    }

    pub fn op_rename(&mut self, h: &HRef, from: &NameRef, to: &NameRef) -> R {
        let (v, hc) = self.resolve(h, Kind::Arch, false);
        let (cf, nf) = self.name(from);
        let (ct, nt) = self.name(to);
        let w = self.writable(v, hc);
        self.cell(format!("SFileRenameFile:{}{}", hc.label(), if w { "-writable" } else { "" }));
        let mut twin_ok = None;
        if w {
            twin_ok = Some(match (&nf, &nt) {
                (Some(a), Some(b)) => {
                    let t = self.twin(v);
                    engine::guard("MutableArchive::rename_file", || t.rename_file(a, b)).map_err(|f| discard(f.message))?.is_ok()
                }
                _ => false,
            });
        }
        self.announce("SFileRenameFile", if nf.is_none() || nt.is_none() { "name=invalid" } else { "" }, hc.label());
        let ok = unsafe { (self.storm.SFileRenameFile)(hval(v), cf.ptr(), ct.ptr()) };
        if w && ok {
            if let (Some(f), Some(t), Some(Obj::A(a))) = (&nf, &nt, self.model.get_mut(&v)) {
                let moved = a.map.remove(&crate::ops_a::fold_name(f));
                a.map.remove(&crate::ops_a::fold_name(t));
                if let Some(d) = moved {
                    if !t.starts_with('(') {
                        a.map.insert(crate::ops_a::fold_name(t), d);
                    }
                }
            }
        }
        self.judge_mod("SFileRenameFile", v, hc, w, twin_ok, ok, format!("{nf:?} -> {nt:?}"))
    }

    pub fn op_flush_compact(&mut self, h: &HRef, compact: bool) -> R {
        let api = if compact { "SFileCompactArchive" } else { "SFileFlushArchive" };
        let (v, hc) = self.resolve(h, Kind::Arch, false);
        let w = self.writable(v, hc);
        self.cell(format!("{api}:{}{}", hc.label(), if w { "-writable" } else { "" }));
        let mut twin_ok = None;
        if w {
            let t = self.twin(v);
            let r = if compact {
                engine::guard("MutableArchive::compact", || t.compact()).map_err(|f| discard(f.message))?.is_ok()
            } else {
                engine::guard("MutableArchive::flush", || t.flush()).map_err(|f| discard(f.message))?.is_ok()
            };
            twin_ok = Some(r);
        }
        self.announce(api, "-", hc.label());
        let ok = unsafe {
            if compact { (self.storm.SFileCompactArchive)(hval(v), std::ptr::null(), false) } else { (self.storm.SFileFlushArchive)(hval(v)) }
        };
        let r = self.judge_mod(api, v, hc, w, twin_ok, ok, String::new());
        if w && ok && twin_ok == Some(true) {
            if let Some(Obj::A(a)) = self.model.get_mut(&v) {
                a.dirty = false;
            }
        }
        r
    }

    // ------------------------------------------------------------------ verification

    pub fn op_verify_file(&mut self, h: &HRef, name: &NameRef, flags: u32) -> R {
        let (v, hc) = self.resolve(h, Kind::Arch, false);
        let (cn, ns) = self.name(name);
        self.cell(format!("SFileVerifyFile:{}", hc.label()));
        let mut absent = false;
        if hc == HClass::Live {
            let pending = matches!(self.model.get(&v), Some(Obj::A(a)) if a.mutable && a.modified);
            match &ns {
                None => absent = true,
                Some(n) => {
                    let there = self.rust_find(v, n)?.is_some();
                    if there {
                        // the call reads the file: make sure wow_mpq itself does not panic on it
                        let _ = self.rust_read(v, n)?;
                    }
                    absent = !there && !pending;
                }
            }
        }
        self.announce("SFileVerifyFile", Self::name_label(name), hc.label());
        let ok = unsafe { (self.storm.SFileVerifyFile)(hval(v), cn.ptr(), flags) };
        if hc != HClass::Live {
            return self.must_fail("SFileVerifyFile", hc, v, ok);
        }
        if absent && ok {
            return Err(Fail::new("verify-file-succeeds-on-absent-file", format!("SFileVerifyFile({ns:?}, {flags:#x}) = true for a file the Rust API does not find")));
        }
        Ok(())
    }

    pub fn op_verify_archive(&mut self, h: &HRef, flags: u32) -> R {
        let (v, hc) = self.resolve(h, Kind::Arch, false);
        let all_files = flags & vcheck::ffi::VERIFY_ALL_FILES != 0;
        if all_files && self.h.excl.verify_all_files {
            self.skip("verify-archive-all-files");
            return Ok(());
        }
        self.cell(format!("SFileVerifyArchive:{}", hc.label()));
        if hc == HClass::Live {
            if all_files {
                self.feat("verify:all-files");
            }
            let Some(Obj::A(a)) = self.model.get_mut(&v) else { unreachable!() };
            if let Some(t) = a.twin.as_mut() {
                let _ = engine::guard("verify_signature", || t.verify_signature()).map_err(|f| discard(f.message))?;
            } else if let Some(r) = a.reference.as_mut() {
                let _ = engine::guard("verify_signature", || r.verify_signature()).map_err(|f| discard(f.message))?;
            }
        }
        self.announce("SFileVerifyArchive", if all_files { "all-files" } else { "no-files" }, hc.label());
        let ok = unsafe { (self.storm.SFileVerifyArchive)(hval(v), flags) };
        if hc != HClass::Live {
            return self.must_fail("SFileVerifyArchive", hc, v, ok);
        }
        Ok(())
    }

    // ------------------------------------------------------------------ information

    pub fn op_get_info(&mut self, h: &HRef, class: u32, sz: &Sz, misalign: bool, null_needed: bool) -> R {
        let (v, hc) = self.resolve(h, Kind::File, true);
        if misalign && self.h.excl.misaligned_info {
            self.skip("get-info-misaligned-buffer");
            return Ok(());
        }
        let needed: usize = match class {
            2 | 3 | 4 => 4,
            _ => 8,
        };
        let size = sz.resolve(needed).min(1 << 16);
        // expected value (None = class not applicable to this handle / not live)
        let mut want: Option<u64> = None;
        if hc == HClass::Live {
            match self.model.get(&v) {
                Some(Obj::F(f)) => {
                    want = match class {
                        7 => Some(f.size),
                        10 => Some(f.cursor as u64),
                        _ => None,
                    }
                }
                Some(Obj::A(a)) => {
                    let hdr = a.twin.as_ref().map(|t| t.archive().header()).or(a.reference.as_ref().map(|r| r.header()));
                    if let Some(hdr) = hdr {
                        want = match class {
                            1 => Some(hdr.get_archive_size()),
                            2 => Some(hdr.hash_table_size as u64),
                            3 => Some(hdr.block_table_size as u64),
                            4 => Some(hdr.sector_size() as u32 as u64),
                            _ => None,
                        };
                    }
                }
                _ => {}
            }
        }
        self.cell(format!("SFileGetFileInfo:{}", hc.label()));
        if hc == HClass::Live {
            self.cell(format!("SFileGetFileInfo:size:{}{}", sz.label(), if want.is_some() { "" } else { ":unsupported" }));
            self.feat(&format!("sz:{}", sz.label()));
            if misalign {
                self.feat("misaligned");
            }
        }
        let buf = if misalign { GuardBuf::misaligned(size) } else { GuardBuf::new(size, 8) };
        let nb = GuardBuf::new(4, 4);
        unsafe { (nb.ptr() as *mut u32).write(0xEEEE_EEEE) };
        self.announce("SFileGetFileInfo", if misalign { "misaligned-buffer" } else { "aligned-buffer" }, hc.label());
        let ok = unsafe { (self.storm.SFileGetFileInfo)(hval(v), class, buf.ptr() as *mut c_void, size as u32, if null_needed { std::ptr::null_mut() } else { nb.ptr() as *mut u32 }) };
        buf.check().map_err(|m| Fail::new("write-outside-buffer:SFileGetFileInfo", m))?;
        nb.check().map_err(|m| Fail::new("write-outside-buffer:SFileGetFileInfo:size-needed", m))?;
        if hc != HClass::Live {
            self.must_fail("SFileGetFileInfo", hc, v, ok)?;
            return buf.untouched_from(0).map_err(|m| Fail::new("failed-get-info-writes-buffer", m));
        }
        let Some(want) = want else {
            return Ok(());
        };
        if size < needed {
            if ok {
                return Err(Fail::new("get-info-succeeds-with-short-buffer", format!("SFileGetFileInfo(class {class}) = true with a {size}-byte buffer, {needed} are needed")));
            }
            return buf.untouched_from(0).map_err(|m| Fail::new("failed-get-info-writes-buffer", m));
        }
        if !ok {
            return Err(Fail::new("get-info-on-live-handle-fails", format!("SFileGetFileInfo(class {class}, {size} bytes) = false (error {})", self.storm.last_error())));
        }
        let mut raw = [0u8; 8];
        raw[..needed].copy_from_slice(buf.bytes(needed));
        let got = u64::from_le_bytes(raw);
        if got != want {
            return Err(Fail::new(format!("get-info-value-differs:class{class}"), format!("SFileGetFileInfo(class {class}) = {got}, the model / Rust API says {want}")));
        }
        let nd = unsafe { (nb.ptr() as *const u32).read() };
        if !null_needed && nd as usize != needed {
            return Err(Fail::new("get-info-size-needed-wrong", format!("SFileGetFileInfo(class {class}) stored size_needed = {nd:#x}, expected {needed}")));
        }
        buf.untouched_from(needed).map_err(|m| Fail::new("get-info-writes-more-than-needed", m))
    }

    pub fn op_get_file_name(&mut self, h: &HRef) -> R {
        let (v, hc) = self.resolve(h, Kind::File, false);
        let name = match self.model.get(&v) {
            Some(Obj::F(f)) if hc == HClass::Live => f.name.clone(),
            _ => String::new(),
        };
        let long = name.len() >= MAX_PATH;
        if long && self.h.excl.long_file_name {
            self.skip("get-file-name-of-long-name");
            return Ok(());
        }
        self.cell(format!("SFileGetFileName:{}", hc.label()));
        if hc == HClass::Live {
            self.cell(format!("SFileGetFileName:{}", if long { "name>=260" } else { "name<260" }));
        }
        // StormLib contract: the buffer has MAX_PATH characters
        let buf = GuardBuf::new(MAX_PATH, 1);
        self.announce("SFileGetFileName", if long { "name>=260" } else { "name<260" }, hc.label());
        let ok = unsafe { (self.storm.SFileGetFileName)(hval(v), buf.ptr() as *mut c_char) };
        buf.check().map_err(|m| Fail::new("write-outside-buffer:SFileGetFileName", m))?;
        if hc != HClass::Live {
            self.must_fail("SFileGetFileName", hc, v, ok)?;
            return buf.untouched_from(0).map_err(|m| Fail::new("failed-get-file-name-writes-buffer", m));
        }
        if long {
            // does not fit: the only acceptable outcomes are an error or a truncated, terminated prefix
            if ok {
                let b = buf.bytes(MAX_PATH);
                let nul = b.iter().position(|x| *x == 0);
                if nul.is_none() || &b[..nul.unwrap()] != &name.as_bytes()[..nul.unwrap()] {
                    return Err(Fail::new("get-file-name-long-name-garbled", "SFileGetFileName on a name that does not fit MAX_PATH returned true without a terminated prefix of the name".to_string()));
                }
            }
            return Ok(());
        }
        let b = buf.bytes(MAX_PATH);
        let got = b.iter().position(|x| *x == 0).map(|n| &b[..n]);
        if !ok || got != Some(name.as_bytes()) {
            return Err(Fail::new("file-name-differs", format!("SFileGetFileName = {ok}, buffer {:?}, the file was opened as {name:?}", got.map(String::from_utf8_lossy))));
        }
        buf.untouched_from(name.len() + 1).map_err(|m| Fail::new("get-file-name-writes-more-than-name", m))
    }

    pub fn op_get_archive_name(&mut self, h: &HRef, sz: &Sz) -> R {
        let (v, hc) = self.resolve(h, Kind::Arch, false);
        let path = match self.model.get(&v) {
            Some(Obj::A(a)) if hc == HClass::Live => a.path.clone(),
            _ => "x".repeat(40),
        };
        let n = path.len() + 1;
        let size = sz.resolve(n);
        let long = path.len() >= MAX_PATH;
        self.cell(format!("SFileGetArchiveName:{}", hc.label()));
        if hc == HClass::Live {
            self.cell(format!("SFileGetArchiveName:size:{}{}", sz.label(), if long { ":longpath" } else { "" }));
            self.feat(&format!("sz:{}", sz.label()));
        }
        let buf = GuardBuf::new(size, 1);
        self.announce("SFileGetArchiveName", &format!("{}{}", sz.label(), if long { ",longpath" } else { "" }), hc.label());
        let ok = unsafe { (self.storm.SFileGetArchiveName)(hval(v), buf.ptr() as *mut c_char, size as u32) };
        buf.check().map_err(|m| Fail::new("write-outside-buffer:SFileGetArchiveName", m))?;
        if hc != HClass::Live {
            self.must_fail("SFileGetArchiveName", hc, v, ok)?;
            return buf.untouched_from(0).map_err(|m| Fail::new("failed-get-archive-name-writes-buffer", m));
        }
        if size < n {
            if ok {
                return Err(Fail::new("get-archive-name-succeeds-with-short-buffer", format!("SFileGetArchiveName = true with a {size}-byte buffer for a {}-byte path", path.len())));
            }
            return buf.untouched_from(0).map_err(|m| Fail::new("failed-get-archive-name-writes-buffer", m));
        }
        let b = buf.bytes(n);
        if !ok || &b[..n - 1] != path.as_bytes() || b[n - 1] != 0 {
            return Err(Fail::new("archive-name-differs", format!("SFileGetArchiveName({size} bytes) = {ok} (error {}), expected {path:?}", self.storm.last_error())));
        }
        buf.untouched_from(n).map_err(|m| Fail::new("get-archive-name-writes-more-than-name", m))
    }
}
