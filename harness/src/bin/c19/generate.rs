//! History generators: deterministic grid (every API × every handle class, every boundary size,
//! every seek origin × region …), canaries for the excluded regions, and random histories.
use crate::hist::*;
use rand::Rng;
use vcheck::gens::mpq::*;

fn fs(name: &str, class: ContentClass, len: i16, method: u8, enc: Enc) -> FileSpec {
    FileSpec { name: name.to_string(), class, len: LenSpec { halves: 0, delta: len }, seed: 4242 + len as u32, method, enc, locale: 0 }
}

fn spec(version: u8, shift: u16, listfile: bool, attrs: Attrs, files: Vec<FileSpec>) -> ArchiveSpec {
    ArchiveSpec { version, shift, crcs: false, attrs, listfile, compress_tables: false, table_method: M_ZLIB, files }
}

pub fn spec_a() -> ArchiveSpec {
    spec(
        1,
        0,
        true,
        Attrs::None,
        vec![
            fs("dir\\a.txt", ContentClass::Text, 700, M_ZLIB, Enc::None),
            fs("b.bin", ContentClass::Random, 1500, M_NONE, Enc::None),
            fs("enc\\c.dat", ContentClass::Text, 300, M_ZLIB, Enc::Key),
        ],
    )
}
pub fn spec_b() -> ArchiveSpec {
    spec(
        2,
        1,
        true,
        Attrs::Crc32,
        vec![fs("x\\y\\z.wav", ContentClass::Random, 64, M_BZIP2, Enc::None), fs("B.BIN", ContentClass::Constant, 0, M_NONE, Enc::None), fs("one.byte", ContentClass::Constant, 1, M_NONE, Enc::None)],
    )
}
pub fn spec_nolf() -> ArchiveSpec {
    spec(1, 0, false, Attrs::None, vec![fs("n.txt", ContentClass::Text, 90, M_ZLIB, Enc::None), fs("m\\n.bin", ContentClass::Random, 600, M_ZLIB, Enc::None)])
}
pub fn spec_v4() -> ArchiveSpec {
    spec(4, 0, true, Attrs::Full, vec![fs("v4\\f.txt", ContentClass::Text, 1100, M_ZLIB, Enc::None), fs("v4\\g.bin", ContentClass::LowEntropy, 40, M_NONE, Enc::FixKey)])
}
pub fn name_259() -> String {
    format!("k\\{}.txt", "K".repeat(253))
}
pub fn name_260() -> String {
    format!("l\\{}.txt", "M".repeat(254))
}
pub fn name_300() -> String {
    format!("long\\{}.txt", "N".repeat(291))
}
pub fn name_late_sep() -> String {
    format!("{}\\tail.txt", "A".repeat(270))
}
/// names that fit MAX_PATH exactly or almost
pub fn spec_fit() -> ArchiveSpec {
    spec(1, 0, true, Attrs::None, vec![fs(&name_259(), ContentClass::Text, 50, M_ZLIB, Enc::None), fs("s", ContentClass::Text, 5, M_NONE, Enc::None)])
}
/// names that do not fit MAX_PATH (last separator early in the name)
pub fn spec_long() -> ArchiveSpec {
    spec(
        1,
        0,
        true,
        Attrs::None,
        vec![fs(&name_260(), ContentClass::Text, 50, M_ZLIB, Enc::None), fs(&name_300(), ContentClass::Random, 80, M_NONE, Enc::None), fs("short.txt", ContentClass::Text, 20, M_NONE, Enc::None)],
    )
}
pub fn spec_late() -> ArchiveSpec {
    spec(1, 0, true, Attrs::None, vec![fs(&name_late_sep(), ContentClass::Text, 50, M_ZLIB, Enc::None)])
}

const ADD_NAMES: [&str; 3] = ["new\\a.txt", "new\\b.bin", "c.dat"];

pub fn colliding_names() -> Vec<String> {
    use vcheck::oracle::refcrypt as rc;
    let target = rc::hash_string(b"new\\a.txt", 0) & 15;
    let mut v = vec![];
    let mut i = 0u32;
    while v.len() < 3 {
        let n = format!("col\\k{i}.dat");
        if rc::hash_string(n.as_bytes(), 0) & 15 == target {
            v.push(n);
        }
        i += 1;
    }
    v
}

/// name pool of a history: names of the disks' files first (so small indices are present files)
pub fn pool(disks: &[Disk]) -> Vec<String> {
    let mut v: Vec<String> = vec![];
    for d in disks {
        if let Disk::Built { spec, .. } = d {
            for f in &spec.files {
                if !v.contains(&f.name) {
                    v.push(f.name.clone());
                }
            }
        }
    }
    let present = v.len();
    if let Some(first) = v.first().cloned() {
        v.push(first.to_ascii_uppercase());
        v.push(first.replace('\\', "/"));
    }
    for n in ADD_NAMES {
        v.push(n.to_string());
    }
    // names whose home slot in a 16-slot hash table is the one of "new\\a.txt" (found by reference
    // hashing): adding, removing and replacing them exercises probe chains and deletion markers
    for n in colliding_names() {
        v.push(n);
    }
    for n in ["absent.txt", "dir\\none.bin", "", "(listfile)", "(attributes)", "*"] {
        v.push(n.to_string());
    }
    v.push("Z".repeat(300));
    let _ = present;
    v
}

fn built(s: ArchiveSpec) -> Disk {
    Disk::Built { spec: s, long_path: false }
}

fn hist(disks: Vec<Disk>, ops: Vec<Op>) -> History {
    let names = pool(&disks);
    History { disks, names, excl: Excl::current(), ops }
}

fn idx(names: &[String], n: &str) -> NameRef {
    NameRef::Pool(names.iter().position(|x| x == n).expect("name in pool") as u16)
}

pub fn set_h(op: &Op, nh: HRef) -> Op {
    let mut o = op.clone();
    match &mut o {
        Op::OpenArchive { .. } | Op::CreateArchive { .. } | Op::CreateArchive2 { .. } => {}
        Op::CloseArchive { h }
        | Op::OpenFile { h, .. }
        | Op::CloseFile { h }
        | Op::Read { h, .. }
        | Op::Seek { h, .. }
        | Op::Size { h, .. }
        | Op::HasFile { h, .. }
        | Op::Enum { h, .. }
        | Op::FindFirst { h, .. }
        | Op::FindNext { h }
        | Op::FindClose { h }
        | Op::Add { h, .. }
        | Op::Remove { h, .. }
        | Op::Rename { h, .. }
        | Op::Flush { h }
        | Op::Compact { h }
        | Op::VerifyFile { h, .. }
        | Op::VerifyArchive { h, .. }
        | Op::GetInfo { h, .. }
        | Op::GetFileName { h }
        | Op::GetArchiveName { h, .. } => *h = nh,
    }
    o
}

const A0: HRef = HRef::Live(Kind::Arch, 0);
const A1: HRef = HRef::Live(Kind::Arch, 1);
const F0: HRef = HRef::Live(Kind::File, 0);
const S0: HRef = HRef::Live(Kind::Find, 0);

fn create2(target: u8, version: u32, listfile: bool) -> Op {
    Op::CreateArchive2 { target, version, listfile, attr_flags: 0, sector_size: 3, max_files: 16, bad_cb: false }
}

/// live archives A (disk 0), A1 (disk 1), W (writable); live files F0 (A), F1 (A1); live searches S0 (A), S1 (A1);
/// one closed handle of every kind
fn prelude() -> Vec<Op> {
    vec![
        Op::OpenArchive { path: PathRef::Disk(0) },
        Op::OpenArchive { path: PathRef::Disk(1) },
        Op::OpenArchive { path: PathRef::Disk(0) },
        Op::OpenFile { h: A0, name: NameRef::Pool(1) },
        Op::OpenFile { h: A1, name: NameRef::Pool(3) },
        Op::OpenFile { h: A0, name: NameRef::Pool(0) },
        Op::FindFirst { h: A0, mask: Mask::Star, null_data: false },
        Op::FindFirst { h: A1, mask: Mask::Star, null_data: false },
        Op::FindFirst { h: A0, mask: Mask::Null, null_data: false },
        create2(0, 1, true),
        Op::CloseFile { h: HRef::Live(Kind::File, 2) },
        Op::FindClose { h: HRef::Live(Kind::Find, 2) },
        Op::CloseArchive { h: HRef::Live(Kind::Arch, 2) },
    ]
}

fn templates(names: &[String]) -> Vec<Op> {
    let newn = idx(names, "new\\a.txt");
    vec![
        Op::OpenFile { h: A0, name: NameRef::Pool(0) },
        Op::Read { h: A0, sz: Sz::N, null_read: false, null_buf: false },
        Op::Seek { h: A0, off: Off::Abs(1), method: 0, high: High::Null },
        Op::Size { h: A0, high: true },
        Op::HasFile { h: A0, name: NameRef::Pool(0) },
        Op::Enum { h: A0, mask: Mask::Star, cb: Cb::Passive { stop_at: 0 } },
        Op::FindFirst { h: A0, mask: Mask::Star, null_data: false },
        Op::FindNext { h: A0 },
        Op::Add { h: A0, name: newn, len: 333, seed: 5, flags: 0x8000_0000, compression: 2, ex: true, src_missing: false },
        Op::Add { h: A0, name: newn, len: 50, seed: 6, flags: 0x8000_0000, compression: 0, ex: false, src_missing: false },
        Op::Rename { h: A0, from: newn, to: idx(names, "c.dat") },
        Op::Remove { h: A0, name: idx(names, "c.dat") },
        Op::Flush { h: A0 },
        Op::Compact { h: A0 },
        Op::VerifyFile { h: A0, name: NameRef::Pool(0), flags: 0 },
        Op::VerifyArchive { h: A0, flags: 0x10 },
        Op::GetInfo { h: A0, class: 7, sz: Sz::N, misalign: false, null_needed: false },
        Op::GetFileName { h: A0 },
        Op::GetArchiveName { h: A0, sz: Sz::N },
        Op::FindClose { h: A0 },
        Op::CloseFile { h: A0 },
        Op::CloseArchive { h: A0 },
    ]
}

pub fn grid() -> Vec<(String, History)> {
    let mut out = vec![];
    let two = || vec![built(spec_a()), built(spec_b())];
    let names = pool(&two());

    // 1. every API × every handle class
    for t in templates(&names) {
        let (_, want) = t.handle().unwrap();
        let others: Vec<Kind> = [Kind::Arch, Kind::File, Kind::Find].into_iter().filter(|k| *k != want).collect();
        let mut ops = prelude();
        for h in [
            HRef::Closed(want, 0),
            HRef::Null,
            HRef::ForgedNext(1),
            HRef::ForgedNext(700),
            HRef::ForgedAbs(u64::MAX),
            HRef::ForgedAbs(0xdead_beef),
            HRef::ForgedAbs(1 << 63),
            HRef::Live(others[0], 0),
            HRef::Live(others[1], 0),
            HRef::Closed(others[0], 0),
            HRef::Closed(others[1], 0),
        ] {
            // GetInfo accepts file and archive handles: only a search handle is of the wrong kind
            if matches!(t, Op::GetInfo { .. }) && matches!(h, HRef::Live(Kind::Arch, _) | HRef::Closed(Kind::Arch, _)) {
                continue;
            }
            ops.push(set_h(&t, h));
        }
        // writable archive (third live archive) for the modifying calls, then the plain live handle
        if matches!(t, Op::Add { .. } | Op::Remove { .. } | Op::Rename { .. } | Op::Flush { .. } | Op::Compact { .. }) {
            ops.push(set_h(&t, HRef::Live(Kind::Arch, 2)));
        }
        ops.push(set_h(&t, HRef::Live(want, 0)));
        ops.push(set_h(&t, HRef::Live(want, 1)));
        out.push((format!("api:{}", t.api()), hist(two(), ops)));
    }

    // 2. read sizes at the start, in the middle and at the end of a multi-sector file; zero-length file
    for (label, name, at) in [("start", "b.bin", 0), ("middle", "b.bin", 700), ("end", "b.bin", 1500), ("empty-file", "B.BIN", 0), ("one-byte", "one.byte", 0)] {
        let disks = two();
        let names = pool(&disks);
        let arch = if name == "b.bin" { 0 } else { 1 };
        let mut ops = vec![Op::OpenArchive { path: PathRef::Disk(arch) }, Op::OpenFile { h: A0, name: idx(&names, name) }];
        for sz in [Sz::Zero, Sz::One, Sz::NMinus1, Sz::N, Sz::NPlus1, Sz::Big, Sz::Rand(7), Sz::Rand(513)] {
            for (nr, nb) in [(false, false), (true, false), (false, true)] {
                ops.push(Op::Seek { h: F0, off: Off::Abs(at), method: 0, high: High::Null });
                ops.push(Op::Read { h: F0, sz, null_read: nr, null_buf: nb });
                ops.push(Op::GetInfo { h: F0, class: 10, sz: Sz::N, misalign: false, null_needed: false });
            }
        }
        // sequential reads to the end and past it
        ops.push(Op::Seek { h: F0, off: Off::Abs(0), method: 0, high: High::Null });
        for _ in 0..6 {
            ops.push(Op::Read { h: F0, sz: Sz::Rand(400), null_read: false, null_buf: false });
        }
        out.push((format!("read-sizes:{label}"), hist(disks, ops)));
    }

    // 3. seeks: 4 methods × distances beyond both ends × high-part modes, each followed by a read
    for method in 0..=3u32 {
        let disks = two();
        let names = pool(&disks);
        let mut ops = vec![Op::OpenArchive { path: PathRef::Disk(0) }, Op::OpenFile { h: A0, name: idx(&names, "b.bin") }];
        for off in [
            Off::Abs(0),
            Off::Abs(1),
            Off::Abs(700),
            Off::LenPlus(0),
            Off::LenPlus(1),
            Off::LenPlus(-1),
            Off::Abs(-1),
            Off::MinusLenPlus(0),
            Off::MinusLenPlus(-1),
            Off::MinusLenPlus(1),
            Off::MinusCurPlus(0),
            Off::MinusCurPlus(-1),
            Off::Abs(i32::MAX),
            Off::Abs(i32::MIN),
        ] {
            for high in [High::Null, High::Zero, High::SignExt, High::One, High::Max, High::Min] {
                ops.push(Op::Seek { h: F0, off: Off::Abs(300), method: 0, high: High::Null });
                ops.push(Op::Seek { h: F0, off, method, high });
                ops.push(Op::Read { h: F0, sz: Sz::Rand(3), null_read: false, null_buf: false });
            }
        }
        out.push((format!("seek:m{method}"), hist(disks, ops)));
    }

    // 4. information classes × buffer sizes, on a file, an archive (V1, V2 with attributes) and a V4 archive
    {
        let disks = vec![built(spec_a()), built(spec_b()), built(spec_v4())];
        let mut ops = vec![
            Op::OpenArchive { path: PathRef::Disk(0) },
            Op::OpenArchive { path: PathRef::Disk(1) },
            Op::OpenArchive { path: PathRef::Disk(2) },
            Op::OpenFile { h: A0, name: NameRef::Pool(1) },
            Op::Read { h: F0, sz: Sz::Rand(77), null_read: false, null_buf: false },
        ];
        for class in [1u32, 2, 3, 4, 5, 7, 10, 99] {
            for sz in [Sz::Zero, Sz::One, Sz::NMinus1, Sz::N, Sz::NPlus1, Sz::Rand(16), Sz::Big] {
                for nn in [false, true] {
                    ops.push(Op::GetInfo { h: F0, class, sz, misalign: false, null_needed: nn });
                    for a in 0..3 {
                        ops.push(Op::GetInfo { h: HRef::Live(Kind::Arch, a), class, sz, misalign: false, null_needed: nn });
                    }
                }
            }
        }
        out.push(("info".into(), hist(disks, ops)));
    }

    // 5. names: archive name sizes on a short and a long (≥ 260) path; file names up to exactly MAX_PATH-1
    {
        let disks = vec![built(spec_a()), Disk::Built { spec: spec_b(), long_path: true }, built(spec_fit())];
        let names = pool(&disks);
        let mut ops = vec![Op::OpenArchive { path: PathRef::Disk(0) }, Op::OpenArchive { path: PathRef::Disk(1) }, Op::OpenArchive { path: PathRef::Disk(2) }];
        for a in 0..2 {
            for sz in [Sz::Zero, Sz::One, Sz::NMinus1, Sz::N, Sz::NPlus1, Sz::MaxPath, Sz::Rand(1024), Sz::Big] {
                ops.push(Op::GetArchiveName { h: HRef::Live(Kind::Arch, a), sz });
            }
        }
        ops.push(Op::OpenFile { h: A0, name: idx(&names, "dir\\a.txt") });
        ops.push(Op::OpenFile { h: A0, name: idx(&names, "DIR\\A.TXT") });
        ops.push(Op::OpenFile { h: A0, name: idx(&names, "dir/a.txt") });
        ops.push(Op::OpenFile { h: HRef::Live(Kind::Arch, 2), name: idx(&names, &name_259()) });
        ops.push(Op::OpenFile { h: HRef::Live(Kind::Arch, 2), name: idx(&names, "s") });
        ops.push(Op::OpenFile { h: HRef::Live(Kind::Arch, 1), name: idx(&names, "B.BIN") });
        for f in 0..6 {
            ops.push(Op::GetFileName { h: HRef::Live(Kind::File, f) });
            ops.push(Op::Size { h: HRef::Live(Kind::File, f), high: f % 2 == 0 });
        }
        // long names in searches (truncation to MAX_PATH-1 is the StormLib contract of SFILE_FIND_DATA)
        ops.push(Op::FindFirst { h: HRef::Live(Kind::Arch, 2), mask: Mask::Star, null_data: false });
        for _ in 0..4 {
            ops.push(Op::FindNext { h: S0 });
        }
        out.push(("names".into(), hist(disks, ops)));
    }
    {
        // names that do not fit: everything except SFileGetFileName (excluded; see canaries)
        let disks = vec![built(spec_long())];
        let names = pool(&disks);
        let mut ops = vec![Op::OpenArchive { path: PathRef::Disk(0) }];
        for n in [name_260(), name_300(), "short.txt".to_string()] {
            ops.push(Op::HasFile { h: A0, name: idx(&names, &n) });
            ops.push(Op::OpenFile { h: A0, name: idx(&names, &n) });
            ops.push(Op::VerifyFile { h: A0, name: idx(&names, &n), flags: 0 });
        }
        for f in 0..3 {
            ops.push(Op::Read { h: HRef::Live(Kind::File, f), sz: Sz::NPlus1, null_read: false, null_buf: false });
            ops.push(Op::GetFileName { h: HRef::Live(Kind::File, f) });
        }
        ops.push(Op::Enum { h: A0, mask: Mask::Null, cb: Cb::Passive { stop_at: 0 } });
        ops.push(Op::FindFirst { h: A0, mask: Mask::Star, null_data: false });
        for _ in 0..5 {
            ops.push(Op::FindNext { h: S0 });
        }
        out.push(("long-names".into(), hist(disks, ops)));
    }

    // 6. enumeration and search: masks × callbacks on archives with / without listfile, V4, empty
    {
        let disks = vec![built(spec_a()), built(spec_nolf()), built(spec_v4()), built(spec(1, 0, true, Attrs::None, vec![]))];
        let mut ops = vec![];
        for d in 0..4 {
            ops.push(Op::OpenArchive { path: PathRef::Disk(d) });
        }
        for a in 0..4u8 {
            let h = HRef::Live(Kind::Arch, a);
            for mask in [Mask::Null, Mask::Star, Mask::Ext(0), Mask::Prefix(0), Mask::Exact(1), Mask::QStar, Mask::NoMatch, Mask::StarDotStar] {
                for cb in [Cb::Passive { stop_at: 0 }, Cb::Passive { stop_at: 1 }, Cb::Passive { stop_at: 2 }, Cb::NullFn] {
                    ops.push(Op::Enum { h, mask, cb });
                }
                ops.push(Op::FindFirst { h, mask, null_data: false });
                for _ in 0..5 {
                    ops.push(Op::FindNext { h: HRef::Live(Kind::Find, 0) });
                }
                ops.push(Op::FindClose { h: HRef::Live(Kind::Find, 0) });
            }
            ops.push(Op::FindFirst { h, mask: Mask::Star, null_data: true });
        }
        out.push(("enum-find".into(), hist(disks, ops)));
    }

    // 7. writable archives: every version × listfile; adds / reads / rename / remove / flush / compact; close ⇒ agreement
    for version in 1..=4u32 {
        for listfile in [true, false] {
            let disks = vec![built(spec_a())];
            let names = pool(&disks);
            let (na, nb, nc) = (idx(&names, "new\\a.txt"), idx(&names, "new\\b.bin"), idx(&names, "c.dat"));
            let mut ops = vec![create2(0, version, listfile)];
            let add = |name, len, seed, flags, compression, ex| Op::Add { h: A0, name, len, seed, flags, compression, ex, src_missing: false };
            ops.push(add(na, 900, 1, 0, 2, true));
            ops.push(add(nb, 2000, 2, 0x0001_0000, 0x10, true));
            ops.push(add(nc, 0, 3, 0, 0, false));
            ops.push(add(na, 10, 4, 0, 2, true)); // exists, no replace flag
            ops.push(add(na, 1200, 5, 0x8000_0000, 0x12, true)); // replace
            ops.push(Op::Add { h: A0, name: nb, len: 5, seed: 1, flags: 0x8000_0000, compression: 0, ex: true, src_missing: true });
            ops.push(Op::Add { h: A0, name: NameRef::Null, len: 5, seed: 1, flags: 0, compression: 0, ex: true, src_missing: false });
            ops.push(Op::Add { h: A0, name: NameRef::BadUtf8, len: 5, seed: 1, flags: 0, compression: 0, ex: false, src_missing: false });
            for n in [na, nb, nc] {
                ops.push(Op::OpenFile { h: A0, name: n });
            }
            for f in 0..3 {
                ops.push(Op::Read { h: HRef::Live(Kind::File, f), sz: Sz::NPlus1, null_read: false, null_buf: false });
                ops.push(Op::Size { h: HRef::Live(Kind::File, f), high: true });
            }
            ops.push(Op::Enum { h: A0, mask: Mask::Null, cb: Cb::Passive { stop_at: 0 } });
            ops.push(Op::FindFirst { h: A0, mask: Mask::Star, null_data: false });
            ops.push(Op::FindNext { h: S0 });
            ops.push(Op::Flush { h: A0 });
            ops.push(Op::Rename { h: A0, from: nb, to: nc }); // target exists
            ops.push(Op::Rename { h: A0, from: na, to: idx(&names, "absent.txt") });
            ops.push(Op::Remove { h: A0, name: nc });
            ops.push(Op::Remove { h: A0, name: nc });
            ops.push(Op::OpenFile { h: A0, name: nc });
            ops.push(Op::OpenFile { h: A0, name: idx(&names, "absent.txt") });
            ops.push(Op::Read { h: HRef::Live(Kind::File, 3), sz: Sz::N, null_read: false, null_buf: false });
            ops.push(Op::GetInfo { h: A0, class: 2, sz: Sz::N, misalign: false, null_needed: false });
            ops.push(Op::VerifyArchive { h: A0, flags: 0x10 });
            ops.push(Op::Compact { h: A0 });
            ops.push(Op::Enum { h: A0, mask: Mask::Null, cb: Cb::Passive { stop_at: 0 } });
            // names the compacted archive knows: remove / rename them and look again
            ops.push(Op::Remove { h: A0, name: nb });
            ops.push(Op::OpenFile { h: A0, name: nb });
            ops.push(Op::HasFile { h: A0, name: nb });
            ops.push(Op::Rename { h: A0, from: idx(&names, "absent.txt"), to: nb });
            ops.push(Op::OpenFile { h: A0, name: idx(&names, "absent.txt") });
            ops.push(Op::OpenFile { h: A0, name: nb });
            ops.push(Op::Read { h: HRef::Live(Kind::File, 9), sz: Sz::NPlus1, null_read: false, null_buf: false });
            ops.push(Op::CloseArchive { h: A0 });
            // after close: open read-only through the C API and keep going
            ops.push(Op::OpenArchive { path: PathRef::Created(0) });
            ops.push(Op::Add { h: A0, name: na, len: 5, seed: 1, flags: 0, compression: 0, ex: true, src_missing: false });
            ops.push(Op::OpenFile { h: A0, name: nb });
            ops.push(Op::Read { h: F0, sz: Sz::N, null_read: false, null_buf: false });
            out.push((format!("writable:v{version}:lf{}", listfile as u8), hist(disks, ops)));
        }
    }

    // 8. creation dispositions × hash sizes × existing / new targets
    {
        let mut ops = vec![];
        for (i, disposition) in [0u32, 1, 2, 3, 4, 5, 6, 2, 1, 4, 5].into_iter().enumerate() {
            for hash_size in [16u32, 0, 3, 4, 15, 2] {
                ops.push(Op::CreateArchive { target: (i % 2) as u8, disposition, hash_size });
                ops.push(Op::HasFile { h: A0, name: NameRef::Pool(0) });
                ops.push(Op::Add { h: A0, name: NameRef::Pool(0), len: 9, seed: 1, flags: 0, compression: 0, ex: true, src_missing: false });
                ops.push(Op::Enum { h: A0, mask: Mask::Null, cb: Cb::Passive { stop_at: 0 } });
                ops.push(Op::CloseArchive { h: A0 });
            }
        }
        for version in [0u32, 1, 4, 5] {
            for (sector, bad) in [(0u32, false), (3, true), (24, false)] {
                ops.push(Op::CreateArchive2 { target: 2, version, listfile: true, attr_flags: [0, 1, 4, 0xF][version as usize % 4], sector_size: sector, max_files: 0, bad_cb: bad });
                ops.push(Op::GetInfo { h: A0, class: 4, sz: Sz::N, misalign: false, null_needed: false });
                ops.push(Op::CloseArchive { h: A0 });
            }
        }
        out.push(("create".into(), hist(vec![built(spec_a())], ops)));
    }

    // 9. closing an archive invalidates exactly its own file and search handles
    {
        let disks = two();
        let mut ops = vec![
            Op::OpenArchive { path: PathRef::Disk(0) },
            Op::OpenArchive { path: PathRef::Disk(1) },
            Op::OpenArchive { path: PathRef::Disk(0) },
            Op::OpenFile { h: A0, name: NameRef::Pool(0) },
            Op::OpenFile { h: A0, name: NameRef::Pool(1) },
            Op::OpenFile { h: A1, name: NameRef::Pool(3) },
            Op::OpenFile { h: HRef::Live(Kind::Arch, 2), name: NameRef::Pool(0) },
            Op::FindFirst { h: A0, mask: Mask::Star, null_data: false },
            Op::FindFirst { h: A1, mask: Mask::Star, null_data: false },
            Op::CloseArchive { h: A0 },
        ];
        for f in 0..3 {
            for op in [
                Op::Read { h: HRef::Closed(Kind::File, f), sz: Sz::N, null_read: false, null_buf: false },
                Op::Seek { h: HRef::Closed(Kind::File, f), off: Off::Abs(0), method: 0, high: High::Null },
                Op::Size { h: HRef::Closed(Kind::File, f), high: false },
                Op::GetFileName { h: HRef::Closed(Kind::File, f) },
                Op::GetInfo { h: HRef::Closed(Kind::File, f), class: 7, sz: Sz::N, misalign: false, null_needed: false },
                Op::CloseFile { h: HRef::Closed(Kind::File, f) },
            ] {
                ops.push(op);
            }
        }
        for f in 0..2 {
            ops.push(Op::Read { h: HRef::Live(Kind::File, f), sz: Sz::N, null_read: false, null_buf: false });
            ops.push(Op::FindNext { h: HRef::Live(Kind::Find, 0) });
        }
        ops.push(Op::CloseArchive { h: HRef::Closed(Kind::Arch, 0) });
        ops.push(Op::CloseArchive { h: A0 });
        ops.push(Op::CloseArchive { h: A0 });
        out.push(("close-scope".into(), hist(disks, ops)));
    }

    // 10. things that are not archives
    {
        let disks = vec![Disk::Missing, Disk::Empty, Disk::Text, built(spec_a())];
        let mut ops = vec![];
        for d in 0..4 {
            ops.push(Op::OpenArchive { path: PathRef::Disk(d) });
            ops.push(Op::HasFile { h: A0, name: NameRef::Pool(0) });
        }
        ops.push(Op::OpenArchive { path: PathRef::Created(3) });
        out.push(("unopenable".into(), hist(disks, ops)));
    }
    out
}

/// one history per excluded region, with exactly that exclusion switched off
pub fn canaries() -> Vec<(String, History)> {
    let mut out = vec![];
    let open = Op::OpenArchive { path: PathRef::Disk(0) };
    for (i, flags) in [0x20u32, 0x30, 0xFF].into_iter().enumerate() {
        let mut h = hist(vec![built(if i == 1 { spec_nolf() } else { spec_a() })], vec![open.clone(), Op::VerifyArchive { h: A0, flags }]);
        h.excl.verify_all_files = false;
        out.push((format!("verify-all-files:{flags:#x}"), h));
    }
    {
        // no listed file at all: the nested call is never made, must pass
        let mut h = hist(vec![built(spec(1, 0, true, Attrs::None, vec![]))], vec![open.clone(), Op::VerifyArchive { h: A0, flags: 0x20 }]);
        h.excl.verify_all_files = false;
        out.push(("verify-all-files:empty-archive".into(), h));
    }
    for (label, s) in [("listfile", spec_a()), ("v4", spec_v4())] {
        let mut h = hist(vec![built(s)], vec![open.clone(), Op::Enum { h: A0, mask: Mask::Null, cb: Cb::Reentrant }]);
        h.excl.reentrant_cb = false;
        out.push((format!("reentrant-callback:{label}"), h));
    }
    {
        let mut h = hist(vec![built(spec(1, 0, true, Attrs::None, vec![]))], vec![open.clone(), Op::Enum { h: A0, mask: Mask::Null, cb: Cb::Reentrant }]);
        h.excl.reentrant_cb = false;
        out.push(("reentrant-callback:empty-archive".into(), h));
    }
    for n in [name_260(), name_300()] {
        let disks = vec![built(spec_long())];
        let names = pool(&disks);
        let mut h = hist(disks, vec![open.clone(), Op::OpenFile { h: A0, name: idx(&names, &n) }, Op::GetFileName { h: F0 }]);
        h.excl.long_file_name = false;
        out.push((format!("long-file-name:{}", n.len()), h));
    }
    for last in [Op::FindNext { h: HRef::Closed(Kind::Find, 0) }, Op::FindClose { h: HRef::Closed(Kind::Find, 0) }] {
        let label = last.api().to_string();
        let mut h = hist(vec![built(spec_a())], vec![open.clone(), Op::FindFirst { h: A0, mask: Mask::Star, null_data: false }, Op::CloseArchive { h: A0 }, last]);
        h.excl.orphan_find = false;
        out.push((format!("orphan-search-handle:{label}"), h));
    }
    for (class, on_arch) in [(7u32, false), (10, false), (1, true), (2, true)] {
        let target = if on_arch { A0 } else { F0 };
        let mut h = hist(
            vec![built(spec_a())],
            vec![open.clone(), Op::OpenFile { h: A0, name: NameRef::Pool(0) }, Op::GetInfo { h: target, class, sz: Sz::N, misalign: true, null_needed: false }],
        );
        h.excl.misaligned_info = false;
        out.push((format!("misaligned-info:class{class}"), h));
    }
    {
        let disks = vec![built(spec_a())];
        let names = pool(&disks);
        let na = idx(&names, "new\\a.txt");
        let add = Op::Add { h: A0, name: na, len: 100, seed: 1, flags: 0, compression: 2, ex: true, src_missing: false };
        let mut h = hist(disks.clone(), vec![create2(0, 1, true), add.clone(), Op::HasFile { h: A0, name: na }]);
        h.excl.hasfile_pending = false;
        out.push(("hasfile-pending:after-add".into(), h));
        let mut h = hist(disks.clone(), vec![create2(0, 2, true), add.clone(), Op::Flush { h: A0 }, Op::HasFile { h: A0, name: na }]);
        h.excl.hasfile_pending = false;
        out.push(("hasfile-pending:after-add-flush".into(), h));
        let mut h = hist(disks, vec![create2(0, 1, true), add, Op::Flush { h: A0 }, Op::Remove { h: A0, name: na }, Op::HasFile { h: A0, name: na }]);
        h.excl.hasfile_pending = false;
        out.push(("hasfile-pending:after-remove".into(), h));
    }
    {
        let mut h = hist(vec![built(spec_late())], vec![open.clone(), Op::FindFirst { h: A0, mask: Mask::Star, null_data: false }, Op::FindNext { h: S0 }]);
        h.excl.long_plain_offset = false;
        out.push(("late-separator".into(), h));
    }
    out
}

// ------------------------------------------------------------------------------------ random

pub fn gen_params() -> GenParams {
    GenParams {
        versions: (1, 4),
        max_shift: 3,
        methods: &[M_NONE, M_ZLIB, M_BZIP2],
        max_files: 6,
        allow_enc: true,
        allow_crcs: true,
        allow_attrs: true,
        many_tiny: false,
    }
}

fn href(rng: &mut impl Rng, want: Kind) -> HRef {
    let others: Vec<Kind> = [Kind::Arch, Kind::File, Kind::Find].into_iter().filter(|k| *k != want).collect();
    let i = rng.random_range(0..4u8);
    match rng.random_range(0..100) {
        0..72 => HRef::Live(want, i),
        72..80 => HRef::Closed(want, i),
        80..84 => HRef::Null,
        84..87 => HRef::ForgedNext(rng.random_range(1..1000)),
        87..90 => HRef::ForgedAbs([u64::MAX, 0xdead_beef, 1 << 63, 4096, 0xFFFF_FFFF, 1, 2, 3, 7][rng.random_range(0..9)]),
        90..96 => HRef::Live(others[rng.random_range(0..2)], i),
        _ => HRef::Closed(others[rng.random_range(0..2)], i),
    }
}

fn nref(rng: &mut impl Rng, present: usize, total: usize) -> NameRef {
    match rng.random_range(0..100) {
        0..60 if present > 0 => NameRef::Pool(rng.random_range(0..present) as u16),
        0..94 => NameRef::Pool(rng.random_range(0..total) as u16),
        94..97 => NameRef::Null,
        _ => NameRef::BadUtf8,
    }
}

fn sz(rng: &mut impl Rng) -> Sz {
    match rng.random_range(0..16) {
        0 => Sz::Zero,
        1 => Sz::One,
        2 | 3 => Sz::NMinus1,
        4..=6 => Sz::N,
        7 | 8 => Sz::NPlus1,
        9 => Sz::Big,
        10 => Sz::MaxPath,
        _ => Sz::Rand(rng.random_range(0..700)),
    }
}

fn mask(rng: &mut impl Rng, total: usize) -> Mask {
    let i = rng.random_range(0..total.max(1)) as u16;
    match rng.random_range(0..12) {
        0..3 => Mask::Null,
        3..6 => Mask::Star,
        6 => Mask::Ext(i),
        7 => Mask::Prefix(i),
        8 => Mask::Exact(i),
        9 => Mask::QStar,
        10 => Mask::NoMatch,
        _ => Mask::StarDotStar,
    }
}

pub fn random_op(rng: &mut impl Rng, present: usize, total: usize, ndisks: usize) -> Op {
    let a = |rng: &mut _| href(rng, Kind::Arch);
    let f = |rng: &mut _| href(rng, Kind::File);
    let s = |rng: &mut _| href(rng, Kind::Find);
    let w: [(u32, u8); 25] = [
        (8, 0), (2, 1), (4, 2), (4, 3), (11, 4), (3, 5), (12, 6), (10, 7), (3, 8), (6, 9), (4, 10), (4, 11), (6, 12), (2, 13), (6, 14), (2, 15), (2, 16), (1, 17), (1, 18), (3, 19), (2, 20), (5, 21), (2, 22), (2, 23), (0, 24),
    ];
    let tot: u32 = w.iter().map(|x| x.0).sum();
    let mut r = rng.random_range(0..tot);
    let mut k = 0u8;
    for (wt, id) in w {
        if r < wt {
            k = id;
            break;
        }
        r -= wt;
    }
    match k {
        0 => Op::OpenArchive { path: if rng.random_range(0..6) == 0 { PathRef::Created(rng.random_range(0..3)) } else { PathRef::Disk(rng.random_range(0..ndisks.max(1)) as u8) } },
        1 => Op::CreateArchive { target: rng.random_range(0..3), disposition: rng.random_range(0..7), hash_size: [16u32, 4, 0, 3, 1024][rng.random_range(0..5)] },
        2 => Op::CreateArchive2 {
            target: rng.random_range(0..3),
            version: [1u32, 1, 2, 2, 3, 4, 0, 5][rng.random_range(0..8)],
            listfile: rng.random_range(0..4) != 0,
            attr_flags: [0u32, 0, 1, 4, 0xF][rng.random_range(0..5)],
            sector_size: [0u32, 1, 3, 3, 24][rng.random_range(0..5)],
            max_files: [0u32, 4, 16, 1000][rng.random_range(0..4)],
            bad_cb: rng.random_range(0..12) == 0,
        },
        3 => Op::CloseArchive { h: a(rng) },
        4 => Op::OpenFile { h: a(rng), name: nref(rng, present, total) },
        5 => Op::CloseFile { h: f(rng) },
        6 => Op::Read { h: f(rng), sz: sz(rng), null_read: rng.random_range(0..8) == 0, null_buf: rng.random_range(0..16) == 0 },
        7 => Op::Seek {
            h: f(rng),
            off: {
                let d = [0i32, 1, -1, 2, -2, 17, -17, 512, -512, 100000, -100000][rng.random_range(0..11)];
                match rng.random_range(0..6) {
                    0 | 1 => Off::Abs(d),
                    2 => Off::LenPlus(d),
                    3 => Off::MinusLenPlus(d),
                    4 => Off::MinusCurPlus(d),
                    _ => Off::Abs([i32::MAX, i32::MIN, 0x4000_0000, -0x4000_0000][rng.random_range(0..4)]),
                }
            },
            method: [0u32, 0, 1, 1, 2, 2, 3, 0xFFFF_FFFF][rng.random_range(0..8)],
            high: [High::Null, High::Null, High::Null, High::Zero, High::SignExt, High::SignExt, High::One, High::Max, High::Min][rng.random_range(0..9)],
        },
        8 => Op::Size { h: f(rng), high: rng.random_range(0..2) == 0 },
        9 => Op::HasFile { h: a(rng), name: nref(rng, present, total) },
        10 => Op::Enum {
            h: a(rng),
            mask: mask(rng, total),
            cb: match rng.random_range(0..10) {
                0..5 => Cb::Passive { stop_at: 0 },
                5..8 => Cb::Passive { stop_at: rng.random_range(1..4) },
                8 => Cb::Reentrant,
                _ => Cb::NullFn,
            },
        },
        11 => Op::FindFirst { h: a(rng), mask: mask(rng, total), null_data: rng.random_range(0..20) == 0 },
        12 => Op::FindNext { h: s(rng) },
        13 => Op::FindClose { h: s(rng) },
        14 => Op::Add {
            h: a(rng),
            name: nref(rng, present, total),
            len: [0u16, 1, 100, 511, 512, 513, 3000, 9000][rng.random_range(0..8)],
            seed: rng.random(),
            flags: (if rng.random_range(0..3) != 0 { 0x8000_0000 } else { 0 }) | (if rng.random_range(0..5) == 0 { 0x0001_0000 } else { 0 }) | (if rng.random_range(0..10) == 0 { 0x0003_0000 } else { 0 }) | (if rng.random_range(0..2) == 0 { 0x200 } else { 0 }),
            compression: [0u32, 2, 2, 0x10, 0x12][rng.random_range(0..5)],
            ex: rng.random_range(0..4) != 0,
            src_missing: rng.random_range(0..15) == 0,
        },
        15 => Op::Remove { h: a(rng), name: nref(rng, present, total) },
        16 => Op::Rename { h: a(rng), from: nref(rng, present, total), to: nref(rng, present, total) },
        17 => Op::Flush { h: a(rng) },
        18 => Op::Compact { h: a(rng) },
        19 => Op::VerifyFile { h: a(rng), name: nref(rng, present, total), flags: [0u32, 1, 2, 4, 6, 7, 0xFF, 0x10][rng.random_range(0..8)] },
        20 => Op::VerifyArchive { h: a(rng), flags: [0u32, 0x10, 0x01, 0x1F, 0x20, 0xFF][rng.random_range(0..6)] },
        21 => Op::GetInfo {
            h: if rng.random_range(0..2) == 0 { f(rng) } else { a(rng) },
            class: [1u32, 2, 3, 4, 7, 10, 5, 6, 0, 99][rng.random_range(0..10)],
            sz: sz(rng),
            misalign: rng.random_range(0..10) == 0,
            null_needed: rng.random_range(0..4) == 0,
        },
        22 => Op::GetFileName { h: f(rng) },
        _ => Op::GetArchiveName { h: a(rng), sz: sz(rng) },
    }
}

/// `specs`: 1..3 random archive specs (drawn by the caller from vcheck::gens::mpq)
pub fn random_history(rng: &mut impl Rng, mut specs: Vec<ArchiveSpec>) -> History {
    // separate class: a name that does not fit MAX_PATH (last separator early)
    if rng.random_range(0..10) == 0 {
        if let Some(s) = specs.first_mut() {
            let n = if rng.random_range(0..2) == 0 { name_260() } else { name_300() };
            match s.files.first_mut() {
                Some(f) => f.name = n,
                None => s.files.push(fs(&n, ContentClass::Text, 40, M_ZLIB, Enc::None)),
            }
        }
    }
    let mut disks: Vec<Disk> = specs.into_iter().map(|spec| Disk::Built { spec, long_path: rng.random_range(0..12) == 0 }).collect();
    if rng.random_range(0..12) == 0 {
        disks.push([Disk::Missing, Disk::Empty, Disk::Text][rng.random_range(0..3)].clone());
    }
    let names = pool(&disks);
    let present = disks.iter().map(|d| if let Disk::Built { spec, .. } = d { spec.files.len() } else { 0 }).sum::<usize>().min(names.len());
    let n = match rng.random_range(0..10) {
        0..2 => rng.random_range(3..10),
        2..8 => rng.random_range(10..40),
        _ => rng.random_range(40..90),
    };
    let mut ops = vec![];
    // a history starts by opening something (otherwise most of it would run on invalid handles)
    ops.push(Op::OpenArchive { path: PathRef::Disk(0) });
    for _ in 0..rng.random_range(0..3) {
        ops.push(Op::OpenFile { h: A0, name: NameRef::Pool(rng.random_range(0..present.max(1)) as u16) });
    }
    if rng.random_range(0..2) == 0 {
        ops.push(Op::FindFirst { h: A0, mask: Mask::Star, null_data: false });
    }
    if rng.random_range(0..3) == 0 {
        ops.push(create2(rng.random_range(0..3), [1u32, 2, 2, 3, 4][rng.random_range(0..5)], rng.random_range(0..4) != 0));
    }
    for _ in 0..n {
        ops.push(random_op(rng, present, names.len(), disks.len()));
    }
    History { disks, names, excl: Excl::current(), ops }
}

/// A history that lives on one writable archive and a handful of names, so that sequences such
/// as add → compact → remove → open-file, rename onto a removed name, or replace → flush →
/// reopen are common instead of one-in-thousands (the general generator spreads its calls over
/// many handles and the whole name pool).
pub fn writable_history(rng: &mut impl Rng, specs: Vec<ArchiveSpec>) -> History {
    let disks: Vec<Disk> = specs.into_iter().map(|spec| Disk::Built { spec, long_path: false }).collect();
    let names = pool(&disks);
    let total = names.len();
    let k = rng.random_range(2..6usize);
    let mut few: Vec<u16> = vec![];
    for n in ADD_NAMES.iter().take(rng.random_range(1..4)) {
        few.push(names.iter().position(|x| x == n).unwrap_or(0) as u16);
    }
    while few.len() < k {
        few.push(rng.random_range(0..total) as u16);
    }
    // every other history works on names that share one home slot of the 16-slot table
    if rng.random_range(0..2) == 0 {
        few.clear();
        few.push(names.iter().position(|x| x == "new\\a.txt").unwrap_or(0) as u16);
        for n in colliding_names() {
            few.push(names.iter().position(|x| *x == n).unwrap_or(0) as u16);
        }
    }
    let pick = |rng: &mut _, few: &[u16]| NameRef::Pool(few[Rng::random_range(rng, 0..few.len())]);
    let versions: &[u32] = &[1, 1, 2, 2, 3, 4];
    // with and without a (listfile) / (attributes): an archive without a listfile takes different
    // paths through rename/remove (nothing else republishes the tables)
    let mut ops = vec![Op::CreateArchive2 {
        target: 0,
        version: versions[rng.random_range(0..6)],
        listfile: rng.random_range(0..3) != 0,
        attr_flags: [0u32, 0, 1, 4, 0xF][rng.random_range(0..5)],
        sector_size: 3,
        max_files: 16,
        bad_cb: false,
    }];
    let n = rng.random_range(8..60);
    for _ in 0..n {
        let op = match rng.random_range(0..100) {
            0..24 => Op::Add {
                h: A0,
                name: pick(rng, &few),
                len: [0u16, 1, 100, 511, 512, 513, 3000, 9000][rng.random_range(0..8)],
                seed: rng.random(),
                flags: (if rng.random_range(0..3) != 0 { 0x8000_0000 } else { 0 }) | (if rng.random_range(0..5) == 0 { 0x0001_0000 } else { 0 }) | (if rng.random_range(0..3) == 0 { 0x200 } else { 0 }),
                compression: [0u32, 2, 2, 0x10, 0x12][rng.random_range(0..5)],
                ex: rng.random_range(0..4) != 0,
                src_missing: false,
            },
            24..36 => Op::Remove { h: A0, name: pick(rng, &few) },
            36..46 => Op::Rename { h: A0, from: pick(rng, &few), to: pick(rng, &few) },
            46..52 => Op::Flush { h: A0 },
            52..62 => Op::Compact { h: A0 },
            62..76 => Op::OpenFile { h: A0, name: pick(rng, &few) },
            76..84 => Op::Read { h: HRef::Live(Kind::File, rng.random_range(0..4)), sz: [Sz::N, Sz::NPlus1, Sz::Rand(64)][rng.random_range(0..3)], null_read: false, null_buf: false },
            84..87 => Op::CloseFile { h: HRef::Live(Kind::File, rng.random_range(0..4)) },
            87..93 => Op::HasFile { h: A0, name: pick(rng, &few) },
            93..95 => Op::Enum { h: A0, mask: Mask::Null, cb: Cb::Passive { stop_at: 0 } },
            95..97 => Op::FindFirst { h: A0, mask: Mask::Star, null_data: false },
            97..99 => Op::VerifyFile { h: A0, name: pick(rng, &few), flags: [0u32, 1, 2, 4, 7][rng.random_range(0..5)] },
            _ => Op::Size { h: HRef::Live(Kind::File, rng.random_range(0..4)), high: true },
        };
        ops.push(op);
    }
    if rng.random_range(0..2) == 0 {
        // close ⇒ the file on disk agrees with the model; carry on read-only
        ops.push(Op::CloseArchive { h: A0 });
        ops.push(Op::OpenArchive { path: PathRef::Created(0) });
        for _ in 0..rng.random_range(1..6) {
            ops.push(Op::OpenFile { h: A0, name: pick(rng, &few) });
            ops.push(Op::Read { h: F0, sz: Sz::NPlus1, null_read: false, null_buf: false });
        }
        ops.push(Op::Enum { h: A0, mask: Mask::Null, cb: Cb::Passive { stop_at: 0 } });
    }
    History { disks, names, excl: Excl::current(), ops }
}
