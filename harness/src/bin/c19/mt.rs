//! Multi-threaded runs: T threads × N random operations over one shared pool of handles.
//! Oracle: the process survives (no abort, no fault, no guard-page hit), canaries intact, no
//! deadlock (supervisor), every successful read on a read-only archive is a contiguous slice of
//! the right file, sizes / names / positive existence answers are those of the right archive.
//! Interleavings are the OS scheduler's; a failing run is replayed as the same case, not the
//! same schedule.
use crate::ext::{CreateMpq, Ext};
use crate::guard::GuardBuf;
use crate::hist::{Kind, MAX_PATH};
use crate::ops_b::{EnumState, enum_cb};
use rand::{Rng, SeedableRng};
use serde::{Deserialize, Serialize};
use serde_json::{Value, json};
use std::collections::{BTreeMap, BTreeSet};
use std::path::Path;
use std::sync::Mutex;
use std::sync::atomic::{AtomicBool, AtomicU64, Ordering};
use vcheck::engine;
use vcheck::ffi::{FindData, Handle, Storm, cstr};
use vcheck::gens::mpq::{ArchiveSpec, ContentClass, materialize};
use wow_mpq::Archive;

#[derive(Clone, Debug, Serialize, Deserialize, PartialEq)]
pub struct MtCase {
    pub disks: Vec<ArchiveSpec>,
    pub threads: u8,
    pub ops: u16,
    pub seed: u64,
    pub writable: bool,
}

const W: usize = usize::MAX;

#[derive(Clone)]
struct Entry {
    kind: Kind,
    raw: usize,
    disk: usize,
    name: Option<String>,
}

struct DiskInfo {
    path: String,
    content: BTreeMap<String, Vec<u8>>,
    exists: BTreeSet<String>,
    listed: BTreeSet<String>,
}

struct Shared<'a> {
    storm: &'a Storm,
    disks: Vec<DiskInfo>,
    names: Vec<String>,
    wnames: Vec<String>,
    wsrc: Vec<String>,
    wpath: String,
    pool: Mutex<(Vec<Entry>, BTreeMap<usize, usize>)>,
    fail: Mutex<Option<(String, String)>>,
    stop: AtomicBool,
    reads_checked: AtomicU64,
    calls: AtomicU64,
    ok_calls: AtomicU64,
}

impl<'a> Shared<'a> {
    fn push(&self, e: Entry) {
        let mut p = self.pool.lock().unwrap();
        let i = p.0.len();
        p.1.insert(e.raw, i);
        p.0.push(e);
    }
    fn pick(&self, rng: &mut impl Rng, kind: Kind) -> Option<Entry> {
        let p = self.pool.lock().unwrap();
        let c: Vec<&Entry> = p.0.iter().filter(|e| e.kind == kind).collect();
        if c.is_empty() { None } else { Some(c[rng.random_range(0..c.len())].clone()) }
    }
    fn by_raw(&self, raw: usize) -> Option<Entry> {
        let p = self.pool.lock().unwrap();
        p.1.get(&raw).map(|i| p.0[*i].clone())
    }
    fn max_raw(&self) -> usize {
        self.pool.lock().unwrap().1.keys().next_back().copied().unwrap_or(1)
    }
    fn fail(&self, sig: &str, msg: String) {
        let mut f = self.fail.lock().unwrap();
        if f.is_none() {
            *f = Some((sig.to_string(), msg));
        }
        self.stop.store(true, Ordering::SeqCst);
    }
}

fn contains(hay: &[u8], needle: &[u8]) -> bool {
    needle.is_empty() || hay.windows(needle.len()).any(|w| w == needle)
}

pub fn run_mt(storm: &Storm, ext: &Ext, case: &MtCase, dir: &Path, max_handle: &mut usize) -> Value {
    // ---- setup (single-threaded, Rust API first)
    let mut disks = vec![];
    let mut names: Vec<String> = vec!["absent.txt".into(), "(listfile)".into()];
    for (i, spec) in case.disks.iter().enumerate() {
        let path = dir.join(format!("m{i}.mpq"));
        match engine::guard("builder", || spec.builder().build(&path)) {
            Ok(Ok(_)) => {}
            _ => return json!({"ok": true, "discard": "start build failed"}),
        }
        let mut a = match engine::guard("open", || Archive::open(&path)) {
            Ok(Ok(a)) => a,
            _ => return json!({"ok": true, "discard": "start archive does not open"}),
        };
        for f in &spec.files {
            names.push(f.name.clone());
        }
        let listed: BTreeSet<String> = match engine::guard("list", || a.list()) {
            Ok(r) => r.map(|l| l.into_iter().map(|e| e.name).collect()).unwrap_or_default(),
            Err(_) => return json!({"ok": true, "discard": "list panics"}),
        };
        disks.push((path.to_string_lossy().to_string(), a, listed));
    }
    // existence and content of every pool name in every disk, per the Rust API
    let mut infos = vec![];
    for (path, mut a, listed) in disks {
        let mut content = BTreeMap::new();
        let mut exists = BTreeSet::new();
        for n in &names {
            match engine::guard("find", || a.find_file(n)) {
                Ok(Ok(Some(_))) => {
                    exists.insert(n.clone());
                    match engine::guard("read", || a.read_file(n)) {
                        Ok(Ok(d)) => {
                            content.insert(n.clone(), d);
                        }
                        Ok(Err(_)) => {}
                        Err(_) => return json!({"ok": true, "discard": "read panics in wow_mpq"}),
                    }
                }
                Ok(_) => {}
                Err(_) => return json!({"ok": true, "discard": "find panics"}),
            }
        }
        infos.push(DiskInfo { path, content, exists, listed });
    }
    let wnames: Vec<String> = vec!["w\\a.bin".into(), "w\\b.txt".into(), "w\\c.dat".into(), "d.x".into()];
    let mut wsrc = vec![];
    for (i, _) in wnames.iter().enumerate() {
        let p = dir.join(format!("wsrc{i}.bin"));
        std::fs::write(&p, materialize(if i % 2 == 0 { ContentClass::Random } else { ContentClass::Text }, 300 + 977 * i, 77 + i as u32)).unwrap();
        wsrc.push(p.to_string_lossy().to_string());
    }
    let sh = Shared {
        storm,
        disks: infos,
        names,
        wnames,
        wsrc,
        wpath: dir.join("w.mpq").to_string_lossy().to_string(),
        pool: Mutex::new((vec![], BTreeMap::new())),
        fail: Mutex::new(None),
        stop: AtomicBool::new(false),
        reads_checked: AtomicU64::new(0),
        calls: AtomicU64::new(0),
        ok_calls: AtomicU64::new(0),
    };
    // shared handles every thread starts with: one per disk, one file of each, the writable archive
    for (d, info) in sh.disks.iter().enumerate() {
        eprintln!("OP setup SFileOpenArchive - mt");
        if let Some(h) = storm.open(&info.path) {
            sh.push(Entry { kind: Kind::Arch, raw: h as usize, disk: d, name: None });
            if let Some(n) = info.content.keys().next() {
                let mut fh: Handle = std::ptr::null_mut();
                let cn = cstr(n);
                if unsafe { (storm.SFileOpenFileEx)(h, cn.as_ptr(), 0, &mut fh) } {
                    sh.push(Entry { kind: Kind::File, raw: fh as usize, disk: d, name: Some(n.clone()) });
                }
            }
        } else {
            return json!({"ok": false, "sig": "open-archive-fails-where-rust-opens", "msg": "MT setup: SFileOpenArchive failed on an archive the Rust API opens"});
        }
    }
    if case.writable {
        let info = CreateMpq {
            cb_size: std::mem::size_of::<CreateMpq>() as u32,
            mpq_version: 1 + (case.seed % 2) as u32,
            user_data: std::ptr::null_mut(),
            cb_user_data: 0,
            stream_flags: 0,
            file_flags_1: 0xFFFF_FFFF,
            file_flags_2: 0,
            file_flags_3: 0,
            attr_flags: 0,
            sector_size: 3,
            raw_chunk_size: 0,
            max_file_count: 16,
        };
        let c = cstr(&sh.wpath);
        let mut out: Handle = std::ptr::null_mut();
        eprintln!("OP setup SFileCreateArchive2 - mt");
        if unsafe { (ext.create2)(c.as_ptr(), &info, &mut out) } {
            sh.push(Entry { kind: Kind::Arch, raw: out as usize, disk: W, name: None });
        }
    }

    std::thread::scope(|sc| {
        for tid in 0..case.threads.max(1) {
            let sh = &sh;
            sc.spawn(move || thread_main(sh, case, tid));
        }
    });

    // cleanup: close everything (stale closes just fail)
    let all: Vec<Entry> = sh.pool.lock().unwrap().0.clone();
    for k in [Kind::Find, Kind::File, Kind::Arch] {
        for e in all.iter().filter(|e| e.kind == k) {
            unsafe {
                match k {
                    Kind::Find => (storm.SFileFindClose)(e.raw as Handle),
                    Kind::File => (storm.SFileCloseFile)(e.raw as Handle),
                    Kind::Arch => (storm.SFileCloseArchive)(e.raw as Handle),
                };
            }
        }
    }
    // sweep: nothing allocated during this run may stay alive for the next case of this worker
    let top = sh.max_raw().max(*max_handle);
    for v in *max_handle + 1..=top + 64 {
        unsafe {
            (storm.SFileFindClose)(v as Handle);
            (storm.SFileCloseFile)(v as Handle);
            (storm.SFileCloseArchive)(v as Handle);
        }
    }
    *max_handle = top;
    let stats = json!({
        "calls": sh.calls.load(Ordering::SeqCst),
        "ok_calls": sh.ok_calls.load(Ordering::SeqCst),
        "reads_checked": sh.reads_checked.load(Ordering::SeqCst),
        "handles": all.len(),
    });
    match sh.fail.lock().unwrap().take() {
        None => json!({"ok": true, "stats": stats}),
        Some((sig, msg)) => json!({"ok": false, "sig": sig, "msg": msg, "stats": stats}),
    }
}

fn thread_main(sh: &Shared, case: &MtCase, tid: u8) {
    let storm = sh.storm;
    let mut rng = rand_chacha::ChaCha8Rng::seed_from_u64(case.seed ^ ((tid as u64 + 1) << 40));
    for i in 0..case.ops {
        if sh.stop.load(Ordering::Relaxed) {
            return;
        }
        // a handle argument: mostly from the pool, sometimes forged (small integers may hit any live handle)
        let handle = |rng: &mut rand_chacha::ChaCha8Rng, kind: Kind| -> Option<Entry> {
            let r = rng.random_range(0..100);
            if r < 4 {
                let raw = rng.random_range(0..sh.max_raw() + 4);
                return Some(sh.by_raw(raw).unwrap_or(Entry { kind, raw, disk: W - 1, name: None }));
            }
            if r < 8 {
                let other = [Kind::Arch, Kind::File, Kind::Find][rng.random_range(0..3)];
                return sh.pick(rng, other);
            }
            sh.pick(rng, kind)
        };
        let name = |rng: &mut rand_chacha::ChaCha8Rng, e: &Entry| -> String {
            if e.disk == W { sh.wnames[rng.random_range(0..sh.wnames.len())].clone() } else { sh.names[rng.random_range(0..sh.names.len())].clone() }
        };
        // judged only for handles known (by value) to be of the right kind on a read-only disk
        let ro = |e: &Entry, k: Kind| -> Option<&DiskInfo> { if e.kind == k && e.disk < sh.disks.len() { Some(&sh.disks[e.disk]) } else { None } };
        let op = rng.random_range(0..100);
        let mut ok_call = false;
        macro_rules! say {
            ($api:expr) => {
                eprintln!("OP t{}.{} {} - mt", tid, i, $api)
            };
        }
        match op {
            0..6 => {
                let d = rng.random_range(0..sh.disks.len());
                say!("SFileOpenArchive");
                if let Some(h) = storm.open(&sh.disks[d].path) {
                    ok_call = true;
                    sh.push(Entry { kind: Kind::Arch, raw: h as usize, disk: d, name: None });
                }
            }
            6..9 => {
                if let Some(e) = handle(&mut rng, Kind::Arch) {
                    if e.disk == W && rng.random_range(0..4) != 0 {
                        continue;
                    }
                    say!("SFileCloseArchive");
                    ok_call = storm.close(e.raw as Handle);
                }
            }
            9..24 => {
                if let Some(e) = handle(&mut rng, Kind::Arch) {
                    let n = name(&mut rng, &e);
                    let cn = cstr(&n);
                    let mut fh: Handle = std::ptr::null_mut();
                    say!("SFileOpenFileEx");
                    if unsafe { (storm.SFileOpenFileEx)(e.raw as Handle, cn.as_ptr(), 0, &mut fh) } {
                        ok_call = true;
                        if e.kind != Kind::Arch {
                            sh.fail("mt:invalid-handle-accepted:SFileOpenFileEx", format!("SFileOpenFileEx succeeded on handle {:#x}, which is a {:?} handle", e.raw, e.kind));
                        }
                        if let Some(d) = ro(&e, Kind::Arch) {
                            if !d.content.contains_key(&n) {
                                sh.fail("mt:openfile-succeeds-where-rust-fails", format!("SFileOpenFileEx({n:?}) succeeded, the Rust API cannot read that name from this archive"));
                            }
                        }
                        sh.push(Entry { kind: Kind::File, raw: fh as usize, disk: e.disk, name: Some(n) });
                    }
                }
            }
            24..44 => {
                if let Some(e) = handle(&mut rng, Kind::File) {
                    let flen = ro(&e, Kind::File).and_then(|d| d.content.get(e.name.as_ref()?)).map(|c| c.len()).unwrap_or(64);
                    let to_read = match rng.random_range(0..7) {
                        0 => 0,
                        1 => 1,
                        2 => flen.saturating_sub(1),
                        3 => flen,
                        4 => flen + 1,
                        5 => 1 << 16,
                        _ => rng.random_range(0..=flen.max(1)),
                    };
                    let buf = GuardBuf::new(to_read, 1);
                    let mut rd: u32 = 0;
                    say!("SFileReadFile");
                    let ok = unsafe { (storm.SFileReadFile)(e.raw as Handle, buf.ptr() as *mut _, to_read as u32, &mut rd, std::ptr::null_mut()) };
                    ok_call = ok;
                    if let Err(m) = buf.check() {
                        sh.fail("mt:write-outside-buffer:SFileReadFile", m);
                    }
                    if ok {
                        if rd as usize > to_read {
                            sh.fail("mt:read-count-exceeds-request", format!("SFileReadFile(to_read={to_read}) reports {rd} bytes"));
                        } else if e.kind != Kind::File {
                            sh.fail("mt:invalid-handle-accepted:SFileReadFile", format!("SFileReadFile succeeded on handle {:#x}, which is a {:?} handle", e.raw, e.kind));
                        } else if let (Some(d), Some(n)) = (ro(&e, Kind::File), e.name.as_ref()) {
                            if let Some(c) = d.content.get(n) {
                                sh.reads_checked.fetch_add(1, Ordering::Relaxed);
                                if !contains(c, buf.bytes(rd as usize)) {
                                    sh.fail("mt:read-is-not-a-slice-of-the-file", format!("SFileReadFile returned {rd} bytes that are not a contiguous slice of {n:?} ({} bytes)", c.len()));
                                }
                                if let Err(m) = buf.untouched_from(rd as usize) {
                                    sh.fail("mt:read-writes-more-than-reported", m);
                                }
                            }
                        }
                    }
                }
            }
            44..54 => {
                if let Some(e) = handle(&mut rng, Kind::File) {
                    let flen = ro(&e, Kind::File).and_then(|d| d.content.get(e.name.as_ref()?)).map(|c| c.len() as i64);
                    let l = flen.unwrap_or(100);
                    let off = [0, 1, -1, l, l + 1, -l, -l - 1, l / 2, i32::MAX as i64, i32::MIN as i64][rng.random_range(0..10)] as i32;
                    let method = rng.random_range(0..4);
                    let mut hi: i32 = if off < 0 { -1 } else { 0 };
                    let use_hi = rng.random_range(0..3) == 0;
                    say!("SFileSetFilePointer");
                    let r = unsafe { (storm.SFileSetFilePointer)(e.raw as Handle, off, if use_hi { &mut hi } else { std::ptr::null_mut() }, method) };
                    ok_call = r != 0xFFFF_FFFF;
                    if let (true, Some(l)) = (ok_call, flen) {
                        if r as i64 > l {
                            sh.fail("mt:seek-returns-cursor-beyond-length", format!("SFileSetFilePointer returned {r}, file length {l}"));
                        }
                    }
                }
            }
            54..58 => {
                if let Some(e) = handle(&mut rng, Kind::File) {
                    let mut hi = 0u32;
                    say!("SFileGetFileSize");
                    let r = unsafe { (storm.SFileGetFileSize)(e.raw as Handle, &mut hi) };
                    ok_call = r != 0xFFFF_FFFF;
                    if ok_call {
                        if let Some(c) = ro(&e, Kind::File).and_then(|d| d.content.get(e.name.as_ref()?)) {
                            if r as usize != c.len() {
                                sh.fail("mt:file-size-differs", format!("SFileGetFileSize = {r} for {:?} ({} bytes)", e.name, c.len()));
                            }
                        }
                    }
                }
            }
            58..66 => {
                if let Some(e) = handle(&mut rng, Kind::Arch) {
                    let n = name(&mut rng, &e);
                    let cn = cstr(&n);
                    say!("SFileHasFile");
                    ok_call = unsafe { (storm.SFileHasFile)(e.raw as Handle, cn.as_ptr()) };
                    if ok_call {
                        if e.kind != Kind::Arch {
                            sh.fail("mt:invalid-handle-accepted:SFileHasFile", format!("SFileHasFile = true on handle {:#x}, which is a {:?} handle", e.raw, e.kind));
                        } else if let Some(d) = ro(&e, Kind::Arch) {
                            if !d.exists.contains(&n) {
                                sh.fail("mt:existence-differs", format!("SFileHasFile({n:?}) = true, the Rust API does not find it in {}", d.path));
                            }
                        }
                    }
                }
            }
            66..70 => {
                if let Some(e) = handle(&mut rng, Kind::Arch) {
                    let mut st = EnumState::passive(rng.random_range(0..4));
                    say!("SFileEnumFiles");
                    ok_call = unsafe { (storm.SFileEnumFiles)(e.raw as Handle, std::ptr::null(), std::ptr::null(), Some(enum_cb), &mut st as *mut _ as *mut _) };
                    if let Some(d) = ro(&e, Kind::Arch) {
                        if let Some(x) = st.names.iter().find(|n| !d.listed.contains(*n)) {
                            sh.fail("mt:enum-delivers-unknown-name", format!("SFileEnumFiles delivered {x:?}, not listed by the Rust API for {}", d.path));
                        }
                    }
                }
            }
            70..80 => {
                let first = op < 74;
                let e = if first { handle(&mut rng, Kind::Arch) } else { handle(&mut rng, Kind::Find) };
                if let Some(e) = e {
                    let buf = GuardBuf::new(std::mem::size_of::<FindData>(), 8);
                    let found;
                    if first {
                        say!("SFileFindFirstFile");
                        let fh = unsafe { (storm.SFileFindFirstFile)(e.raw as Handle, std::ptr::null(), buf.ptr() as *mut FindData, std::ptr::null()) };
                        found = !fh.is_null();
                        if found {
                            sh.push(Entry { kind: Kind::Find, raw: fh as usize, disk: e.disk, name: None });
                        }
                    } else {
                        say!("SFileFindNextFile");
                        found = unsafe { (storm.SFileFindNextFile)(e.raw as Handle, buf.ptr() as *mut FindData) };
                    }
                    ok_call = found;
                    if let Err(m) = buf.check() {
                        sh.fail("mt:write-outside-buffer:SFileFind", m);
                    }
                    let want_kind = if first { Kind::Arch } else { Kind::Find };
                    if found {
                        if let Some(d) = ro(&e, want_kind) {
                            let fd = unsafe { &*(buf.ptr() as *const FindData) };
                            let raw: Vec<u8> = fd.c_file_name.iter().map(|c| *c as u8).take_while(|b| *b != 0).collect();
                            let n = String::from_utf8_lossy(&raw).to_string();
                            if raw.len() < MAX_PATH - 1 && !d.listed.contains(&n) && !n.starts_with("file_") {
                                sh.fail("mt:find-delivers-unknown-name", format!("search delivered {n:?}, not listed by the Rust API for {}", d.path));
                            }
                        }
                    }
                }
            }
            80..82 => {
                if let Some(e) = handle(&mut rng, Kind::Find) {
                    say!("SFileFindClose");
                    ok_call = unsafe { (storm.SFileFindClose)(e.raw as Handle) };
                }
            }
            82..85 => {
                if let Some(e) = handle(&mut rng, Kind::File) {
                    say!("SFileCloseFile");
                    ok_call = unsafe { (storm.SFileCloseFile)(e.raw as Handle) };
                }
            }
            85..89 => {
                let k = if rng.random_range(0..2) == 0 { Kind::File } else { Kind::Arch };
                if let Some(e) = handle(&mut rng, k) {
                    let class = [1u32, 2, 3, 4, 7, 10, 5, 99][rng.random_range(0..8)];
                    let size = [0usize, 1, 3, 4, 7, 8, 9, 16][rng.random_range(0..8)];
                    let buf = GuardBuf::new(size, 8);
                    let mut need = 0u32;
                    say!("SFileGetFileInfo");
                    ok_call = unsafe { (storm.SFileGetFileInfo)(e.raw as Handle, class, buf.ptr() as *mut _, size as u32, &mut need) };
                    if let Err(m) = buf.check() {
                        sh.fail("mt:write-outside-buffer:SFileGetFileInfo", m);
                    }
                }
            }
            89..91 => {
                if let Some(e) = handle(&mut rng, Kind::File) {
                    let buf = GuardBuf::new(MAX_PATH, 1);
                    say!("SFileGetFileName");
                    ok_call = unsafe { (storm.SFileGetFileName)(e.raw as Handle, buf.ptr() as *mut _) };
                    if let Err(m) = buf.check() {
                        sh.fail("mt:write-outside-buffer:SFileGetFileName", m);
                    }
                    if let (true, Kind::File, Some(n)) = (ok_call, e.kind, e.name.as_ref()) {
                        let b = buf.bytes(MAX_PATH);
                        if b.iter().position(|x| *x == 0).map(|p| &b[..p]) != Some(n.as_bytes()) {
                            sh.fail("mt:file-name-differs", format!("SFileGetFileName differs from the name the file was opened with ({n:?})"));
                        }
                    }
                }
            }
            91..93 => {
                if let Some(e) = handle(&mut rng, Kind::Arch) {
                    let size = [0usize, 1, 10, 260, 1024][rng.random_range(0..5)];
                    let buf = GuardBuf::new(size, 1);
                    say!("SFileGetArchiveName");
                    ok_call = unsafe { (storm.SFileGetArchiveName)(e.raw as Handle, buf.ptr() as *mut _, size as u32) };
                    if let Err(m) = buf.check() {
                        sh.fail("mt:write-outside-buffer:SFileGetArchiveName", m);
                    }
                    if let (true, Some(d)) = (ok_call, ro(&e, Kind::Arch)) {
                        let b = buf.bytes(size);
                        if b.iter().position(|x| *x == 0).map(|p| &b[..p]) != Some(d.path.as_bytes()) {
                            sh.fail("mt:archive-name-differs", format!("SFileGetArchiveName differs from {:?}", d.path));
                        }
                    }
                }
            }
            93..95 => {
                if let Some(e) = handle(&mut rng, Kind::Arch) {
                    let n = name(&mut rng, &e);
                    let cn = cstr(&n);
                    let flags = [0u32, 1, 2, 4, 7, 0xFF][rng.random_range(0..6)];
                    say!("SFileVerifyFile");
                    ok_call = unsafe { (storm.SFileVerifyFile)(e.raw as Handle, cn.as_ptr(), flags) };
                }
            }
            95..96 => {
                if let Some(e) = handle(&mut rng, Kind::Arch) {
                    // exclusion: never SFILE_VERIFY_ALL_FILES (0x20)
                    let flags = [0u32, 0x10, 0x01, 0x1F][rng.random_range(0..4)];
                    say!("SFileVerifyArchive");
                    ok_call = unsafe { (storm.SFileVerifyArchive)(e.raw as Handle, flags) };
                }
            }
            _ => {
                let w = sh.pool.lock().unwrap().0.iter().find(|e| e.disk == W && e.kind == Kind::Arch).cloned();
                if let Some(e) = w {
                    let k = rng.random_range(0..sh.wnames.len());
                    let cn = cstr(&sh.wnames[k]);
                    match rng.random_range(0..8) {
                        0..4 => {
                            let cs = cstr(&sh.wsrc[k]);
                            say!("SFileAddFileEx");
                            ok_call = unsafe { (storm.SFileAddFileEx)(e.raw as Handle, cs.as_ptr(), cn.as_ptr(), 0x8000_0000 | 0x200, [0u32, 2, 0x10][rng.random_range(0..3)], 0) };
                        }
                        4..6 => {
                            say!("SFileRemoveFile");
                            ok_call = unsafe { (storm.SFileRemoveFile)(e.raw as Handle, cn.as_ptr(), 0) };
                        }
                        6 => {
                            say!("SFileFlushArchive");
                            ok_call = unsafe { (storm.SFileFlushArchive)(e.raw as Handle) };
                        }
                        _ => {
                            say!("SFileCompactArchive");
                            ok_call = unsafe { (storm.SFileCompactArchive)(e.raw as Handle, std::ptr::null(), false) };
                        }
                    }
                }
            }
        }
        sh.calls.fetch_add(1, Ordering::Relaxed);
        if ok_call {
            sh.ok_calls.fetch_add(1, Ordering::Relaxed);
        }
    }
}

/// Several threads drain ONE shared file handle in fixed-size chunks. Whatever the schedule, the
/// cursor of a handle advances atomically with the copy: every byte of the file is handed out
/// exactly once (the content encodes its own offset, so each chunk tells where it came from).
#[derive(Clone, Debug, Serialize, Deserialize, PartialEq)]
pub struct PartCase {
    pub threads: u8,
    pub chunk: u32,
    pub size: u32,
    pub rounds: u8,
    pub method: u8,
}

pub fn run_partition(storm: &Storm, case: &PartCase, dir: &Path, max_handle: &mut usize) -> Value {
    use wow_mpq::{ArchiveBuilder, ListfileOption};
    let size = (case.size as usize).max(64) & !7;
    let mut data = Vec::with_capacity(size);
    for i in 0..size / 8 {
        data.extend_from_slice(&((i as u64 * 8) ^ 0x5A5A_0000_0000_0000).to_le_bytes());
    }
    let path = dir.join("part.mpq");
    let method = match case.method % 3 {
        0 => wow_mpq::compression::flags::ZLIB,
        1 => 0,
        _ => wow_mpq::compression::flags::BZIP2,
    };
    let b = ArchiveBuilder::new().listfile_option(ListfileOption::Generate).default_compression(method).add_file_data(data.clone(), "big\\shared.bin");
    if !matches!(engine::guard("builder", || b.build(&path)), Ok(Ok(_))) {
        return json!({"ok": true, "discard": "start build failed"});
    }
    let cp = cstr(&path.to_string_lossy());
    let mut ah: Handle = std::ptr::null_mut();
    if !unsafe { (storm.SFileOpenArchive)(cp.as_ptr(), 0, 0, &mut ah) } {
        return json!({"ok": false, "sig": "mt:partition:open-archive-fails", "msg": "SFileOpenArchive on a builder-made archive failed"});
    }
    let mut fail: Option<(String, String)> = None;
    let mut chunks_total = 0u64;
    for round in 0..case.rounds.max(1) {
        let name = cstr("big\\shared.bin");
        let mut fh: Handle = std::ptr::null_mut();
        if !unsafe { (storm.SFileOpenFileEx)(ah, name.as_ptr(), 0, &mut fh) } {
            fail = Some(("mt:partition:open-file-fails".into(), "SFileOpenFileEx failed".into()));
            break;
        }
        *max_handle = (*max_handle).max(fh as usize);
        let fhv = fh as usize;
        let chunk = (case.chunk as usize).max(8) & !7;
        let got: Mutex<Vec<(u64, usize)>> = Mutex::new(vec![]);
        let bad: Mutex<Option<String>> = Mutex::new(None);
        std::thread::scope(|sc| {
            for _ in 0..case.threads.max(2) {
                sc.spawn(|| {
                    let buf = GuardBuf::new(chunk, 8);
                    loop {
                        let mut rd: u32 = 0;
                        let ok = unsafe { (storm.SFileReadFile)(fhv as Handle, buf.ptr() as *mut _, chunk as u32, &mut rd, std::ptr::null_mut()) };
                        let n = rd as usize;
                        if n == 0 {
                            break;
                        }
                        if n % 8 != 0 || n > chunk {
                            *bad.lock().unwrap() = Some(format!("a read of {chunk} bytes reported {n} bytes"));
                            break;
                        }
                        let bytes = buf.bytes(n);
                        let off = u64::from_le_bytes(bytes[..8].try_into().unwrap()) ^ 0x5A5A_0000_0000_0000;
                        // the chunk must be the contiguous slice starting at the offset it names
                        let consistent = (off as usize) + n <= size && bytes == &data[off as usize..off as usize + n];
                        if !consistent {
                            *bad.lock().unwrap() = Some(format!("a chunk of {n} bytes is not a contiguous slice of the file (first word says offset {off})"));
                            break;
                        }
                        got.lock().unwrap().push((off, n));
                        if !ok && n < chunk {
                            break;
                        }
                    }
                });
            }
        });
        unsafe { (storm.SFileCloseFile)(fhv as Handle) };
        if let Some(m) = bad.lock().unwrap().take() {
            fail = Some(("mt:shared-handle-read-returns-wrong-bytes".into(), format!("round {round}: {m}")));
            break;
        }
        let mut g = got.into_inner().unwrap();
        chunks_total += g.len() as u64;
        g.sort();
        let mut pos = 0u64;
        let mut problem = None;
        for (off, n) in &g {
            if *off != pos {
                problem = Some(if *off < pos { format!("bytes at offset {off} were handed out twice") } else { format!("bytes {pos}..{off} were never handed out") });
                break;
            }
            pos += *n as u64;
        }
        if problem.is_none() && pos != size as u64 {
            problem = Some(format!("{pos} bytes handed out for a file of {size}"));
        }
        if let Some(m) = problem {
            fail = Some((
                "mt:shared-handle-reads-do-not-partition-the-file".into(),
                format!("round {round}: {} threads reading {chunk}-byte chunks from one file handle: {m}", case.threads.max(2)),
            ));
            break;
        }
    }
    unsafe { (storm.SFileCloseArchive)(ah) };
    let stats = json!({"calls": chunks_total, "ok_calls": chunks_total, "reads_checked": chunks_total, "handles": 2});
    match fail {
        None => json!({"ok": true, "stats": stats}),
        Some((sig, msg)) => json!({"ok": false, "sig": sig, "msg": msg, "stats": stats}),
    }
}
