//! History representation for the single-threaded model-based runs. A history is fully
//! serialisable (replay files hold it verbatim). Handle arguments are *references* that the
//! interpreter resolves at run time (i-th live / i-th closed handle of a kind, modulo the number
//! available), so every subsequence of a history is again a valid history (shrinking by
//! deletion) and the same history means the same thing whatever the absolute handle numbers are.
use serde::{Deserialize, Serialize};
use vcheck::gens::mpq::ArchiveSpec;

#[derive(Clone, Debug, Serialize, Deserialize, PartialEq)]
pub enum Disk {
    /// archive built with wow_mpq::ArchiveBuilder before the history starts
    Built { spec: ArchiveSpec, long_path: bool },
    Missing,
    Empty,
    Text,
}

#[derive(Clone, Copy, Debug, Serialize, Deserialize, PartialEq)]
pub enum PathRef {
    Disk(u8),
    Created(u8),
}

#[derive(Clone, Copy, Debug, Serialize, Deserialize, PartialEq, Eq, PartialOrd, Ord)]
pub enum Kind {
    Arch,
    File,
    Find,
}

#[derive(Clone, Copy, Debug, Serialize, Deserialize, PartialEq)]
pub enum HRef {
    Live(Kind, u8),
    Closed(Kind, u8),
    Null,
    /// highest handle value the process has seen so far + k (k ≥ 1): not allocated yet
    ForgedNext(u16),
    ForgedAbs(u64),
}

#[derive(Clone, Copy, Debug, Serialize, Deserialize, PartialEq)]
pub enum NameRef {
    Pool(u16),
    Null,
    BadUtf8,
}

/// size relative to the natural size N of the call (bytes remaining / bytes needed / name length + 1)
#[derive(Clone, Copy, Debug, Serialize, Deserialize, PartialEq)]
pub enum Sz {
    Zero,
    One,
    NMinus1,
    N,
    NPlus1,
    /// 2^31
    Big,
    Rand(u16),
    /// MAX_PATH = 260
    MaxPath,
}

impl Sz {
    pub fn label(&self) -> &'static str {
        match self {
            Sz::Zero => "0",
            Sz::One => "1",
            Sz::NMinus1 => "n-1",
            Sz::N => "n",
            Sz::NPlus1 => "n+1",
            Sz::Big => "2^31",
            Sz::Rand(_) => "rand",
            Sz::MaxPath => "260",
        }
    }
    pub fn resolve(&self, n: usize) -> usize {
        match self {
            Sz::Zero => 0,
            Sz::One => 1,
            Sz::NMinus1 => n.saturating_sub(1),
            Sz::N => n,
            Sz::NPlus1 => n + 1,
            Sz::Big => 1usize << 31,
            Sz::Rand(r) => *r as usize,
            Sz::MaxPath => 260,
        }
    }
}

#[derive(Clone, Copy, Debug, Serialize, Deserialize, PartialEq)]
pub enum Cb {
    /// record the name; return false (stop) once `stop_at` names were seen (0 = never stop)
    Passive { stop_at: u16 },
    /// record the name and call SFileHasFile on the archive being enumerated
    Reentrant,
    NullFn,
}

#[derive(Clone, Copy, Debug, Serialize, Deserialize, PartialEq)]
pub enum Mask {
    Null,
    Star,
    /// "*<extension of pool name>"
    Ext(u16),
    /// "<first 3 chars of pool name>*"
    Prefix(u16),
    Exact(u16),
    QStar,
    NoMatch,
    StarDotStar,
}

/// seek distance relative to run-time quantities (len = file length, cur = cursor)
#[derive(Clone, Copy, Debug, Serialize, Deserialize, PartialEq)]
pub enum Off {
    Abs(i32),
    LenPlus(i32),
    MinusLenPlus(i32),
    MinusCurPlus(i32),
}

#[derive(Clone, Copy, Debug, Serialize, Deserialize, PartialEq)]
pub enum High {
    Null,
    Zero,
    /// -1 when the low part is negative, else 0 (64-bit sign extension)
    SignExt,
    One,
    Max,
    Min,
}

#[derive(Clone, Debug, Serialize, Deserialize, PartialEq)]
pub enum Op {
    OpenArchive { path: PathRef },
    CreateArchive { target: u8, disposition: u32, hash_size: u32 },
    CreateArchive2 { target: u8, version: u32, listfile: bool, attr_flags: u32, sector_size: u32, max_files: u32, bad_cb: bool },
    CloseArchive { h: HRef },
    OpenFile { h: HRef, name: NameRef },
    CloseFile { h: HRef },
    Read { h: HRef, sz: Sz, null_read: bool, null_buf: bool },
    Seek { h: HRef, off: Off, method: u32, high: High },
    Size { h: HRef, high: bool },
    HasFile { h: HRef, name: NameRef },
    Enum { h: HRef, mask: Mask, cb: Cb },
    FindFirst { h: HRef, mask: Mask, null_data: bool },
    FindNext { h: HRef },
    FindClose { h: HRef },
    Add { h: HRef, name: NameRef, len: u16, seed: u32, flags: u32, compression: u32, ex: bool, src_missing: bool },
    Remove { h: HRef, name: NameRef },
    Rename { h: HRef, from: NameRef, to: NameRef },
    Flush { h: HRef },
    Compact { h: HRef },
    VerifyFile { h: HRef, name: NameRef, flags: u32 },
    VerifyArchive { h: HRef, flags: u32 },
    GetInfo { h: HRef, class: u32, sz: Sz, misalign: bool, null_needed: bool },
    GetFileName { h: HRef },
    GetArchiveName { h: HRef, sz: Sz },
}

impl Op {
    pub fn api(&self) -> &'static str {
        match self {
            Op::OpenArchive { .. } => "SFileOpenArchive",
            Op::CreateArchive { .. } => "SFileCreateArchive",
            Op::CreateArchive2 { .. } => "SFileCreateArchive2",
            Op::CloseArchive { .. } => "SFileCloseArchive",
            Op::OpenFile { .. } => "SFileOpenFileEx",
            Op::CloseFile { .. } => "SFileCloseFile",
            Op::Read { .. } => "SFileReadFile",
            Op::Seek { .. } => "SFileSetFilePointer",
            Op::Size { .. } => "SFileGetFileSize",
            Op::HasFile { .. } => "SFileHasFile",
            Op::Enum { .. } => "SFileEnumFiles",
            Op::FindFirst { .. } => "SFileFindFirstFile",
            Op::FindNext { .. } => "SFileFindNextFile",
            Op::FindClose { .. } => "SFileFindClose",
            Op::Add { ex: true, .. } => "SFileAddFileEx",
            Op::Add { ex: false, .. } => "SFileAddFile",
            Op::Remove { .. } => "SFileRemoveFile",
            Op::Rename { .. } => "SFileRenameFile",
            Op::Flush { .. } => "SFileFlushArchive",
            Op::Compact { .. } => "SFileCompactArchive",
            Op::VerifyFile { .. } => "SFileVerifyFile",
            Op::VerifyArchive { .. } => "SFileVerifyArchive",
            Op::GetInfo { .. } => "SFileGetFileInfo",
            Op::GetFileName { .. } => "SFileGetFileName",
            Op::GetArchiveName { .. } => "SFileGetArchiveName",
        }
    }
    /// the handle argument and the kind of handle the call expects
    pub fn handle(&self) -> Option<(HRef, Kind)> {
        Some(match self {
            Op::OpenArchive { .. } | Op::CreateArchive { .. } | Op::CreateArchive2 { .. } => return None,
            Op::CloseArchive { h }
            | Op::OpenFile { h, .. }
            | Op::HasFile { h, .. }
            | Op::Enum { h, .. }
            | Op::FindFirst { h, .. }
            | Op::Add { h, .. }
            | Op::Remove { h, .. }
            | Op::Rename { h, .. }
            | Op::Flush { h }
            | Op::Compact { h }
            | Op::VerifyFile { h, .. }
            | Op::VerifyArchive { h, .. }
            | Op::GetArchiveName { h, .. } => (*h, Kind::Arch),
            Op::CloseFile { h } | Op::Read { h, .. } | Op::Seek { h, .. } | Op::Size { h, .. } | Op::GetFileName { h } => (*h, Kind::File),
            Op::FindNext { h } | Op::FindClose { h } => (*h, Kind::Find),
            // accepts file and archive handles; the nominal kind is File
            Op::GetInfo { h, .. } => (*h, Kind::File),
        })
    }
}

/// Exclusion switches (true = the region of an open finding is steered around: the
/// interpreter skips the call and counts the skip). Canary histories switch one of them off.
#[derive(Clone, Debug, Serialize, Deserialize, PartialEq)]
pub struct Excl {
    /// SFileVerifyArchive with SFILE_VERIFY_ALL_FILES
    pub verify_all_files: bool,
    /// SFileEnumFiles with a callback that calls back into the library
    pub reentrant_cb: bool,
    /// SFileGetFileName on a file whose name does not fit MAX_PATH
    pub long_file_name: bool,
    /// search handle used after its archive was closed
    pub orphan_find: bool,
    /// SFileGetFileInfo with a buffer that is not 8-byte aligned
    pub misaligned_info: bool,
    /// SFileHasFile / SFileVerifyFile existence answers on a writable archive with pending changes
    pub hasfile_pending: bool,
    /// find data for a name whose last path separator lies beyond MAX_PATH
    pub long_plain_offset: bool,
}

impl Excl {
    /// Switches used by generated histories. All seven findings these switches steered around
    /// have been fixed in /repo (see known_findings.json), so nothing is excluded any more;
    /// `VERIF_C19_EXCLUDE=all` restores the old steering.
    pub fn current() -> Excl {
        if std::env::var("VERIF_C19_EXCLUDE").ok().as_deref() == Some("all") {
            return Excl::all();
        }
        Excl {
            verify_all_files: false,
            reentrant_cb: false,
            long_file_name: false,
            orphan_find: false,
            misaligned_info: false,
            hasfile_pending: false,
            long_plain_offset: false,
        }
    }
    pub fn all() -> Excl {
        Excl {
            verify_all_files: true,
            reentrant_cb: true,
            long_file_name: true,
            orphan_find: true,
            misaligned_info: true,
            hasfile_pending: true,
            long_plain_offset: true,
        }
    }
}

#[derive(Clone, Debug, Serialize, Deserialize, PartialEq)]
pub struct History {
    pub disks: Vec<Disk>,
    pub names: Vec<String>,
    pub excl: Excl,
    pub ops: Vec<Op>,
}

pub const MAX_PATH: usize = 260;
