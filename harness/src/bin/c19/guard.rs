//! Output buffers for C-API calls: the buffer ends directly before a PROT_NONE guard page (or,
//! when an alignment is requested that the size does not allow, as close to it as the alignment
//! permits with canary bytes in the gap) and has a canary region before it. A write past the end
//! faults (SIGSEGV, reported as GUARD-PAGE-HIT by the handler below); a write before the start
//! or into the gap is detected by `check`.
use std::sync::atomic::{AtomicUsize, Ordering};

pub const PAGE: usize = 4096;
const CANARY: u8 = 0xA5;
pub const FILL: u8 = 0xCD;
/// buffers above this size are not pre-filled (2 GiB class): zero pages, MAP_NORESERVE
const LAZY_ABOVE: usize = 4 << 20;

static GUARDS: [AtomicUsize; 128] = [const { AtomicUsize::new(0) }; 128];

pub struct GuardBuf {
    map: *mut u8,
    map_len: usize,
    buf: *mut u8,
    size: usize,
    guard: *mut u8,
    lazy: bool,
    slot: usize,
}

unsafe impl Send for GuardBuf {}

impl GuardBuf {
    /// `align` must be a power of two (1 = flush against the guard page)
    pub fn new(size: usize, align: usize) -> GuardBuf {
        let align = align.max(1);
        let data_len = (size + align + PAGE - 1) / PAGE * PAGE;
        let map_len = PAGE + data_len + PAGE;
        unsafe {
            let map = libc::mmap(
                std::ptr::null_mut(),
                map_len,
                libc::PROT_READ | libc::PROT_WRITE,
                libc::MAP_PRIVATE | libc::MAP_ANONYMOUS | libc::MAP_NORESERVE,
                -1,
                0,
            );
            assert!(map != libc::MAP_FAILED, "mmap of {map_len} bytes failed");
            let map = map as *mut u8;
            let guard = map.add(PAGE + data_len);
            assert_eq!(libc::mprotect(guard as *mut _, PAGE, libc::PROT_NONE), 0);
            let buf = ((guard as usize - size) & !(align - 1)) as *mut u8;
            let lazy = size > LAZY_ABOVE;
            if lazy {
                // canary page directly before the buffer, canary gap after it
                std::ptr::write_bytes(buf.sub(PAGE.min(buf as usize - map as usize)), CANARY, PAGE.min(buf as usize - map as usize));
            } else {
                std::ptr::write_bytes(map, CANARY, buf as usize - map as usize);
                std::ptr::write_bytes(buf, FILL, size);
            }
            let gap = guard as usize - (buf as usize + size);
            std::ptr::write_bytes(buf.add(size), CANARY, gap);
            let mut slot = usize::MAX;
            for (i, g) in GUARDS.iter().enumerate() {
                if g.compare_exchange(0, guard as usize, Ordering::SeqCst, Ordering::SeqCst).is_ok() {
                    slot = i;
                    break;
                }
            }
            GuardBuf { map, map_len, buf, size, guard, lazy, slot }
        }
    }

    /// a deliberately misaligned buffer: start address ≡ 1 (mod 8); ends `gap` canary bytes before the guard
    pub fn misaligned(size: usize) -> GuardBuf {
        let mut g = GuardBuf::new(size + 8, 8);
        // shift the start by one byte: [buf+1, buf+1+size) leaves 7 canary-less bytes; re-canary them
        unsafe {
            std::ptr::write_bytes(g.buf, CANARY, 1);
            g.buf = g.buf.add(1);
            g.size = size;
            let gap = g.guard as usize - (g.buf as usize + size);
            std::ptr::write_bytes(g.buf.add(size), CANARY, gap);
        }
        g
    }

    pub fn ptr(&self) -> *mut u8 {
        self.buf
    }
    pub fn len(&self) -> usize {
        self.size
    }
    pub fn bytes(&self, n: usize) -> &[u8] {
        unsafe { std::slice::from_raw_parts(self.buf, n.min(self.size)) }
    }

    /// canaries before the buffer and between its end and the guard page are intact
    pub fn check(&self) -> Result<(), String> {
        unsafe {
            let pre_len = if self.lazy { PAGE.min(self.buf as usize - self.map as usize) } else { self.buf as usize - self.map as usize };
            let pre = std::slice::from_raw_parts(self.buf.sub(pre_len), pre_len);
            if let Some(i) = pre.iter().rposition(|&b| b != CANARY) {
                return Err(format!("byte {} before the start of the buffer was overwritten", pre_len - i));
            }
            let gap = self.guard as usize - (self.buf as usize + self.size);
            let post = std::slice::from_raw_parts(self.buf.add(self.size), gap);
            if let Some(i) = post.iter().position(|&b| b != CANARY) {
                return Err(format!("byte {i} past the end of the buffer was overwritten"));
            }
        }
        Ok(())
    }

    /// bytes [n, size) still hold the fill pattern (lazy buffers: first 64 KiB after n are zero)
    pub fn untouched_from(&self, n: usize) -> Result<(), String> {
        if n >= self.size {
            return Ok(());
        }
        unsafe {
            let (len, want) = if self.lazy { ((self.size - n).min(64 << 10), 0u8) } else { (self.size - n, FILL) };
            let s = std::slice::from_raw_parts(self.buf.add(n), len);
            if let Some(i) = s.iter().position(|&b| b != want) {
                return Err(format!("buffer byte {} was written although only {n} bytes were reported", n + i));
            }
        }
        Ok(())
    }
}

impl Drop for GuardBuf {
    fn drop(&mut self) {
        if self.slot != usize::MAX {
            GUARDS[self.slot].store(0, Ordering::SeqCst);
        }
        unsafe {
            libc::munmap(self.map as *mut _, self.map_len);
        }
    }
}

extern "C" fn on_segv(_sig: libc::c_int, info: *mut libc::siginfo_t, _ctx: *mut libc::c_void) {
    let addr = unsafe { (*info).si_addr() } as usize;
    let mut hit = false;
    for g in GUARDS.iter() {
        let a = g.load(Ordering::Relaxed);
        if a != 0 && addr >= a && addr < a + PAGE {
            hit = true;
        }
    }
    let msg: &[u8] = if hit { b"\nGUARD-PAGE-HIT\n" } else { b"\nSEGV-ELSEWHERE\n" };
    unsafe {
        libc::write(ORIG_ERR.load(Ordering::Relaxed), msg.as_ptr() as *const _, msg.len());
        libc::signal(libc::SIGSEGV, libc::SIG_DFL);
    }
    write_last_op();
    // returning re-executes the faulting instruction with the default disposition: the
    // process dies with SIGSEGV, which the supervisor classifies
}

pub fn install_segv_reporter() {
    unsafe {
        let mut sa: libc::sigaction = std::mem::zeroed();
        sa.sa_sigaction = on_segv as usize;
        sa.sa_flags = libc::SA_SIGINFO | libc::SA_ONSTACK;
        libc::sigemptyset(&mut sa.sa_mask);
        libc::sigaction(libc::SIGSEGV, &sa, std::ptr::null_mut());
    }
}

// ---------------------------------------------------------------------------------------
// death attribution: the library's non-unwinding panics print a full backtrace (dozens of lines)
// after the message, which pushes the announced call out of the supervisor's stderr tail. The
// worker therefore (a) filters backtrace frames out of its stderr and (b) repeats the last
// announced call from the SIGABRT / SIGSEGV handler.

static ORIG_ERR: std::sync::atomic::AtomicI32 = std::sync::atomic::AtomicI32::new(2);
static LAST_OP: [std::sync::atomic::AtomicU8; 160] = [const { std::sync::atomic::AtomicU8::new(0) }; 160];
static LAST_OP_LEN: AtomicUsize = AtomicUsize::new(0);

pub fn set_last_op(s: &str) {
    let b = s.as_bytes();
    let n = b.len().min(LAST_OP.len());
    for i in 0..n {
        LAST_OP[i].store(b[i], Ordering::Relaxed);
    }
    LAST_OP_LEN.store(n, Ordering::Release);
}

fn write_last_op() {
    let fd = ORIG_ERR.load(Ordering::Relaxed);
    let mut buf = [0u8; 180];
    let pre = b"\nLAST-OP ";
    buf[..pre.len()].copy_from_slice(pre);
    let n = LAST_OP_LEN.load(Ordering::Acquire);
    for i in 0..n {
        buf[pre.len() + i] = LAST_OP[i].load(Ordering::Relaxed);
    }
    buf[pre.len() + n] = b'\n';
    unsafe {
        libc::write(fd, buf.as_ptr() as *const _, pre.len() + n + 1);
    }
}

extern "C" fn on_abort(_sig: libc::c_int) {
    // let the filter thread forward what the panic hook has already written (message, location)
    let ts = libc::timespec { tv_sec: 0, tv_nsec: 150_000_000 };
    unsafe {
        libc::nanosleep(&ts, std::ptr::null_mut());
    }
    write_last_op();
    unsafe {
        libc::signal(libc::SIGABRT, libc::SIG_DFL);
    }
}

/// route fd 2 through a filter thread that drops backtrace frames; install the SIGABRT reporter
pub fn install_stderr_filter() {
    use std::io::{BufRead, Write};
    use std::os::fd::FromRawFd;
    unsafe {
        let mut fds = [0i32; 2];
        if libc::pipe(fds.as_mut_ptr()) != 0 {
            return;
        }
        let orig = libc::dup(2);
        libc::dup2(fds[1], 2);
        libc::close(fds[1]);
        ORIG_ERR.store(orig, Ordering::SeqCst);
        let r = std::fs::File::from_raw_fd(fds[0]);
        let mut w = std::fs::File::from_raw_fd(libc::dup(orig));
        std::thread::spawn(move || {
            let rd = std::io::BufReader::new(r);
            for line in rd.split(b'\n') {
                let Ok(l) = line else { break };
                let t = String::from_utf8_lossy(&l);
                let t = t.trim_start();
                let frame = t.starts_with("at ") || t.split(':').next().map(|p| !p.is_empty() && p.bytes().all(|c| c.is_ascii_digit())).unwrap_or(false) && t.contains(" - ");
                if frame {
                    continue;
                }
                let _ = w.write_all(&l);
                let _ = w.write_all(b"\n");
            }
        });
        libc::signal(libc::SIGABRT, on_abort as usize);
    }
}
