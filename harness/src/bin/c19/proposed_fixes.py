import sys
p=sys.argv[1]; s=open(p).read()
def rep(a,b,count=1):
    global s
    assert s.count(a)>=1, a
    s=s.replace(a,b) if count==0 else s.replace(a,b,count)
# 1 SFileVerifyArchive: release ARCHIVES before the per-file calls
rep("""        let file_list = file_list.unwrap_or_default();
""","""        let file_list = file_list.unwrap_or_default();
        drop(archives);
""")
# 2 SFileEnumFiles: release ARCHIVES before invoking callbacks
rep("""        ArchiveHandle::Mutable { archive, .. } => archive.list(),
    };

    match file_list {
        Ok(entries) => {
            for entry in entries {""","""        ArchiveHandle::Mutable { archive, .. } => archive.list(),
    };
    drop(archives);

    match file_list {
        Ok(entries) => {
            for entry in entries {""")
# 3 SFileGetFileName: bounded by MAX_PATH
rep("""    std::ptr::copy_nonoverlapping(c_name.as_ptr(), buffer, c_name.as_bytes_with_nul().len());""","""    if c_name.as_bytes_with_nul().len() > 260 {
        set_last_error(ERROR_INSUFFICIENT_BUFFER);
        return false;
    }
    std::ptr::copy_nonoverlapping(c_name.as_ptr(), buffer, c_name.as_bytes_with_nul().len());""")
# 4 SFileCloseArchive: purge search handles
rep("""            .retain(|_, file| file.archive_handle != handle_id);
""","""            .retain(|_, file| file.archive_handle != handle_id);
        FIND_HANDLES
            .lock()
            .unwrap()
            .retain(|_, find| find.archive_handle != handle_id);
""")
# 5 unaligned stores
s=s.replace("*(buffer as *mut u64) = file_handle.size;","(buffer as *mut u64).write_unaligned(file_handle.size);")
s=s.replace("*(buffer as *mut u64) = file_handle.position as u64;","(buffer as *mut u64).write_unaligned(file_handle.position as u64);")
s=s.replace("*(buffer as *mut u64) = header.get_archive_size();","(buffer as *mut u64).write_unaligned(header.get_archive_size());")
s=s.replace("*(buffer as *mut u32) = header.hash_table_size;","(buffer as *mut u32).write_unaligned(header.hash_table_size);")
s=s.replace("*(buffer as *mut u32) = header.block_table_size;","(buffer as *mut u32).write_unaligned(header.block_table_size);")
s=s.replace("*(buffer as *mut u32) = header.sector_size() as u32;","(buffer as *mut u32).write_unaligned(header.sector_size() as u32);")
# 6 SFileHasFile: writable handles answer from the MutableArchive state
rep("""    let archives = ARCHIVES.lock().unwrap();
    if let Some(archive_handle) = archives.get(&archive_id) {
        matches!(
            archive_handle.archive().find_file(filename_str),
            Ok(Some(_))
        )
    } else {
        false
    }""","""    let mut archives = ARCHIVES.lock().unwrap();
    match archives.get_mut(&archive_id) {
        Some(ArchiveHandle::ReadOnly { archive, .. }) => {
            matches!(archive.find_file(filename_str), Ok(Some(_)))
        }
        Some(ArchiveHandle::Mutable { archive, .. }) => {
            matches!(archive.find_file(filename_str), Ok(Some(_)))
        }
        None => false,
    }""")
# 7 plain-name offset from the truncated name
rep("""    let plain_name_offset = file_entry.name.rfind('\\\\').map(|pos| pos + 1).unwrap_or(0);""","""    let plain_name_offset = name_bytes[..copy_len]
        .iter()
        .rposition(|&b| b == b'\\\\')
        .map(|pos| pos + 1)
        .unwrap_or(0);""")
open(p,'w').write(s)
