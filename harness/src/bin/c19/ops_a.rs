//! archive / file operations of the interpreter
use crate::ext::CreateMpq;
use crate::guard::GuardBuf;
use crate::hist::*;
use crate::interp::*;
use vcheck::engine::{self, Fail};
use vcheck::ffi::{Handle, cstr};
use wow_mpq::{Archive, MutableArchive};

pub const INVALID: u32 = 0xFFFF_FFFF;

impl<'a> Interp<'a> {
    pub fn step(&mut self, op: &Op) -> R {
        match op {
            Op::OpenArchive { path } => self.op_open_archive(path),
            Op::CreateArchive { target, disposition, hash_size } => self.op_create(*target, *disposition, *hash_size),
            Op::CreateArchive2 { target, version, listfile, attr_flags, sector_size, max_files, bad_cb } => {
                self.op_create2(*target, *version, *listfile, *attr_flags, *sector_size, *max_files, *bad_cb)
            }
            Op::CloseArchive { h } => self.op_close_archive(h),
            Op::OpenFile { h, name } => self.op_open_file(h, name),
            Op::CloseFile { h } => self.op_close_file(h),
            Op::Read { h, sz, null_read, null_buf } => self.op_read(h, sz, *null_read, *null_buf),
            Op::Seek { h, off, method, high } => self.op_seek(h, off, *method, high),
            Op::Size { h, high } => self.op_size(h, *high),
            Op::HasFile { h, name } => self.op_has_file(h, name),
            Op::Enum { h, mask, cb } => self.op_enum(h, mask, cb),
            Op::FindFirst { h, mask, null_data } => self.op_find_first(h, mask, *null_data),
            Op::FindNext { h } => self.op_find_next(h),
            Op::FindClose { h } => self.op_find_close(h),
            Op::Add { h, name, len, seed, flags, compression, ex, src_missing } => self.op_add(h, name, *len, *seed, *flags, *compression, *ex, *src_missing),
            Op::Remove { h, name } => self.op_remove(h, name),
            Op::Rename { h, from, to } => self.op_rename(h, from, to),
            Op::Flush { h } => self.op_flush_compact(h, false),
            Op::Compact { h } => self.op_flush_compact(h, true),
            Op::VerifyFile { h, name, flags } => self.op_verify_file(h, name, *flags),
            Op::VerifyArchive { h, flags } => self.op_verify_archive(h, *flags),
            Op::GetInfo { h, class, sz, misalign, null_needed } => self.op_get_info(h, *class, sz, *misalign, *null_needed),
            Op::GetFileName { h } => self.op_get_file_name(h),
            Op::GetArchiveName { h, sz } => self.op_get_archive_name(h, sz),
        }
    }

    /// an invalid handle must be reported as an error
    pub fn must_fail(&self, api: &str, hc: HClass, v: usize, ok: bool) -> R {
        if ok && hc == HClass::Orphan {
            return Err(Fail::new(
                format!("orphan-search-handle-accepted:{api}"),
                format!("{api} succeeded on search handle {v:#x} although the archive it belongs to has been closed (closing an archive must invalidate its search handles)"),
            ));
        }
        if ok {
            return Err(Fail::new(
                format!("invalid-handle-accepted:{api}:{}", hc.label()),
                format!("{api} succeeded on handle {v:#x}, which is {} for this call", hc.label()),
            ));
        }
        Ok(())
    }

    // ------------------------------------------------------------------ Rust-API answers


    /// existence + size according to the Rust API (None = absent)
    pub fn rust_find(&mut self, av: usize, name: &str) -> Result<Option<u64>, Fail> {
        let Some(Obj::A(a)) = self.model.get_mut(&av) else { return Err(discard("no archive object")) };
        if let Some(t) = a.twin.as_mut() {
            let r = engine::guard("MutableArchive::find_file", || t.find_file(name)).map_err(|f| discard(f.message))?;
            Ok(r.ok().flatten().map(|i| i.file_size))
        } else if let Some(r) = a.reference.as_ref() {
            let r = engine::guard("Archive::find_file", || r.find_file(name)).map_err(|f| discard(f.message))?;
            Ok(r.ok().flatten().map(|i| i.file_size))
        } else {
            Err(discard("archive object without reference"))
        }
    }

    pub fn rust_read(&mut self, av: usize, name: &str) -> Result<Result<Vec<u8>, String>, Fail> {
        let Some(Obj::A(a)) = self.model.get_mut(&av) else { return Err(discard("no archive object")) };
        if let Some(t) = a.twin.as_mut() {
            let r = engine::guard("MutableArchive::read_file", || t.read_file(name)).map_err(|f| discard(f.message))?;
            Ok(r.map_err(|e| e.to_string()))
        } else if let Some(r) = a.reference.as_mut() {
            let r = engine::guard("Archive::read_file", || r.read_file(name)).map_err(|f| discard(f.message))?;
            Ok(r.map_err(|e| e.to_string()))
        } else {
            Err(discard("archive object without reference"))
        }
    }

    /// name list according to the Rust API. `for_find`: read-only archives fall back to list_all()
    /// when list() fails (what a Rust caller without a listfile does); None = no list available
    pub fn rust_list(&mut self, av: usize, for_find: bool) -> Result<Option<Vec<(String, u64)>>, Fail> {
        let Some(Obj::A(a)) = self.model.get_mut(&av) else { return Err(discard("no archive object")) };
        let r = if let Some(t) = a.twin.as_mut() {
            engine::guard("MutableArchive::list", || t.list()).map_err(|f| discard(f.message))?.ok()
        } else if let Some(r) = a.reference.as_mut() {
            let l = engine::guard("Archive::list", || r.list()).map_err(|f| discard(f.message))?;
            match l {
                Ok(l) => Some(l),
                Err(_) if for_find => engine::guard("Archive::list_all", || r.list_all()).map_err(|f| discard(f.message))?.ok(),
                Err(_) => None,
            }
        } else {
            return Err(discard("archive object without reference"));
        };
        Ok(r.map(|l| l.into_iter().map(|e| (e.name, e.size)).collect()))
    }

    // ------------------------------------------------------------------ archives

    fn op_open_archive(&mut self, p: &PathRef) -> R {
        let path = self.path_of(p);
        let (_, live_mut) = self.live_on_path(&path);
        if live_mut {
            self.skip("open-while-writable-handle-live");
            return Ok(());
        }
        let rust = engine::guard("Archive::open", || Archive::open(&path)).map_err(|f| discard(f.message))?;
        let variant = match (&rust, path.len() >= MAX_PATH) {
            (Ok(_), false) => "valid",
            (Ok(_), true) => "valid-longpath",
            (Err(_), _) => "unopenable",
        };
        self.announce("SFileOpenArchive", variant, "-");
        let c = cstr(&path);
        let mut out: Handle = std::ptr::null_mut();
        let ok = unsafe { (self.storm.SFileOpenArchive)(c.as_ptr(), 0, 0, &mut out) };
        self.cell(format!("SFileOpenArchive:{variant}"));
        match (rust, ok) {
            (Ok(r), true) => {
                if path.len() >= MAX_PATH {
                    self.feat("longpath");
                }
                self.register("SFileOpenArchive", out as usize, Obj::A(ArchObj { live: true, path, pref: *p, mutable: false, modified: false, dirty: false, map: Default::default(), reference: Some(r), twin: None }))
            }
            (Err(_), false) => Ok(()),
            (Ok(_), false) => Err(Fail::new("open-archive-fails-where-rust-opens", format!("SFileOpenArchive({path:?}) failed (error {}), Archive::open succeeds", self.storm.last_error()))),
            (Err(e), true) => Err(Fail::new("open-archive-succeeds-where-rust-fails", format!("SFileOpenArchive({path:?}) succeeded, Archive::open fails: {e}"))),
        }
    }

    fn op_create(&mut self, target: u8, disposition: u32, hash_size: u32) -> R {
        let path = self.created_path(target);
        if self.live_on_path(&path).0 {
            self.skip("create-over-live-handle");
            return Ok(());
        }
        self.announce("SFileCreateArchive", &format!("disp{disposition}"), "-");
        let c = cstr(&path);
        let mut out: Handle = std::ptr::null_mut();
        let ok = unsafe { (self.storm.SFileCreateArchive)(c.as_ptr(), disposition, hash_size, &mut out) };
        self.cell(format!("SFileCreateArchive:{}", if ok { "ok" } else { "refused" }));
        if !ok {
            return Ok(());
        }
        let rust = engine::guard("Archive::open", || Archive::open(&path)).map_err(|f| discard(f.message))?;
        match rust {
            Ok(r) => self.register("SFileCreateArchive", out as usize, Obj::A(ArchObj { live: true, path, pref: PathRef::Created(target), mutable: false, modified: false, dirty: false, map: Default::default(), reference: Some(r), twin: None })),
            Err(e) => Err(Fail::new("create-archive-succeeds-but-rust-cannot-open", format!("SFileCreateArchive({path:?}, {disposition}, {hash_size}) returned a handle, Archive::open fails: {e}"))),
        }
    }

    #[allow(clippy::too_many_arguments)]
    fn op_create2(&mut self, target: u8, version: u32, listfile: bool, attr_flags: u32, sector_size: u32, max_files: u32, bad_cb: bool) -> R {
        let path = self.created_path(target);
        if self.live_on_path(&path).0 {
            self.skip("create-over-live-handle");
            return Ok(());
        }
        let info = CreateMpq {
            cb_size: std::mem::size_of::<CreateMpq>() as u32 + if bad_cb { 4 } else { 0 },
            mpq_version: version,
            user_data: std::ptr::null_mut(),
            cb_user_data: 0,
            stream_flags: 0,
            file_flags_1: if listfile { 0xFFFF_FFFF } else { 0 },
            file_flags_2: if attr_flags != 0 { 0xFFFF_FFFF } else { 0 },
            file_flags_3: 0,
            attr_flags,
            sector_size,
            raw_chunk_size: 0,
            max_file_count: max_files,
        };
        self.announce("SFileCreateArchive2", &format!("v{version}"), "-");
        let c = cstr(&path);
        let mut out: Handle = std::ptr::null_mut();
        let ok = unsafe { (self.ext.create2)(c.as_ptr(), &info, &mut out) };
        self.cell(format!("SFileCreateArchive2:{}", if ok { "ok" } else { "refused" }));
        if !ok {
            return Ok(());
        }
        // twin: byte copy of the fresh archive, driven through the Rust API from here on
        let twin_path = format!("{path}.twin{}", self.order.len());
        std::fs::copy(&path, &twin_path).map_err(|e| discard(format!("copy twin: {e}")))?;
        let twin = engine::guard("MutableArchive::open", || MutableArchive::open(&twin_path)).map_err(|f| discard(f.message))?;
        match twin {
            Ok(t) => {
                self.feat("writable");
                self.register("SFileCreateArchive2", out as usize, Obj::A(ArchObj { live: true, path, pref: PathRef::Created(target), mutable: true, modified: false, dirty: false, map: Default::default(), reference: None, twin: Some(t) }))
            }
            Err(e) => Err(Fail::new("create-archive2-succeeds-but-rust-cannot-open", format!("SFileCreateArchive2({path:?}, v{version}) returned a handle, MutableArchive::open on a copy fails: {e}"))),
        }
    }

    fn op_close_archive(&mut self, h: &HRef) -> R {
        let (v, hc) = self.resolve(h, Kind::Arch, false);
        self.cell(format!("SFileCloseArchive:{}", hc.label()));
        if hc == HClass::Live {
            let open_files = self.model.values().filter(|o| matches!(o, Obj::F(f) if f.live && f.arch == v)).count();
            if open_files > 0 {
                self.feat("close-with-open-files");
            }
            return self.close_archive_live(v, if open_files > 0 { "with-open-files" } else { "plain" });
        }
        self.announce("SFileCloseArchive", "-", hc.label());
        let ok = unsafe { (self.storm.SFileCloseArchive)(hval(v)) };
        self.must_fail("SFileCloseArchive", hc, v, ok)?;
        // closing with a handle that is not an archive must not disturb anything: probe one live file
        self.probe_files(None)
    }

    /// after a close: files of `closed` (if any) must be invalid, every other live file still valid
    fn probe_files(&mut self, closed: Option<(usize, &[usize])>) -> R {
        if let Some((av, gone)) = closed {
            for fv in gone {
                self.announce("SFileGetFileSize", "probe-after-close", "closed");
                let r = unsafe { (self.storm.SFileGetFileSize)(hval(*fv), std::ptr::null_mut()) };
                if r != INVALID {
                    return Err(Fail::new(
                        "close-archive-leaves-file-handle-valid",
                        format!("file handle {fv:#x} of archive {av:#x} still answers SFileGetFileSize = {r} after SFileCloseArchive"),
                    ));
                }
            }
        }
        let others: Vec<(usize, u64)> = self.model.iter().filter_map(|(v, o)| if let Obj::F(f) = o { if f.live { Some((*v, f.size)) } else { None } } else { None }).take(3).collect();
        for (fv, size) in others {
            self.announce("SFileGetFileSize", "probe-survivor", "live");
            let r = unsafe { (self.storm.SFileGetFileSize)(hval(fv), std::ptr::null_mut()) };
            if r != size as u32 {
                return Err(Fail::new(
                    "close-invalidates-foreign-file-handle",
                    format!("file handle {fv:#x} belongs to an archive that is still open but SFileGetFileSize answers {r:#x} (expected {size}) after a close of something else"),
                ));
            }
        }
        Ok(())
    }

    pub fn close_archive_live(&mut self, v: usize, variant: &str) -> R {
        self.announce("SFileCloseArchive", variant, "live");
        let ok = unsafe { (self.storm.SFileCloseArchive)(hval(v)) };
        if !ok {
            return Err(Fail::new("close-of-live-handle-fails:SFileCloseArchive", format!("SFileCloseArchive({v:#x}) on a live archive handle returned false (error {})", self.storm.last_error())));
        }
        let mut gone = vec![];
        let (path, mutable, modified);
        {
            let Some(Obj::A(a)) = self.model.get_mut(&v) else { unreachable!() };
            a.live = false;
            a.reference = None;
            // dropping the twin flushes it, as closing the C handle does
            let t = a.twin.take();
            engine::guard("drop(MutableArchive)", || drop(t)).map_err(|f| discard(f.message))?;
            path = a.path.clone();
            mutable = a.mutable;
            modified = a.modified;
        }
        for (fv, o) in self.model.iter_mut() {
            match o {
                Obj::F(f) if f.live && f.arch == v => {
                    f.live = false;
                    gone.push(*fv);
                }
                Obj::S(s) if s.live && s.arch == v => {
                    s.live = false;
                    s.orphan = true;
                }
                _ => {}
            }
        }
        self.probe_files(Some((v, &gone)))?;
        if mutable {
            if modified {
                self.feat("modified-then-closed");
            }
            self.agree_after_close(&path)?;
        }
        Ok(())
    }

    /// after C-API modifications and close: the C API and the Rust API, both opening the file
    /// afresh, give the same existence answers, bytes, sizes and name list
    fn agree_after_close(&mut self, path: &str) -> R {
        let rust = engine::guard("Archive::open", || Archive::open(path)).map_err(|f| discard(f.message))?;
        self.announce("SFileOpenArchive", "agree-after-close", "-");
        let c = cstr(path);
        let mut ah: Handle = std::ptr::null_mut();
        let ok = unsafe { (self.storm.SFileOpenArchive)(c.as_ptr(), 0, 0, &mut ah) };
        self.note_handle(ah as usize);
        let mut rust = match (rust, ok) {
            (Ok(r), true) => r,
            (Err(_), false) => return Ok(()),
            (Ok(_), false) => return Err(Fail::new("after-close:open-archive-fails-where-rust-opens", format!("after modifications through the C API and close, SFileOpenArchive({path:?}) fails but Archive::open succeeds"))),
            (Err(e), true) => {
                unsafe { (self.storm.SFileCloseArchive)(ah) };
                return Err(Fail::new("after-close:open-archive-succeeds-where-rust-fails", format!("after close, SFileOpenArchive succeeds, Archive::open fails: {e}")));
            }
        };
        let res = (|| -> R {
            for n in self.h.names.clone() {
                if n.contains('\0') {
                    continue;
                }
                let cn = cstr(&n);
                let r_has = engine::guard("Archive::find_file", || rust.find_file(&n)).map_err(|f| discard(f.message))?.ok().flatten();
                self.announce("SFileHasFile", "agree-after-close", "live");
                let c_has = unsafe { (self.storm.SFileHasFile)(ah, cn.as_ptr()) };
                if c_has != r_has.is_some() {
                    return Err(Fail::new("after-close:existence-differs", format!("after close {n:?}: SFileHasFile = {c_has}, Archive::find_file = {}", r_has.is_some())));
                }
                if r_has.is_none() {
                    continue;
                }
                let r_data = engine::guard("Archive::read_file", || rust.read_file(&n)).map_err(|f| discard(f.message))?;
                self.announce("SFileOpenFileEx", "agree-after-close", "live");
                let mut fh: Handle = std::ptr::null_mut();
                let c_ok = unsafe { (self.storm.SFileOpenFileEx)(ah, cn.as_ptr(), 0, &mut fh) };
                self.note_handle(fh as usize);
                match (r_data, c_ok) {
                    (Err(_), false) => {}
                    (Err(e), true) => {
                        unsafe { (self.storm.SFileCloseFile)(fh) };
                        return Err(Fail::new("after-close:openfile-succeeds-where-rust-fails", format!("after close {n:?}: SFileOpenFileEx succeeds, Archive::read_file fails: {e}")));
                    }
                    (Ok(d), false) => return Err(Fail::new("after-close:openfile-fails-where-rust-reads", format!("after close {n:?}: SFileOpenFileEx fails, Archive::read_file returns {} bytes", d.len()))),
                    (Ok(d), true) => {
                        let buf = GuardBuf::new(d.len() + 1, 1);
                        let mut rd: u32 = 0;
                        self.announce("SFileReadFile", "agree-after-close", "live");
                        let ok = unsafe { (self.storm.SFileReadFile)(fh, buf.ptr() as *mut _, (d.len() + 1) as u32, &mut rd, std::ptr::null_mut()) };
                        let got = buf.bytes(rd as usize).to_vec();
                        unsafe { (self.storm.SFileCloseFile)(fh) };
                        buf.check().map_err(|m| Fail::new("write-outside-buffer:SFileReadFile", m))?;
                        if !ok || got != d {
                            return Err(Fail::new("after-close:bytes-differ", format!("after close {n:?}: C API reads {} bytes (ok={ok}), Rust API {} bytes; equal = {}", got.len(), d.len(), got == d)));
                        }
                    }
                }
            }
            let r_list: Vec<String> = engine::guard("Archive::list", || rust.list()).map_err(|f| discard(f.message))?.map(|l| l.into_iter().map(|e| e.name).collect()).unwrap_or_default();
            let mut st = crate::ops_b::EnumState::passive(0);
            self.announce("SFileEnumFiles", "agree-after-close", "live");
            unsafe { (self.storm.SFileEnumFiles)(ah, std::ptr::null(), std::ptr::null(), Some(crate::ops_b::enum_cb), &mut st as *mut _ as *mut _) };
            if st.names != r_list {
                return Err(Fail::new("after-close:name-list-differs", format!("after close: SFileEnumFiles lists {:?}, Archive::list {:?}", st.names, r_list)));
            }
            Ok(())
        })();
        self.announce("SFileCloseArchive", "agree-after-close", "live");
        unsafe { (self.storm.SFileCloseArchive)(ah) };
        self.cell("agree-after-close".into());
        res
    }

    // ------------------------------------------------------------------ files

    fn op_open_file(&mut self, h: &HRef, name: &NameRef) -> R {
        let (v, hc) = self.resolve(h, Kind::Arch, false);
        let (cn, ns) = self.name(name);
        self.cell(format!("SFileOpenFileEx:{}", hc.label()));
        let mut expect: Option<(Vec<u8>, u64)> = None;
        if hc == HClass::Live {
            if let Some(n) = &ns {
                if let Some(size) = self.rust_find(v, n)? {
                    if let Ok(d) = self.rust_read(v, n)? {
                        expect = Some((d, size));
                    }
                }
            }
        }
        // A writable handle without changes since its last flush/compact describes exactly the
        // file on disk: what a fresh read-only open of that file (the Rust API for the same
        // archive) finds and reads is what the C API must serve through the handle.
        let mut on_disk: Option<Option<Vec<u8>>> = None;
        if hc == HClass::Live {
            if let (Some(n), Some(Obj::A(a))) = (&ns, self.model.get(&v)) {
                if a.mutable && a.modified && !a.dirty {
                    let path = a.path.clone();
                    if let Ok(Ok(mut disk)) = engine::guard("Archive::open(flushed file)", || Archive::open(&path)) {
                        on_disk = Some(match engine::guard("Archive::find_file", || disk.find_file(n)) {
                            Ok(Ok(Some(_))) => engine::guard("Archive::read_file", || disk.read_file(n)).ok().and_then(|r| r.ok()),
                            _ => None,
                        });
                        self.feat("flushed-handle-vs-file-on-disk");
                    }
                }
            }
        }
        self.announce("SFileOpenFileEx", Self::name_label(name), hc.label());
        let mut out: Handle = std::ptr::null_mut();
        let ok = unsafe { (self.storm.SFileOpenFileEx)(hval(v), cn.ptr(), 0, &mut out) };
        if hc != HClass::Live {
            return self.must_fail("SFileOpenFileEx", hc, v, ok);
        }
        if let Some(d) = &on_disk {
            if d.is_some() != ok {
                if ok {
                    self.note_handle(out as usize);
                    unsafe { (self.storm.SFileCloseFile)(out) };
                }
                return Err(Fail::new(
                    "flushed-writable-handle-disagrees-with-file-on-disk",
                    format!(
                        "after a flush with no later change, {ns:?} is {} in the archive file (fresh read-only Rust open of the same file) but SFileOpenFileEx on the writable handle {}",
                        d.as_ref().map(|x| format!("readable, {} bytes", x.len())).unwrap_or("not readable".into()),
                        if ok { "succeeds".to_string() } else { format!("fails (error {})", self.storm.last_error()) }
                    ),
                ));
            }
        }
        // writable handles: the plain-map model of the handle's own successful modifications
        let modelled: Option<Option<Vec<u8>>> = match (&ns, self.model.get(&v)) {
            (Some(n), Some(Obj::A(a))) if a.mutable && !n.is_empty() && n.len() < MAX_PATH && !n.starts_with('(') => Some(a.map.get(&fold_name(n)).cloned()),
            _ => None,
        };
        if let Some(Some(want)) = &modelled {
            let n = ns.clone().unwrap_or_default();
            if !ok {
                return Err(Fail::new(
                    "openfile-fails-for-file-the-handle-added",
                    format!("SFileOpenFileEx({n:?}) fails (error {}) although this handle added that name ({} bytes) and has not removed or renamed it since", self.storm.last_error(), want.len()),
                ));
            }
            if let Some((d, _)) = &expect {
                if d != want {
                    self.note_handle(out as usize);
                    unsafe { (self.storm.SFileCloseFile)(out) };
                    return Err(Fail::new(
                        "writable-handle-content-differs-from-what-was-added",
                        format!("{n:?}: the Rust API reads {} bytes that are not the {} bytes this handle added under that name", d.len(), want.len()),
                    ));
                }
            }
        }
        match (expect, ok) {
            (Some((data, size)), true) => {
                let n = ns.unwrap();
                if n.len() >= MAX_PATH {
                    self.feat("longname");
                }
                self.register("SFileOpenFileEx", out as usize, Obj::F(FileObj { live: true, arch: v, name: n, data, size, cursor: 0 }))
            }
            (None, false) => Ok(()),
            (Some((d, _)), false) => Err(Fail::new("openfile-fails-where-rust-reads", format!("SFileOpenFileEx({:?}) fails (error {}), the Rust API finds and reads {} bytes", ns, self.storm.last_error(), d.len()))),
            (None, true) => {
                self.note_handle(out as usize);
                unsafe { (self.storm.SFileCloseFile)(out) };
                Err(Fail::new(format!("openfile-succeeds-where-rust-fails{}", if ns.is_none() { ":invalid-name" } else { "" }), format!("SFileOpenFileEx({ns:?}) succeeds, the Rust API does not find/read that file")))
            }
        }
    }

    fn op_close_file(&mut self, h: &HRef) -> R {
        let (v, hc) = self.resolve(h, Kind::File, false);
        self.cell(format!("SFileCloseFile:{}", hc.label()));
        self.announce("SFileCloseFile", "-", hc.label());
        let ok = unsafe { (self.storm.SFileCloseFile)(hval(v)) };
        if hc != HClass::Live {
            return self.must_fail("SFileCloseFile", hc, v, ok);
        }
        if !ok {
            return Err(Fail::new("close-of-live-handle-fails:SFileCloseFile", format!("SFileCloseFile({v:#x}) on a live file handle returned false")));
        }
        if let Some(Obj::F(f)) = self.model.get_mut(&v) {
            f.live = false;
        }
        Ok(())
    }

    fn op_read(&mut self, h: &HRef, sz: &Sz, null_read: bool, null_buf: bool) -> R {
        let (v, hc) = self.resolve(h, Kind::File, false);
        let (cursor, len) = match self.model.get(&v) {
            Some(Obj::F(f)) if hc == HClass::Live => (f.cursor, f.data.len()),
            _ => (0, 16),
        };
        let remaining = len - cursor;
        let to_read = sz.resolve(remaining);
        self.cell(format!("SFileReadFile:{}", hc.label()));
        if hc == HClass::Live {
            self.cell(format!("SFileReadFile:size:{}", sz.label()));
            self.feat(&format!("sz:{}", sz.label()));
        }
        let buf = GuardBuf::new(to_read, 1);
        let rdbuf = GuardBuf::new(4, 4);
        unsafe { (rdbuf.ptr() as *mut u32).write(0xEEEE_EEEE) };
        self.announce("SFileReadFile", if null_buf { "buffer=null" } else { sz.label() }, hc.label());
        let ok = unsafe {
            (self.storm.SFileReadFile)(
                hval(v),
                if null_buf { std::ptr::null_mut() } else { buf.ptr() as *mut _ },
                to_read as u32,
                if null_read { std::ptr::null_mut() } else { rdbuf.ptr() as *mut u32 },
                std::ptr::null_mut(),
            )
        };
        let rd = unsafe { (rdbuf.ptr() as *const u32).read() };
        buf.check().map_err(|m| Fail::new("write-outside-buffer:SFileReadFile", m))?;
        rdbuf.check().map_err(|m| Fail::new("write-outside-buffer:SFileReadFile:read-count", m))?;
        if hc != HClass::Live || null_buf {
            if null_buf && hc == HClass::Live && ok && to_read.min(remaining) > 0 {
                return Err(Fail::new("read-into-null-buffer-succeeds", "SFileReadFile with buffer = NULL reported success".to_string()));
            }
            if hc != HClass::Live {
                self.must_fail("SFileReadFile", hc, v, ok)?;
                buf.untouched_from(0).map_err(|m| Fail::new("failed-read-writes-buffer", m))?;
            }
            return Ok(());
        }
        let exp = to_read.min(remaining);
        if !ok {
            return Err(Fail::new("read-on-live-handle-fails", format!("SFileReadFile(to_read={to_read}) at cursor {cursor} of {len} returned false (error {})", self.storm.last_error())));
        }
        if !null_read && rd as usize != exp {
            return Err(Fail::new("read-count-differs", format!("SFileReadFile(to_read={to_read}) at cursor {cursor} of {len} reports {rd} bytes, expected min(requested, remaining) = {exp}")));
        }
        let Some(Obj::F(f)) = self.model.get_mut(&v) else { unreachable!() };
        if buf.bytes(exp) != &f.data[cursor..cursor + exp] {
            return Err(Fail::new("read-bytes-differ", format!("SFileReadFile({exp} bytes at cursor {cursor} of {len}, file {:?}) returned bytes that differ from the Rust API's content at that position: C {:?} / Rust {:?}", f.name, String::from_utf8_lossy(&buf.bytes(exp)[..exp.min(80)]), String::from_utf8_lossy(&f.data[cursor..cursor + exp.min(80)]))));
        }
        f.cursor += exp;
        buf.untouched_from(exp).map_err(|m| Fail::new("read-writes-more-than-reported", m))?;
        Ok(())
    }

    fn op_seek(&mut self, h: &HRef, off: &Off, method: u32, high: &High) -> R {
        let (v, hc) = self.resolve(h, Kind::File, false);
        let (cursor, len) = match self.model.get(&v) {
            Some(Obj::F(f)) if hc == HClass::Live => (f.cursor as i64, f.data.len() as i64),
            _ => (10, 100),
        };
        let low64 = match off {
            Off::Abs(a) => *a as i64,
            Off::LenPlus(d) => len + *d as i64,
            Off::MinusLenPlus(d) => -len + *d as i64,
            Off::MinusCurPlus(d) => -cursor + *d as i64,
        };
        let low = low64.clamp(i32::MIN as i64, i32::MAX as i64) as i32;
        let hv: Option<i32> = match high {
            High::Null => None,
            High::Zero => Some(0),
            High::SignExt => Some(if low < 0 { -1 } else { 0 }),
            High::One => Some(1),
            High::Max => Some(i32::MAX),
            High::Min => Some(i32::MIN),
        };
        // 64-bit distance: Win32 reading (low part unsigned when a high part is given) and the
        // sign-extending reading; the exact target is only judged where both agree
        let (dist, unambiguous) = match hv {
            None => (low as i128, true),
            Some(hi) => {
                let win = ((hi as i64) << 32) | (low as u32 as i64);
                let sx = (low as i64) | ((hi as i64) << 32);
                (win as i128, win == sx)
            }
        };
        let base = match method {
            0 => 0i128,
            1 => cursor as i128,
            _ => len as i128,
        };
        let target = base + dist;
        let region = if method > 2 {
            "bad-method"
        } else if !unambiguous {
            "ambiguous"
        } else if target < 0 {
            "before-start"
        } else if target > len as i128 {
            "beyond-end"
        } else {
            "in-range"
        };
        self.cell(format!("SFileSetFilePointer:{}", hc.label()));
        if hc == HClass::Live {
            self.cell(format!("SFileSetFilePointer:m{}:{region}", method.min(3)));
            if region != "in-range" {
                self.feat(&format!("seek:{region}"));
            }
        }
        let hb = GuardBuf::new(4, 4);
        if let Some(x) = hv {
            unsafe { (hb.ptr() as *mut i32).write(x) };
        }
        self.announce("SFileSetFilePointer", region, hc.label());
        let ret = unsafe { (self.storm.SFileSetFilePointer)(hval(v), low, if hv.is_some() { hb.ptr() as *mut i32 } else { std::ptr::null_mut() }, method) };
        hb.check().map_err(|m| Fail::new("write-outside-buffer:SFileSetFilePointer", m))?;
        if hc != HClass::Live {
            return self.must_fail("SFileSetFilePointer", hc, v, ret != INVALID);
        }
        let hi_out = unsafe { (hb.ptr() as *const i32).read() };
        let Some(Obj::F(f)) = self.model.get_mut(&v) else { unreachable!() };
        if ret == INVALID {
            if method <= 2 {
                return Err(Fail::new("seek-on-live-handle-fails", format!("SFileSetFilePointer({low}, high={hv:?}, method={method}) on a live handle (cursor {cursor}, length {len}) returned INVALID_SET_FILE_POINTER")));
            }
            return Ok(()); // cursor unchanged; the next read checks it
        }
        if ret as i64 > len {
            return Err(Fail::new("seek-returns-cursor-beyond-length", format!("SFileSetFilePointer({low}, high={hv:?}, method={method}) returned {ret}, file length is {len}")));
        }
        if method <= 2 && region == "in-range" && ret as i128 != target {
            return Err(Fail::new(format!("seek-in-range-wrong-position:m{method}"), format!("SFileSetFilePointer({low}, high={hv:?}, method={method}) from cursor {cursor} (length {len}) returned {ret}, expected {target}")));
        }
        if method <= 2 && hv.is_some() && hi_out != 0 {
            return Err(Fail::new("seek-high-part-wrong", format!("SFileSetFilePointer returned position {ret} but stored high part {hi_out}")));
        }
        f.cursor = ret as usize;
        Ok(())
    }

    fn op_size(&mut self, h: &HRef, high: bool) -> R {
        let (v, hc) = self.resolve(h, Kind::File, false);
        self.cell(format!("SFileGetFileSize:{}", hc.label()));
        let hb = GuardBuf::new(4, 4);
        unsafe { (hb.ptr() as *mut u32).write(0xEEEE_EEEE) };
        self.announce("SFileGetFileSize", if high { "high" } else { "-" }, hc.label());
        let ret = unsafe { (self.storm.SFileGetFileSize)(hval(v), if high { hb.ptr() as *mut u32 } else { std::ptr::null_mut() }) };
        hb.check().map_err(|m| Fail::new("write-outside-buffer:SFileGetFileSize", m))?;
        if hc != HClass::Live {
            return self.must_fail("SFileGetFileSize", hc, v, ret != INVALID);
        }
        let Some(Obj::F(f)) = self.model.get(&v) else { unreachable!() };
        let hi = unsafe { (hb.ptr() as *const u32).read() };
        if ret as u64 != (f.size & 0xFFFF_FFFF) || (high && hi as u64 != f.size >> 32) {
            return Err(Fail::new("file-size-differs", format!("SFileGetFileSize({:?}) = {ret} (high {hi:#x}), the Rust API reports {} (content {} bytes)", f.name, f.size, f.data.len())));
        }
        Ok(())
    }

    fn op_has_file(&mut self, h: &HRef, name: &NameRef) -> R {
        let (v, hc) = self.resolve(h, Kind::Arch, false);
        let (cn, ns) = self.name(name);
        self.cell(format!("SFileHasFile:{}", hc.label()));
        let mut expect = false;
        let mut variant = Self::name_label(name).to_string();
        if hc == HClass::Live {
            let Some(Obj::A(a)) = self.model.get(&v) else { unreachable!() };
            if a.mutable && a.modified {
                if self.h.excl.hasfile_pending {
                    self.skip("hasfile-on-modified-writable-archive");
                    return Ok(());
                }
                variant = "writable-modified".into();
            }
            if let Some(n) = &ns {
                expect = self.rust_find(v, n)?.is_some();
            }
        }
        self.announce("SFileHasFile", &variant, hc.label());
        let got = unsafe { (self.storm.SFileHasFile)(hval(v), cn.ptr()) };
        if hc != HClass::Live {
            return self.must_fail("SFileHasFile", hc, v, got);
        }
        if got != expect {
            let pend = variant == "writable-modified";
            return Err(Fail::new(
                format!("existence-differs{}", if pend { ":writable-archive-pending-changes" } else if ns.is_none() { ":invalid-name" } else { "" }),
                format!("SFileHasFile({ns:?}) = {got}, the Rust API says {expect}{}", if pend { " (writable archive with changes made through the same handle)" } else { "" }),
            ));
        }
        Ok(())
    }
}

/// MPQ name folding (ASCII upper case, '/' → '\\'): the key of the plain-map model
pub fn fold_name(n: &str) -> String {
    n.replace('/', "\\").to_ascii_uppercase()
}
