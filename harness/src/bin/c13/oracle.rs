//! The oracles: write→parse content equality, re-write byte stability, independent layout judge,
//! same-version conversion is the identity, cross-version conversion keeps common fields.

use crate::canon::{self, Fields};
use crate::m2layout;
use crate::spec::*;
use serde::{Deserialize, Serialize};
use std::io::Cursor;
use vcheck::engine::{CaseResult, Fail, guard};
use wow_m2::skin::{OldSkin, Skin, SkinFile};
use wow_m2::{AnimFile, M2Converter, M2Error, M2Model, parse_m2};

fn err_kind(e: &M2Error) -> String {
    let s = format!("{e:?}");
    let end = s.find(['(', '{', ' ']).unwrap_or(s.len());
    let mut k = s[..end].to_string();
    if let M2Error::Io(io) = e {
        k = format!("Io/{:?}", io.kind());
    }
    k
}

thread_local! {
    static SAVE_DIR: tempfile::TempDir = tempfile::Builder::new().prefix("vchk-c13-save").tempdir_in(std::env::temp_dir()).expect("tempdir");
}

/// The value is written a second time into a sink that already holds a longer file, and (one case in
/// eight, by content) saved with the crate's `save(path)` over a longer existing file: the stream
/// position / the file must give exactly the bytes of the write into an empty sink.
macro_rules! reused_sink_checks {
    ($entry:expr, $val:expr, $fresh:expr, $kind:expr) => {{
        let fresh: &Vec<u8> = $fresh;
        let reused = guard($entry, || {
            let mut c = Cursor::new(vec![0xEEu8; fresh.len() + 1231]);
            $val.write(&mut c).map(|_| {
                let pos = c.position() as usize;
                (pos, c.into_inner())
            })
        })?;
        match reused {
            Ok((pos, buf)) => {
                // the M2 writer seeks back to patch its header: the end of the file is the largest
                // position written, which for a correct writer is the length of the fresh file
                let end = buf.iter().rposition(|&b| b != 0xEE).map(|i| i + 1).unwrap_or(0).max(pos);
                if buf.len() < fresh.len() || buf[..fresh.len()] != fresh[..] || end > fresh.len() {
                    return Err(Fail::new(
                        format!("{}-write-depends-on-what-the-sink-held", $kind),
                        format!("writing into a sink that holds {} older bytes gives a file that differs from the {}-byte file written into an empty sink (stream left at {pos}, last byte written at {end})", fresh.len() + 1231, fresh.len()),
                    ));
                }
            }
            Err(e) => return Err(Fail::new(format!("{}-write-error:reused-sink", $kind), e.to_string())),
        }
        if fresh.iter().fold(0u32, |a, &b| a.wrapping_mul(31).wrapping_add(b as u32)) % 8 == 0 {
            let path = SAVE_DIR.with(|d| d.path().join(format!("{}-{:?}.bin", $kind, std::thread::current().id())));
            let mut old = vec![0xEEu8; fresh.len() + 777];
            old[..4].copy_from_slice(b"OLD!");
            std::fs::write(&path, &old).map_err(|e| Fail::new("harness:io", e.to_string()))?;
            match guard($entry, || $val.save(&path))? {
                Ok(()) => {
                    let got = std::fs::read(&path).map_err(|e| Fail::new("harness:io", e.to_string()))?;
                    let _ = std::fs::remove_file(&path);
                    if &got != fresh {
                        return Err(Fail::new(
                            format!("{}-save-over-existing-file-differs", $kind),
                            format!("save() over an existing {}-byte file leaves {} bytes, the value serialises to {} bytes", old.len(), got.len(), fresh.len()),
                        ));
                    }
                }
                Err(e) => {
                    let _ = std::fs::remove_file(&path);
                    return Err(Fail::new(format!("{}-save-error", $kind), e.to_string()));
                }
            }
        }
    }};
}

fn fail(sig: String, msg: String) -> CaseResult {
    Err(Fail::new(sig, msg))
}

pub fn write_model(entry: &str, m: &M2Model) -> Result<Result<Vec<u8>, M2Error>, Fail> {
    let r = guard(entry, || {
        let mut c = Cursor::new(Vec::new());
        m.write(&mut c).map(|_| c.into_inner())
    })?;
    if let Ok(fresh) = &r {
        reused_sink_checks!(entry, m, fresh, "m2");
    }
    Ok(r)
}

fn first_diff(a: &[u8], b: &[u8]) -> Option<usize> {
    let n = a.len().min(b.len());
    (0..n).find(|&i| a[i] != b[i]).or(if a.len() != b.len() { Some(n) } else { None })
}

pub enum Outcome {
    Checked,
    /// the writer refused the object (not "accepted by the writer"; counted, never a failure)
    Rejected(String),
}

fn pair_at(b: &[u8], p: usize) -> Option<(u32, u32)> {
    let s = b.get(p..p + 8)?;
    Some((
        u32::from_le_bytes(s[0..4].try_into().unwrap()),
        u32::from_le_bytes(s[4..8].try_into().unwrap()),
    ))
}

/// Reference integrity of the written bytes, judged without the library's parser: header counts
/// equal the model's element counts, every texture file name is referenced and stored, every
/// event's range/time arrays are referenced and stored. Ordered by cause: a defect in an early
/// check can corrupt what the later ones look at, never the other way round.
fn refs_check(tag: &str, m: &M2Model, vn: u32, b: &[u8], l: &m2layout::Layout) -> CaseResult {
    let slot = |n: &str| l.top.iter().find(|t| t.0 == n).map(|t| (t.1, t.2));
    // texture file names
    if let Some((c, o)) = slot("textures") {
        if c as usize == m.textures.len() {
            for (i, t) in m.textures.iter().enumerate() {
                let named = t.filename.array.count > 0 && t.filename.array.offset != 0;
                let Some((cnt, off)) = pair_at(b, o as usize + 16 * i + 8) else {
                    return fail(format!("{tag}m2-written-texture-name-ref:record-outside-file"), format!("texture {i}"));
                };
                let name = &t.filename.string.data;
                if named {
                    if cnt == 0 {
                        return fail(
                            format!("{tag}m2-written-texture-name-ref:missing"),
                            format!("texture {i} has file name {:?} but its record references no name (count 0, offset {off})", String::from_utf8_lossy(name)),
                        );
                    }
                    let stored = b.get(off as usize..off as usize + name.len() + 1);
                    let ok = cnt as usize == name.len() + 1
                        && stored.is_some_and(|s| &s[..name.len()] == &name[..] && s[name.len()] == 0);
                    if !ok {
                        return fail(
                            format!("{tag}m2-written-texture-name-ref:wrong"),
                            format!("texture {i}: record says count {cnt} offset {off}, name {:?} is not stored there", String::from_utf8_lossy(name)),
                        );
                    }
                } else if cnt != 0 {
                    return fail(
                        format!("{tag}m2-written-texture-name-ref:spurious"),
                        format!("texture {i} has no file name but its record references count {cnt} at {off}"),
                    );
                }
            }
        }
    }
    // events
    if let Some((c, o)) = slot("events")
        && c as usize == m.events.len()
        && !m.raw_data.event_data.is_empty()
    {
        for raw in &m.raw_data.event_data {
            let i = raw.event_index;
            let Some(ev) = m.events.get(i) else { continue };
            let base = o as usize + 44 * i + 28;
            let (Some(rg), Some(ts)) = (pair_at(b, base), pair_at(b, base + 8)) else {
                return fail(format!("{tag}m2-written-event-ref:record-outside-file"), format!("event {i}"));
            };
            if rg.0 != ev.ranges.count {
                return fail(
                    format!("{tag}m2-written-event-ref:ranges-count"),
                    format!("event {i} has {} ranges, its written record says {}", ev.ranges.count, rg.0),
                );
            }
            if ts.0 != ev.times.count {
                return fail(
                    format!("{tag}m2-written-event-ref:times-count"),
                    format!("event {i} has {} times, its written record says {}", ev.times.count, ts.0),
                );
            }
            if rg.0 > 0 && b.get(rg.1 as usize..rg.1 as usize + raw.ranges.len()) != Some(&raw.ranges[..]) {
                return fail(
                    format!("{tag}m2-written-event-ref:ranges-bytes"),
                    format!("event {i}: ranges are not stored at the referenced offset {}", rg.1),
                );
            }
            if ts.0 > 0 && b.get(ts.1 as usize..ts.1 as usize + raw.timestamps.len()) != Some(&raw.timestamps[..]) {
                return fail(
                    format!("{tag}m2-written-event-ref:times-bytes"),
                    format!("event {i}: times are not stored at the referenced offset {}", ts.1),
                );
            }
        }
    }
    // header counts
    let r = &m.raw_data;
    let mut want: Vec<(&str, usize)> = vec![
        ("name", m.name.as_ref().map(|n| n.len() + 1).unwrap_or(0)),
        ("global_sequences", m.global_sequences.len()),
        ("sequences", m.animations.len()),
        ("animation_lookup", m.animation_lookup.len()),
        ("bones", m.bones.len()),
        ("key_bone_lookup", m.key_bone_lookup.len()),
        ("vertices", m.vertices.len()),
        ("color_animations", m.color_animations.len()),
        ("textures", m.textures.len()),
        ("transparency_animations", m.transparency_animations.len()),
        ("texture_animations", m.texture_animations.len()),
        ("materials", m.materials.len()),
        ("bone_lookup_table", r.bone_lookup_table.len()),
        ("texture_lookup_table", r.texture_lookup_table.len()),
        ("texture_units", r.texture_units.len()),
        ("transparency_lookup_table", r.transparency_lookup_table.len()),
        ("texture_animation_lookup", r.texture_animation_lookup.len()),
        ("bounding_triangles", r.bounding_triangles.len() / 2),
        ("bounding_vertices", r.bounding_vertices.len() / 12),
        ("bounding_normals", r.bounding_normals.len() / 12),
        ("attachments", m.attachments.len()),
        ("attachment_lookup_table", r.attachment_lookup_table.len()),
        ("events", m.events.len()),
        ("lights", m.lights.len()),
        ("cameras", m.cameras.len()),
        ("camera_lookup_table", r.camera_lookup_table.len()),
        ("ribbon_emitters", m.ribbon_emitters.len()),
        ("particle_emitters", m.particle_emitters.len()),
    ];
    if vn <= 263 {
        want.push(("views", r.embedded_skins.len()));
    }
    for (n, w) in want {
        if let Some((c, _)) = slot(n)
            && c as usize != w
        {
            return fail(
                format!("{tag}m2-written-count:{n}"),
                format!("model has {w} {n} element(s), written header says {c}"),
            );
        }
    }
    Ok(())
}

/// parse(write(m)) == m on content; write(parse(write(m))) == write(m); layout is sound.
/// `tag` prefixes signatures ("" for generated models, "converted:" for converter output).
pub fn model_roundtrip(tag: &str, m: &M2Model, vn: u32) -> Result<Outcome, Fail> {
    let lenient = !tag.is_empty();
    let bytes = match write_model("m2-write", m)? {
        Ok(b) => b,
        Err(e) => return Ok(Outcome::Rejected(err_kind(&e))),
    };
    // independent structural judges first (they name causes; content differences name symptoms)
    let lay = match m2layout::walk_m2(&bytes) {
        Ok(x) => x,
        Err(e) => {
            return Err(Fail::new(
                format!("{tag}m2layout:unreadable-header"),
                format!("layout walker could not read the written header: {e}"),
            ));
        }
    };
    if lay.0.version != vn {
        return Err(Fail::new(
            format!("{tag}m2layout:version-field"),
            format!("header version field is {} for a version-{vn} model", lay.0.version),
        ));
    }
    refs_check(tag, m, vn, &bytes, &lay.0)?;
    if let Some(p) = lay.1.first() {
        return Err(Fail::new(format!("{tag}m2layout:{}", p.class), p.detail.clone()));
    }
    let parsed = match guard("m2-parse", || parse_m2(&mut Cursor::new(&bytes)))? {
        Ok(f) => f,
        Err(e) => {
            return Err(Fail::new(
                format!("{tag}m2-parse-error-after-write:{}", err_kind(&e)),
                format!("parse_m2(write(m)) failed for a version-{vn} model: {e}"),
            ));
        }
    };
    if !parsed.is_legacy() {
        return Err(Fail::new(
            format!("{tag}m2-parse-wrong-container"),
            "MD20 bytes were classified as chunked".to_string(),
        ));
    }
    let parsed = parsed.model().clone();
    let f = Fields::of(vn);
    let want = canon::model(m, &f, lenient);
    let got = canon::model(&parsed, &f, false);
    if let Some(d) = canon::diff_sections(&want, &got) {
        return Err(Fail::new(
            format!("{tag}m2-roundtrip-differs:{}", d.generic),
            format!(
                "version {vn}: parse(write(m)) differs at {}: written {} but parsed {}",
                d.path, d.want, d.got
            ),
        ));
    }
    // byte stability
    let bytes2 = match write_model("m2-rewrite", &parsed)? {
        Ok(b) => b,
        Err(e) => {
            return Err(Fail::new(
                format!("{tag}m2-rewrite-error:{}", err_kind(&e)),
                format!("writing the parsed model failed: {e}"),
            ));
        }
    };
    if let Some(pos) = first_diff(&bytes, &bytes2) {
        let region = match m2layout::first_gap(&lay.0, bytes.len() as u64) {
            Some((a, z, after)) => format!("unreferenced-bytes-after:{after} ({a}..{z})"),
            None if pos < bytes.len() => m2layout::locate(&lay.0, pos as u64),
            None => "length".to_string(),
        };
        let class = region.split(' ').next().unwrap_or("").to_string();
        return Err(Fail::new(
            format!("{tag}m2-rewrite-differs:{class}"),
            format!(
                "version {vn}: write(parse(write(m))) != write(m): first difference at byte {pos} ({} vs {} bytes), {region}",
                bytes.len(),
                bytes2.len()
            ),
        ));
    }
    Ok(Outcome::Checked)
}

#[derive(Clone, Debug, Serialize, Deserialize)]
pub struct ModelCase {
    pub spec: ModelSpec,
    pub target: Ver,
    /// true: `M2Converter::convert` (multi-step path), false: `M2Model::convert` (direct)
    pub via_converter: bool,
}

pub fn crosses_threshold(a: Ver, b: Ver) -> bool {
    // record sizes change at 256→260 (bone CRC, sequence), 260→264 (tracks, header), 264→272 (ribbon)
    a.num() != b.num()
}

pub struct ModelReport {
    pub rejected: Option<String>,
}

pub fn check_model(c: &ModelCase) -> Result<ModelReport, Fail> {
    let src = c.spec.ver;
    let mut m = build_model(&c.spec);
    if let Some(h) = c.spec.hdr_version {
        // an intermediate build number of the same version: written, parsed and re-written under that number
        // (conversions are defined between the named versions and are judged on the canonical numbers)
        m.header.version = h;
        return Ok(ModelReport { rejected: match model_roundtrip("intermediate-header-version:", &m, h)? { Outcome::Rejected(k) => Some(k), _ => None } });
    }
    if let Outcome::Rejected(k) = model_roundtrip("", &m, src.num())? {
        return Ok(ModelReport { rejected: Some(k) });
    }
    let base = write_model("m2-write", &m)?.expect("second write of an accepted model");

    // conversion to the model's own version changes nothing
    let mut same = vec![src];
    if src.num() == 272 {
        same = vec![Ver::Cata, Ver::MoP]; // both name header version 272
    }
    for tv in same {
        for via in [false, true] {
            let conv = guard("m2-convert", || {
                if via {
                    M2Converter::new().convert(&m, tv.m2())
                } else {
                    m.convert(tv.m2())
                }
            })?;
            let conv = match conv {
                Ok(c) => c,
                Err(e) => {
                    return fail2(
                        format!("m2-convert-same-version-error:{}", err_kind(&e)),
                        format!("convert({}→{}) failed: {e}", src.name(), tv.name()),
                    );
                }
            };
            let f = Fields::of(src.num());
            if let Some(d) = canon::diff_sections(&canon::model(&m, &f, false), &canon::model(&conv, &f, false)) {
                return fail2(
                    format!("m2-convert-same-version-changes:{}", d.generic),
                    format!(
                        "convert({}→{}) changed {}: {} → {}",
                        src.name(),
                        tv.name(),
                        d.path,
                        d.want,
                        d.got
                    ),
                );
            }
            match write_model("m2-write", &conv)? {
                Ok(b) if b == base => {}
                Ok(b) => {
                    let pos = first_diff(&base, &b).unwrap_or(0);
                    return fail2(
                        "m2-convert-same-version-changes-bytes".to_string(),
                        format!(
                            "write(convert({}→{})) differs from write(m) at byte {pos}",
                            src.name(),
                            tv.name()
                        ),
                    );
                }
                Err(e) => {
                    return fail2(
                        format!("m2-convert-same-version-unwritable:{}", err_kind(&e)),
                        format!("{e}"),
                    );
                }
            }
        }
    }

    // cross-version conversion keeps every field both versions have a slot for
    if c.target.num() != src.num() {
        let tgt = c.target;
        let pair = format!("{}->{}", src.name(), tgt.name());
        let conv = guard("m2-convert", || {
            if c.via_converter {
                M2Converter::new().convert(&m, tgt.m2())
            } else {
                m.convert(tgt.m2())
            }
        })?;
        let conv = match conv {
            Ok(c) => c,
            Err(e) => {
                return fail2(
                    format!("m2-convert-error:{}", err_kind(&e)),
                    format!("convert({pair}) failed: {e}"),
                );
            }
        };
        // the converted model is itself a model the library hands to its writer: full round trip
        // first (its structural judges name causes), then the comparison with the source
        if let Outcome::Rejected(k) = model_roundtrip("converted:", &conv, tgt.num())? {
            return fail2(
                format!("m2-converted-unwritable:{k}"),
                format!("convert({pair}) produced a model the writer rejects"),
            );
        }
        let bytes = write_model("m2-write", &conv)?.expect("second write of an accepted model");
        let parsed = match guard("m2-parse", || parse_m2(&mut Cursor::new(&bytes)))? {
            Ok(p) => p.model().clone(),
            Err(e) => {
                return fail2(
                    format!("m2-converted-parse-error:{}", err_kind(&e)),
                    format!("convert({pair}) → write → parse failed: {e}"),
                );
            }
        };
        if parsed.header.version != tgt.num() {
            return fail2(
                "m2-convert-wrong-version".to_string(),
                format!("convert({pair}) wrote header version {}", parsed.header.version),
            );
        }
        let f = Fields::common(src.num(), tgt.num());
        if let Some(d) = canon::diff_sections(&canon::model(&m, &f, false), &canon::model(&parsed, &f, false)) {
            return fail2(
                format!("m2-convert-loses:{}", d.generic),
                format!(
                    "convert({pair}) → write → parse: {} was {} and became {}",
                    d.path, d.want, d.got
                ),
            );
        }
    }
    Ok(ModelReport { rejected: None })
}

fn fail2<T>(sig: String, msg: String) -> Result<T, Fail> {
    Err(Fail::new(sig, msg))
}

// ---------------------------------------------------------------------------------------
// skins

#[derive(Clone, Debug, Default, Serialize, Deserialize)]
pub struct SkinSpec {
    /// None = old layout; Some(v) = new layout: header version v for 0 (Vanilla-era), 1 (Cataclysm), 2 (MoP), 3 (WoD),
    /// 4 (Legion); 5 = BfA (header version 4 plus centre fields)
    pub new_version: Option<u32>,
    pub indices: Vec<u16>,
    pub triangles: Vec<u16>,
    /// bone-index quadruples (4 bytes per vertex)
    pub bone_quads: Vec<[u8; 4]>,
    pub submeshes: Vec<u32>, // seeds
    pub batches: Vec<u32>,   // seeds
    pub bone_count_max: u32,
    pub vertex_count: u32,
    pub target: Ver,
}

pub fn build_skin(s: &SkinSpec) -> SkinFile {
    use wow_m2::skin::{OldSkinHeader, SkinBatch, SkinHeader, SkinSubmesh};
    let submeshes: Vec<SkinSubmesh> = s
        .submeshes
        .iter()
        .map(|&sd| {
            let mut g = Rg::new(sd);
            SkinSubmesh {
                id: g.u16(),
                level: g.u16(),
                vertex_start: g.u16(),
                vertex_count: g.u16(),
                triangle_start: g.u16(),
                triangle_count: g.u16(),
                bone_count: g.u16(),
                bone_start: g.u16(),
                bone_influence: g.u16(),
                center: [g.f(), g.f(), g.f()],
                sort_center: [g.f(), g.f(), g.f()],
                bounding_radius: g.f(),
            }
        })
        .collect();
    let batches: Vec<SkinBatch> = s
        .batches
        .iter()
        .map(|&sd| {
            let mut g = Rg::new(sd);
            SkinBatch {
                flags: g.u8(),
                priority_plane: g.u8() as i8,
                shader_id: g.u16(),
                skin_section_index: g.u16(),
                geoset_index: g.u16(),
                color_index: g.u16(),
                material_index: g.u16(),
                material_layer: g.u16(),
                texture_count: g.u16(),
                texture_combo_index: g.u16(),
                texture_coord_combo_index: g.u16(),
                texture_weight_combo_index: g.u16(),
                texture_transform_combo_index: g.u16(),
            }
        })
        .collect();
    let bone_indices: Vec<u8> = s.bone_quads.iter().flatten().copied().collect();
    match s.new_version {
        None => {
            let mut header = OldSkinHeader::new();
            header.bone_count_max = s.bone_count_max;
            SkinFile::Old(OldSkin {
                header,
                indices: s.indices.clone(),
                triangles: s.triangles.clone(),
                bone_indices,
                submeshes,
                batches,
            })
        }
        Some(v) => {
            let mv = match v {
                0 => wow_m2::M2Version::WotLK,
                1 => wow_m2::M2Version::Cataclysm,
                2 => wow_m2::M2Version::MoP,
                3 => wow_m2::M2Version::WoD,
                4 => wow_m2::M2Version::Legion,
                // header version 4 again, with the centre position / bounds fields behind the arrays
                _ => wow_m2::M2Version::BfA,
            };
            let mut header = SkinHeader::new(mv);
            header.vertex_count = s.vertex_count;
            SkinFile::New(Skin {
                header,
                indices: s.indices.clone(),
                triangles: s.triangles.clone(),
                bone_indices,
                submeshes,
                batches,
            })
        }
    }
}

fn write_skin(entry: &str, s: &SkinFile) -> Result<Result<Vec<u8>, M2Error>, Fail> {
    let r = guard(entry, || {
        let mut c = Cursor::new(Vec::new());
        s.write(&mut c).map(|_| c.into_inner())
    })?;
    if let Ok(fresh) = &r {
        reused_sink_checks!(entry, s, fresh, "skin");
    }
    Ok(r)
}

fn parse_skin_typed(b: &[u8], new_layout: bool) -> Result<Result<SkinFile, M2Error>, Fail> {
    guard("skin-parse", || {
        let mut c = Cursor::new(b);
        if new_layout {
            Skin::parse(&mut c).map(SkinFile::New)
        } else {
            OldSkin::parse(&mut c).map(SkinFile::Old)
        }
    })
}

fn skin_roundtrip(tag: &str, s: &SkinFile) -> Result<Outcome, Fail> {
    let new_layout = s.is_new_format();
    let lname = if new_layout { "new" } else { "old" };
    let bytes = match write_skin("skin-write", s)? {
        Ok(b) => b,
        Err(e) => return Ok(Outcome::Rejected(err_kind(&e))),
    };
    // independent structural judge first
    match m2layout::walk_skin(&bytes, new_layout) {
        Err(e) => return fail2(format!("{tag}skinlayout:unreadable-header"), e),
        Ok((_, problems)) => {
            if let Some(p) = problems.first() {
                return fail2(format!("{tag}skinlayout:{}", p.class), format!("{lname}-layout skin: {}", p.detail));
            }
        }
    }
    let parsed = match parse_skin_typed(&bytes, new_layout)? {
        Ok(p) => p,
        Err(e) => {
            return fail2(
                format!("{tag}skin-parse-error-after-write:{lname}:{}", err_kind(&e)),
                format!("{lname}-layout skin: parse(write(s)) failed: {e}"),
            );
        }
    };
    if let Some(d) = canon::diff(&canon::skin(s), &canon::skin(&parsed)) {
        return fail2(
            format!("{tag}skin-roundtrip-differs:{lname}:{}", d.generic),
            format!(
                "{lname}-layout skin: parse(write(s)) differs at {}: written {} parsed {}",
                d.path, d.want, d.got
            ),
        );
    }
    // format auto-detection (the two layouts share the magic; the second word decides: a value
    // <= 4 is read as the version field of the new layout). Old-layout files with fewer than
    // five indices are therefore inherently ambiguous and only checked through the typed parser.
    let ambiguous = !new_layout && s.indices().len() <= 4;
    if !ambiguous {
        match guard("skin-parse-auto", || SkinFile::parse(&mut Cursor::new(&bytes)))? {
            Ok(p) => {
                if let Some(d) = canon::diff(&canon::skin(s), &canon::skin(&p)) {
                    return fail2(
                        format!("{tag}skin-autodetect-differs:{lname}:{}", d.generic),
                        format!("SkinFile::parse: {} written {} parsed {}", d.path, d.want, d.got),
                    );
                }
            }
            Err(e) => {
                return fail2(
                    format!("{tag}skin-autodetect-error:{lname}:{}", err_kind(&e)),
                    format!("SkinFile::parse(write(s)) failed: {e}"),
                );
            }
        }
    }
    let bytes2 = match write_skin("skin-rewrite", &parsed)? {
        Ok(b) => b,
        Err(e) => return fail2(format!("{tag}skin-rewrite-error:{}", err_kind(&e)), format!("{e}")),
    };
    if let Some(pos) = first_diff(&bytes, &bytes2) {
        return fail2(
            format!("{tag}skin-rewrite-differs:{lname}"),
            format!("write(parse(write(s))) != write(s) at byte {pos}"),
        );
    }
    Ok(Outcome::Checked)
}

pub fn check_skin(s: &SkinSpec) -> Result<Option<String>, Fail> {
    let skin = build_skin(s);
    if let Outcome::Rejected(k) = skin_roundtrip("", &skin)? {
        return Ok(Some(k));
    }
    // conversion: mesh data is kept whatever the target; a target that uses the same layout and
    // version changes nothing
    let tgt = s.target;
    let conv = match guard("skin-convert", || skin.convert(tgt.m2()))? {
        Ok(c) => c,
        Err(e) => {
            return fail2(
                format!("skin-convert-error:{}", err_kind(&e)),
                format!("SkinFile::convert({}) failed: {e}", tgt.name()),
            );
        }
    };
    let want_new = tgt.num() >= 272;
    if conv.is_new_format() != want_new {
        return fail2(
            "skin-convert-wrong-layout".to_string(),
            format!("convert({}) produced the {} layout", tgt.name(), if want_new { "old" } else { "new" }),
        );
    }
    if let Some(d) = canon::diff(&canon::skin_mesh(&skin), &canon::skin_mesh(&conv)) {
        return fail2(
            format!("skin-convert-loses:{}", d.generic),
            format!("convert({}): {} was {} became {}", tgt.name(), d.path, d.want, d.got),
        );
    }
    let same_version = match (&skin, tgt) {
        (SkinFile::Old(_), Ver::Vanilla | Ver::TBC | Ver::WotLK) => true,
        (SkinFile::New(n), Ver::Cata) => n.header.version == 1,
        (SkinFile::New(n), Ver::MoP) => n.header.version == 2,
        _ => false,
    };
    if same_version {
        if let Some(d) = canon::diff(&canon::skin(&skin), &canon::skin(&conv)) {
            return fail2(
                format!("skin-convert-same-version-changes:{}", d.generic),
                format!("{} was {} became {}", d.path, d.want, d.got),
            );
        }
        let a = write_skin("skin-write", &skin)?.ok();
        let b = write_skin("skin-write-converted", &conv)?.ok();
        if a != b {
            return fail2(
                "skin-convert-same-version-changes-bytes".to_string(),
                "write(convert(s, same version)) != write(s)".to_string(),
            );
        }
    }
    // converted skin → write → parse keeps the mesh
    let bytes = match write_skin("skin-write-converted", &conv)? {
        Ok(b) => b,
        Err(e) => return fail2(format!("skin-converted-unwritable:{}", err_kind(&e)), format!("{e}")),
    };
    match parse_skin_typed(&bytes, conv.is_new_format())? {
        Ok(p) => {
            if let Some(d) = canon::diff(&canon::skin_mesh(&skin), &canon::skin_mesh(&p)) {
                return fail2(
                    format!("skin-convert-write-parse-loses:{}", d.generic),
                    format!("convert({}) → write → parse: {} was {} became {}", tgt.name(), d.path, d.want, d.got),
                );
            }
        }
        Err(e) => {
            return fail2(
                format!("skin-converted-parse-error:{}", err_kind(&e)),
                format!("{e}"),
            );
        }
    }
    Ok(None)
}

// ---------------------------------------------------------------------------------------
// anim files

#[derive(Clone, Debug, Default, Serialize, Deserialize)]
pub struct AnimBoneSpec {
    pub bone_id: u32,
    /// key counts for translation / rotation / scaling (None = track absent)
    pub t: Option<u16>,
    pub r: Option<u16>,
    pub s: Option<u16>,
    pub seed: u32,
}

#[derive(Clone, Debug, Default, Serialize, Deserialize)]
pub struct AnimSectionSpec {
    pub id: u32,
    pub start: u32,
    pub end: u32,
    pub bones: Vec<AnimBoneSpec>,
}

#[derive(Clone, Debug, Default, Serialize, Deserialize)]
pub struct AnimSpec {
    pub modern: bool,
    pub version: u32,
    pub unknown: u32,
    pub sections: Vec<AnimSectionSpec>,
}

pub fn build_anim(s: &AnimSpec) -> AnimFile {
    use wow_m2::anim::*;
    use wow_m2::common::Quaternion;
    let sections: Vec<AnimSection> = s
        .sections
        .iter()
        .map(|sec| AnimSection {
            header: AnimSectionHeader {
                magic: *b"AFID",
                id: sec.id,
                start: sec.start,
                end: sec.end,
            },
            bone_animations: sec
                .bones
                .iter()
                .map(|b| {
                    let mut g = Rg::new(b.seed);
                    let ts = |g: &mut Rg, n: u16| (0..n).map(|_| g.u32()).collect::<Vec<u32>>();
                    AnimBoneAnimation {
                        bone_id: b.bone_id,
                        translation: b.t.map(|n| AnimTranslation {
                            timestamps: ts(&mut g, n),
                            translations: (0..n).map(|_| g.v3()).collect(),
                        }),
                        rotation: b.r.map(|n| AnimRotation {
                            timestamps: ts(&mut g, n),
                            rotations: (0..n)
                                .map(|_| Quaternion {
                                    x: g.f(),
                                    y: g.f(),
                                    z: g.f(),
                                    w: g.f(),
                                })
                                .collect(),
                        }),
                        scaling: b.s.map(|n| AnimScaling {
                            timestamps: ts(&mut g, n),
                            scalings: (0..n).map(|_| g.v3()).collect(),
                        }),
                    }
                })
                .collect(),
        })
        .collect();
    if s.modern {
        AnimFile {
            format: AnimFormat::Modern,
            metadata: AnimMetadata::Modern {
                header: AnimHeader {
                    magic: ANIM_MAGIC,
                    version: s.version,
                    id_count: sections.len() as u32,
                    unknown: s.unknown,
                    anim_entry_offset: 20,
                },
                entries: sections
                    .iter()
                    .map(|x| AnimEntry {
                        id: x.header.id,
                        offset: 0,
                        size: 0,
                    })
                    .collect(),
            },
            sections,
        }
    } else {
        AnimFile {
            format: AnimFormat::Legacy,
            metadata: AnimMetadata::Legacy {
                file_size: 0,
                animation_count: sections.len() as u32,
                structure_hints: LegacyStructureHints {
                    appears_valid: true,
                    estimated_blocks: sections.len() as u32,
                    has_timestamps: false,
                },
            },
            sections,
        }
    }
}

fn write_anim(entry: &str, a: &AnimFile) -> Result<Result<Vec<u8>, M2Error>, Fail> {
    let r = guard(entry, || {
        let mut c = Cursor::new(Vec::new());
        a.write(&mut c).map(|_| c.into_inner())
    })?;
    if let Ok(fresh) = &r {
        reused_sink_checks!(entry, a, fresh, "anim");
    }
    Ok(r)
}

pub fn check_anim(s: &AnimSpec) -> Result<Option<String>, Fail> {
    let a = build_anim(s);
    let fname = if s.modern { "modern" } else { "legacy" };
    let bytes = match write_anim("anim-write", &a)? {
        Ok(b) => b,
        Err(e) => return Ok(Some(err_kind(&e))),
    };
    let parsed = match guard("anim-parse", || AnimFile::parse(&mut Cursor::new(&bytes)))? {
        Ok(p) => p,
        Err(e) => {
            return fail2(
                format!("anim-parse-error-after-write:{fname}:{}", err_kind(&e)),
                format!("{fname} anim file: parse(write(a)) failed: {e}"),
            );
        }
    };
    if let Some(d) = canon::diff(&canon::anim(&a), &canon::anim(&parsed)) {
        return fail2(
            format!("anim-roundtrip-differs:{fname}:{}", d.generic),
            format!(
                "{fname} anim file: parse(write(a)) differs at {}: written {} parsed {}",
                d.path, d.want, d.got
            ),
        );
    }
    let bytes2 = match write_anim("anim-rewrite", &parsed)? {
        Ok(b) => b,
        Err(e) => return fail2(format!("anim-rewrite-error:{fname}:{}", err_kind(&e)), format!("{e}")),
    };
    if let Some(pos) = first_diff(&bytes, &bytes2) {
        return fail2(
            format!("anim-rewrite-differs:{fname}"),
            format!("write(parse(write(a))) != write(a) at byte {pos}"),
        );
    }
    // conversion to every version of the same container format changes nothing
    for v in Ver::ALL {
        let c = guard("anim-convert", || a.convert(v.m2()))?;
        if !s.modern {
            if let Some(d) = canon::diff(&canon::anim(&a), &canon::anim(&c)) {
                return fail2(
                    format!("anim-convert-same-format-changes:{}", d.generic),
                    format!("convert({}) changed {}: {} → {}", v.name(), d.path, d.want, d.got),
                );
            }
        } else {
            // modern → legacy container: the sections are the content both carry
            let (w, g) = (canon::anim(&a), canon::anim(&c));
            if let Some(d) = canon::diff(&w["sections"], &g["sections"]) {
                return fail2(
                    format!("anim-convert-loses:sections{}", d.generic),
                    format!("convert({}) changed sections{}: {} → {}", v.name(), d.path, d.want, d.got),
                );
            }
        }
    }
    Ok(None)
}
