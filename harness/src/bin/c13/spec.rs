//! Case descriptions (plain, serialisable) and the deterministic builders that turn them into
//! library objects through the public API only. A replay file stores a spec; the builder is the
//! only thing between the JSON and the oracle (no proptest involved).
//!
//! Scalar fields of records are derived from a per-record `seed` with a tiny splitmix stream that
//! is biased towards extreme values (±0, denormals, ±inf, NaN payloads, f32::MAX, u32::MAX …);
//! seed 0 yields the all-zero record so that shrunk cases stay readable.

use serde::{Deserialize, Serialize};
use std::io::Cursor;
use wow_m2::chunks::animation::{
    M2Animation, M2AnimationBlock, M2AnimationTrack, M2InterpolationType, M2Range,
};
use wow_m2::chunks::bone::{M2Bone, M2BoneFlags};
use wow_m2::chunks::camera::{M2Camera, M2CameraFlags};
use wow_m2::chunks::color_animation::{M2Color, M2ColorAnimation};
use wow_m2::chunks::event::M2Event;
use wow_m2::chunks::light::{M2Light, M2LightFlags, M2LightType};
use wow_m2::chunks::m2_track::{M2CompQuat, M2Track, M2TrackBase};
use wow_m2::chunks::material::{M2BlendMode, M2Material, M2RenderFlags};
use wow_m2::chunks::particle_emitter::{M2ParticleEmitter, M2ParticleEmitterType, M2ParticleFlags};
use wow_m2::chunks::ribbon_emitter::M2RibbonEmitter;
use wow_m2::chunks::texture::{M2Texture, M2TextureFlags, M2TextureType};
use wow_m2::chunks::texture_animation::{M2TextureAnimation, M2TextureAnimationType};
use wow_m2::chunks::transparency_animation::M2TransparencyAnimation;
use wow_m2::chunks::vertex::M2Vertex;
use wow_m2::chunks::M2Attachment;
use wow_m2::common::{C2Vector, C3Vector, FixedString, M2Array, M2ArrayString, M2Parse, M2Vec};
use wow_m2::header::{M2Header, M2ModelFlags};
use wow_m2::model::*;
use wow_m2::{M2Model, M2Version};

#[derive(Clone, Copy, Debug, PartialEq, Eq, PartialOrd, Ord, Serialize, Deserialize)]
pub enum Ver {
    Vanilla,
    TBC,
    WotLK,
    Cata,
    MoP,
}

impl Default for Ver {
    fn default() -> Self {
        Ver::WotLK
    }
}

impl Ver {
    pub const ALL: [Ver; 5] = [Ver::Vanilla, Ver::TBC, Ver::WotLK, Ver::Cata, Ver::MoP];
    pub fn m2(self) -> M2Version {
        match self {
            Ver::Vanilla => M2Version::Vanilla,
            Ver::TBC => M2Version::TBC,
            Ver::WotLK => M2Version::WotLK,
            Ver::Cata => M2Version::Cataclysm,
            Ver::MoP => M2Version::MoP,
        }
    }
    /// on-disk version number (format documentation: 256 / 260 / 264 / 272 / 272)
    pub fn num(self) -> u32 {
        match self {
            Ver::Vanilla => 256,
            Ver::TBC => 260,
            Ver::WotLK => 264,
            Ver::Cata | Ver::MoP => 272,
        }
    }
    pub fn name(self) -> &'static str {
        match self {
            Ver::Vanilla => "vanilla",
            Ver::TBC => "tbc",
            Ver::WotLK => "wotlk",
            Ver::Cata => "cata",
            Ver::MoP => "mop",
        }
    }
}

// ---------------------------------------------------------------------------------------
// deterministic value stream

pub struct Rg {
    s: u64,
    zero: bool,
}

impl Rg {
    pub fn new(seed: u32) -> Self {
        Rg {
            s: (seed as u64).wrapping_mul(0x9E37_79B9_7F4A_7C15) ^ 0xC13C_13C1_3C13_C13C,
            zero: seed == 0,
        }
    }
    pub fn u64(&mut self) -> u64 {
        if self.zero {
            return 0;
        }
        self.s = self.s.wrapping_add(0x9E37_79B9_7F4A_7C15);
        let mut z = self.s;
        z = (z ^ (z >> 30)).wrapping_mul(0xBF58_476D_1CE4_E5B9);
        z = (z ^ (z >> 27)).wrapping_mul(0x94D0_49BB_1331_11EB);
        z ^ (z >> 31)
    }
    /// u32 biased towards boundary values
    pub fn u32(&mut self) -> u32 {
        let r = self.u64();
        match r % 8 {
            0 => 0,
            1 => u32::MAX,
            2 => (r >> 8) as u32 & 0xFF,
            3 => 0x8000_0000,
            _ => (r >> 16) as u32,
        }
    }
    pub fn u16(&mut self) -> u16 {
        let r = self.u64();
        match r % 6 {
            0 => 0,
            1 => u16::MAX,
            2 => 0x8000,
            _ => (r >> 16) as u16,
        }
    }
    pub fn u8(&mut self) -> u8 {
        (self.u64() >> 20) as u8
    }
    /// f32 bit pattern biased towards awkward values (NaN included)
    pub fn fbits(&mut self) -> u32 {
        let r = self.u64();
        if self.zero {
            return 0;
        }
        match r % 16 {
            0 => 0,
            1 => 0x8000_0000,                 // -0.0
            2 => 1.0f32.to_bits(),
            3 => (-1.0f32).to_bits(),
            4 => f32::MIN_POSITIVE.to_bits(),
            5 => 1,                           // smallest denormal
            6 => f32::MAX.to_bits(),
            7 => f32::MIN.to_bits(),
            8 => f32::INFINITY.to_bits(),
            9 => f32::NEG_INFINITY.to_bits(),
            10 => 0x7FC0_0000,                // quiet NaN
            11 => 0xFF80_0001,                // signalling NaN with payload
            12 | 13 | 14 => (((r >> 16) as i32) as f32 / 65536.0).to_bits(),
            _ => (r >> 16) as u32,
        }
    }
    pub fn f(&mut self) -> f32 {
        f32::from_bits(self.fbits())
    }
    /// like `f` but never NaN (for fields the parser documents as NaN-sanitised)
    pub fn f_nonan(&mut self) -> f32 {
        let v = self.f();
        if v.is_nan() { 0.5 } else { v }
    }
    pub fn v3(&mut self) -> C3Vector {
        C3Vector {
            x: self.f(),
            y: self.f(),
            z: self.f(),
        }
    }
    pub fn v2(&mut self) -> C2Vector {
        C2Vector {
            x: self.f(),
            y: self.f(),
        }
    }
    pub fn bytes(&mut self, n: usize) -> Vec<u8> {
        let mut v = Vec::with_capacity(n);
        while v.len() < n {
            let r = self.u64().to_le_bytes();
            let take = (n - v.len()).min(8);
            v.extend_from_slice(&r[..take]);
        }
        v
    }
}

// ---------------------------------------------------------------------------------------
// model spec

/// key-frame payload attached to one animation track
#[derive(Clone, Debug, Default, PartialEq, Serialize, Deserialize)]
pub struct Keys {
    pub interp: u8,
    pub gseq: u16,
    /// interpolation ranges (blocks) / pre-WotLK ranges (bone tracks)
    pub n_rng: u8,
    pub n_ts: u8,
    pub n_val: u8,
    pub seed: u32,
    /// share the raw arrays of the previous keyed track of the same kind (same original
    /// offsets, same bytes) — models what a parsed file with shared key-frame data looks like
    #[serde(default)]
    pub share_prev: bool,
}

impl Keys {
    pub fn live(k: &Option<Keys>) -> Option<&Keys> {
        k.as_ref().filter(|k| k.n_ts > 0 || k.n_val > 0)
    }
}

#[derive(Clone, Debug, Default, Serialize, Deserialize)]
pub struct SeqSpec {
    pub seed: u32,
    pub start: u32,
}

#[derive(Clone, Debug, Default, Serialize, Deserialize)]
pub struct BoneSpec {
    pub seed: u32,
    pub parent: i16,
    pub t: Option<Keys>,
    pub r: Option<Keys>,
    pub s: Option<Keys>,
}

#[derive(Clone, Debug, Default, Serialize, Deserialize)]
pub struct VertexSpec {
    pub seed: u32,
    pub weights: [u8; 4],
    pub indices: [u8; 4],
    pub tc2: bool,
}

#[derive(Clone, Debug, Default, Serialize, Deserialize)]
pub struct TexSpec {
    pub ty: u32,
    pub flags: u32,
    /// None = hard-coded texture without file name (count 0, offset 0)
    pub filename: Option<String>,
}

#[derive(Clone, Debug, Default, Serialize, Deserialize)]
pub struct Animated {
    pub seed: u32,
    pub k: Vec<Option<Keys>>,
}

#[derive(Clone, Debug, Default, Serialize, Deserialize)]
pub struct EventSpec {
    pub seed: u32,
    pub n_rng: u8,
    pub n_ts: u8,
    pub kseed: u32,
}

#[derive(Clone, Debug, Default, Serialize, Deserialize)]
pub struct EmbSkinSpec {
    pub n_idx: u8,
    pub n_tri: u8,
    pub n_prop: u8,
    pub n_sub: u8,
    pub n_batch: u8,
    pub bone_count_max: u32,
    pub seed: u32,
}

#[derive(Clone, Debug, Default, Serialize, Deserialize)]
pub struct ModelSpec {
    pub ver: Ver,
    /// header version number written instead of the version's canonical one (257..259 are Vanilla, 261..263
    /// TBC, 265..271 WotLK builds: the library accepts them and picks record layouts by thresholds)
    #[serde(default)]
    pub hdr_version: Option<u32>,
    pub name: Option<String>,
    pub flags: u32,
    pub hdr_seed: u32,
    pub num_skin_profiles: u32,
    pub global_sequences: Vec<u32>,
    pub sequences: Vec<SeqSpec>,
    pub animation_lookup: Vec<u16>,
    pub bones: Vec<BoneSpec>,
    pub key_bone_lookup: Vec<u16>,
    pub vertices: Vec<VertexSpec>,
    pub textures: Vec<TexSpec>,
    pub materials: Vec<(u16, u16)>,
    /// bone_lookup, texture_lookup, texture_units, transparency_lookup_table,
    /// texture_animation_lookup, attachment_lookup, camera_lookup
    pub lookups: Vec<Vec<u16>>,
    pub bounding_triangles: Vec<u16>,
    pub bounding_vertices: Vec<u32>, // seeds, one per C3Vector
    pub bounding_normals: Vec<u32>,
    pub attachments: Vec<Animated>,  // 1 track
    pub events: Vec<EventSpec>,
    pub lights: Vec<Animated>,       // 5 tracks
    pub cameras: Vec<Animated>,      // 3 tracks
    pub ribbons: Vec<Animated>,      // 4 tracks
    pub particles: Vec<Animated>,    // 10 tracks
    pub tex_anims: Vec<Animated>,    // 5 tracks
    pub color_anims: Vec<Animated>,  // 2 tracks
    pub transp_anims: Vec<Animated>, // 1 track
    pub embedded_skins: Vec<EmbSkinSpec>,
}

pub const LOOKUP_NAMES: [&str; 7] = [
    "bone_lookup_table",
    "texture_lookup_table",
    "texture_units",
    "transparency_lookup_table",
    "texture_animation_lookup",
    "attachment_lookup_table",
    "camera_lookup_table",
];

impl ModelSpec {
    /// names of populated variable-size sections
    pub fn populated(&self) -> Vec<&'static str> {
        let mut v = vec![];
        let mut p = |c: bool, n: &'static str| {
            if c {
                v.push(n)
            }
        };
        p(self.name.is_some(), "name");
        p(!self.global_sequences.is_empty(), "global_sequences");
        p(!self.sequences.is_empty(), "sequences");
        p(!self.animation_lookup.is_empty(), "animation_lookup");
        p(!self.bones.is_empty(), "bones");
        p(!self.key_bone_lookup.is_empty(), "key_bone_lookup");
        p(!self.vertices.is_empty(), "vertices");
        p(!self.textures.is_empty(), "textures");
        p(!self.materials.is_empty(), "materials");
        for (i, n) in LOOKUP_NAMES.iter().enumerate() {
            p(self.lookups.get(i).is_some_and(|l| !l.is_empty()), n);
        }
        p(!self.bounding_triangles.is_empty(), "bounding_triangles");
        p(!self.bounding_vertices.is_empty(), "bounding_vertices");
        p(!self.bounding_normals.is_empty(), "bounding_normals");
        p(!self.attachments.is_empty(), "attachments");
        p(!self.events.is_empty(), "events");
        p(!self.lights.is_empty(), "lights");
        p(!self.cameras.is_empty(), "cameras");
        p(!self.ribbons.is_empty(), "ribbons");
        p(!self.particles.is_empty(), "particles");
        p(!self.tex_anims.is_empty(), "tex_anims");
        p(!self.color_anims.is_empty(), "color_anims");
        p(!self.transp_anims.is_empty(), "transp_anims");
        p(
            !self.embedded_skins.is_empty() && self.ver.num() <= 263,
            "embedded_skins",
        );
        v
    }
    pub fn has_keys(&self) -> bool {
        let any = |v: &Vec<Animated>| v.iter().any(|a| a.k.iter().any(|k| Keys::live(k).is_some()));
        self.bones
            .iter()
            .any(|b| Keys::live(&b.t).is_some() || Keys::live(&b.r).is_some() || Keys::live(&b.s).is_some())
            || any(&self.attachments)
            || any(&self.lights)
            || any(&self.cameras)
            || any(&self.ribbons)
            || any(&self.particles)
            || any(&self.tex_anims)
            || any(&self.color_anims)
            || any(&self.transp_anims)
            || self.events.iter().any(|e| e.n_rng > 0 || e.n_ts > 0)
    }
}

// ---------------------------------------------------------------------------------------
// builders

struct Ctx {
    next: u32,
    /// last keyed raw arrays per kind (for share_prev): (ts_off, val_off, rng_off, ts, vals, rng)
    last: Option<Shared>,
}

#[derive(Clone)]
struct Shared {
    n_rng: u8,
    n_ts: u8,
    n_val: u8,
    elem: usize,
    ts_off: u32,
    val_off: u32,
    rng_off: u32,
    ts: Vec<u8>,
    vals: Vec<u8>,
    rng: Vec<u8>,
}

impl Ctx {
    fn new() -> Self {
        Ctx {
            next: 0x0100_0000,
            last: None,
        }
    }
    /// a unique, non-zero "original offset" (what a parsed model carries; any unique value
    /// behaves the same for the writer)
    fn fake(&mut self) -> u32 {
        self.next += 0x1000;
        self.next
    }
    fn payload(&mut self, k: &Keys, elem: usize, with_rng: bool) -> Shared {
        if k.share_prev
            && let Some(l) = &self.last
            && l.elem == elem
        {
            return l.clone();
        }
        let mut rg = Rg::new(k.seed);
        let n_rng = if with_rng { k.n_rng } else { 0 };
        let s = Shared {
            n_rng,
            n_ts: k.n_ts,
            n_val: k.n_val,
            elem,
            ts_off: if k.n_ts > 0 { self.fake() } else { 0 },
            val_off: if k.n_val > 0 { self.fake() } else { 0 },
            rng_off: if n_rng > 0 { self.fake() } else { 0 },
            ts: rg.bytes(4 * k.n_ts as usize),
            vals: rg.bytes(elem * k.n_val as usize),
            rng: rg.bytes(8 * n_rng as usize),
        };
        self.last = Some(s.clone());
        s
    }
}

fn interp(v: u8) -> M2InterpolationType {
    M2InterpolationType::from_u16((v % 4) as u16).unwrap()
}

fn bone_track<T>(
    ctx: &mut Ctx,
    k: &Option<Keys>,
    vn: u32,
    elem: usize,
    bone_index: usize,
    tt: TrackType,
    raw: &mut Vec<BoneAnimationRaw>,
) -> M2Track<T> {
    let Some(k) = Keys::live(k) else {
        return M2Track::new();
    };
    let p = ctx.payload(k, elem, vn < 264);
    let t = M2Track {
        base: M2TrackBase {
            interpolation_type: interp(k.interp),
            global_sequence: k.gseq,
        },
        ranges: if vn < 264 {
            Some(M2Array::new(p.n_rng as u32, p.rng_off))
        } else {
            None
        },
        timestamps: M2Array::new(p.n_ts as u32, p.ts_off),
        values: M2Array::new(p.n_val as u32, p.val_off),
    };
    raw.push(BoneAnimationRaw {
        bone_index,
        track_type: tt,
        timestamps: p.ts.clone(),
        values: p.vals.clone(),
        ranges: if p.n_rng > 0 { Some(p.rng.clone()) } else { None },
        original_timestamps_offset: p.ts_off,
        original_values_offset: p.val_off,
        original_ranges_offset: if p.n_rng > 0 { Some(p.rng_off) } else { None },
    });
    t
}

/// raw arrays of one animation block: (ranges, timestamps, values, original offsets)
pub struct BlockRaw {
    pub rng: Vec<u8>,
    pub ts: Vec<u8>,
    pub vals: Vec<u8>,
    pub rng_off: u32,
    pub ts_off: u32,
    pub val_off: u32,
}

fn block<T: M2Parse + Default + Clone>(
    ctx: &mut Ctx,
    k: Option<&Option<Keys>>,
    elem: usize,
) -> (M2AnimationBlock<T>, Option<BlockRaw>) {
    let Some(k) = k.and_then(Keys::live) else {
        return (M2AnimationBlock::new(M2AnimationTrack::default()), None);
    };
    let p = ctx.payload(k, elem, true);
    let mut data = Vec::new();
    let mut c = Cursor::new(&p.vals[..]);
    for _ in 0..p.n_val {
        data.push(T::parse(&mut c).expect("typed value from generated bytes"));
    }
    let track = M2AnimationTrack {
        interpolation_type: interp(k.interp),
        global_sequence: k.gseq as i16,
        interpolation_ranges: M2Array::new(p.n_rng as u32, p.rng_off),
        timestamps: M2Array::new(p.n_ts as u32, p.ts_off),
        values: M2Vec {
            array: M2Array::new(p.n_val as u32, p.val_off),
            data,
        },
    };
    (
        M2AnimationBlock::new(track),
        Some(BlockRaw {
            rng: p.rng.clone(),
            ts: p.ts.clone(),
            vals: p.vals.clone(),
            rng_off: p.rng_off,
            ts_off: p.ts_off,
            val_off: p.val_off,
        }),
    )
}

macro_rules! push_raw {
    ($vec:expr, $ty:ident, $idxf:ident, $idx:expr, $tt:expr, $r:expr) => {
        if let Some(r) = $r {
            $vec.push($ty {
                $idxf: $idx,
                track_type: $tt,
                interpolation_ranges: r.rng,
                timestamps: r.ts,
                values: r.vals,
                original_ranges_offset: r.rng_off,
                original_timestamps_offset: r.ts_off,
                original_values_offset: r.val_off,
            });
        }
    };
}

pub fn build_sequence(s: &SeqSpec, vn: u32) -> M2Animation {
    let mut g = Rg::new(s.seed);
    let animation_id = g.u16();
    let sub_animation_id = g.u16();
    let movement_speed = g.f();
    let flags = g.u32();
    let frequency = g.u16() as i16;
    let padding = g.u16();
    if vn <= 256 {
        M2Animation {
            animation_id,
            sub_animation_id,
            start_timestamp: s.start,
            end_timestamp: Some(g.u32()),
            movement_speed,
            flags,
            frequency,
            padding,
            replay: Some(M2Range {
                minimum: g.f(),
                maximum: g.f(),
            }),
            minimum_extent: None,
            maximum_extent: None,
            extent_radius: None,
            next_animation: None,
            aliasing: None,
        }
    } else {
        M2Animation {
            animation_id,
            sub_animation_id,
            start_timestamp: s.start,
            end_timestamp: None,
            movement_speed,
            flags,
            frequency,
            padding,
            replay: None,
            minimum_extent: Some([g.f(), g.f(), g.f()]),
            maximum_extent: Some([g.f(), g.f(), g.f()]),
            extent_radius: Some(g.f()),
            next_animation: Some(g.u16() as i16),
            aliasing: Some(g.u16()),
        }
    }
}

fn tex_type(v: u32) -> M2TextureType {
    M2TextureType::from_u32(v).unwrap_or(M2TextureType::Unknown)
}

fn light_type(v: u8) -> M2LightType {
    M2LightType::from_u8(v % 4).unwrap()
}

pub fn build_model(s: &ModelSpec) -> M2Model {
    let vn = s.ver.num();
    let mut ctx = Ctx::new();
    let mut m = M2Model::default();
    m.header = M2Header::new(s.ver.m2());
    m.header.flags = M2ModelFlags::from_bits_retain(s.flags);
    {
        let mut g = Rg::new(s.hdr_seed);
        for i in 0..3 {
            m.header.bounding_box_min[i] = g.f();
        }
        for i in 0..3 {
            m.header.bounding_box_max[i] = g.f();
        }
        m.header.bounding_sphere_radius = g.f();
        for i in 0..3 {
            m.header.collision_box_min[i] = g.f();
        }
        for i in 0..3 {
            m.header.collision_box_max[i] = g.f();
        }
        m.header.collision_sphere_radius = g.f();
    }
    if vn > 263 {
        m.header.num_skin_profiles = Some(s.num_skin_profiles);
    }
    m.name = s.name.clone();
    m.global_sequences = s.global_sequences.clone();
    m.animations = s.sequences.iter().map(|q| build_sequence(q, vn)).collect();
    m.animation_lookup = s.animation_lookup.clone();

    // bones
    for (i, b) in s.bones.iter().enumerate() {
        let mut g = Rg::new(b.seed);
        ctx.last = if i == 0 { None } else { ctx.last.take() };
        let translation =
            bone_track::<C3Vector>(&mut ctx, &b.t, vn, 12, i, TrackType::Translation, &mut m.raw_data.bone_animation_data);
        let rotation =
            bone_track::<M2CompQuat>(&mut ctx, &b.r, vn, 8, i, TrackType::Rotation, &mut m.raw_data.bone_animation_data);
        let scale =
            bone_track::<C3Vector>(&mut ctx, &b.s, vn, 12, i, TrackType::Scale, &mut m.raw_data.bone_animation_data);
        m.bones.push(M2Bone {
            bone_id: g.u32() as i32,
            flags: M2BoneFlags::from_bits_retain(g.u32()),
            parent_bone: b.parent,
            submesh_id: g.u16(),
            unknown: [0, 0],
            bone_name_crc: if vn >= 260 { Some(g.u32()) } else { None },
            translation,
            rotation,
            scale,
            pivot: C3Vector {
                x: g.f_nonan(),
                y: g.f_nonan(),
                z: g.f_nonan(),
            },
        });
    }
    m.key_bone_lookup = s.key_bone_lookup.clone();

    for v in &s.vertices {
        let mut g = Rg::new(v.seed);
        m.vertices.push(M2Vertex {
            position: g.v3(),
            bone_weights: v.weights,
            bone_indices: v.indices,
            normal: g.v3(),
            tex_coords: g.v2(),
            tex_coords2: if v.tc2 { Some(g.v2()) } else { None },
        });
    }

    for t in &s.textures {
        let filename = match &t.filename {
            // the shape a parsed texture has: count includes the terminator, string excludes it
            Some(f) => M2ArrayString {
                string: FixedString {
                    data: f.as_bytes().to_vec(),
                },
                array: M2Array::new(f.len() as u32 + 1, ctx.fake()),
            },
            None => M2ArrayString {
                string: FixedString { data: vec![] },
                array: M2Array::new(0, 0),
            },
        };
        m.textures.push(M2Texture {
            texture_type: tex_type(t.ty),
            flags: M2TextureFlags::from_bits_retain(t.flags),
            filename,
        });
    }

    for &(f, b) in &s.materials {
        m.materials.push(M2Material {
            flags: M2RenderFlags::from_bits_retain(f),
            blend_mode: M2BlendMode::from_bits_retain(b),
        });
    }

    let lk = |i: usize| s.lookups.get(i).cloned().unwrap_or_default();
    m.raw_data.bone_lookup_table = lk(0);
    m.raw_data.texture_lookup_table = lk(1);
    m.raw_data.texture_units = lk(2);
    m.raw_data.transparency_lookup_table = lk(3);
    m.raw_data.texture_animation_lookup = lk(4);
    m.raw_data.attachment_lookup_table = lk(5);
    m.raw_data.camera_lookup_table = lk(6);
    m.raw_data.bounding_triangles = s.bounding_triangles.iter().flat_map(|x| x.to_le_bytes()).collect();
    let vecs = |seeds: &Vec<u32>| -> Vec<u8> {
        let mut out = vec![];
        for &sd in seeds {
            let mut g = Rg::new(sd);
            for _ in 0..3 {
                out.extend_from_slice(&g.fbits().to_le_bytes());
            }
        }
        out
    };
    m.raw_data.bounding_vertices = vecs(&s.bounding_vertices);
    m.raw_data.bounding_normals = vecs(&s.bounding_normals);

    // embedded skins (pre-WotLK only; ignored by the writer otherwise)
    for e in &s.embedded_skins {
        let mut g = Rg::new(e.seed);
        let sub = if vn < 260 { 32 } else { 48 };
        let mut mv = vec![0u8; 44];
        mv[40..44].copy_from_slice(&e.bone_count_max.to_le_bytes());
        m.raw_data.embedded_skins.push(EmbeddedSkinRaw {
            model_view: mv,
            indices: g.bytes(2 * e.n_idx as usize),
            triangles: g.bytes(2 * e.n_tri as usize),
            properties: g.bytes(4 * e.n_prop as usize),
            submeshes: g.bytes(sub * e.n_sub as usize),
            batches: g.bytes(24 * e.n_batch as usize),
            original_model_view_offset: ctx.fake(),
            original_indices_offset: ctx.fake(),
            original_triangles_offset: ctx.fake(),
            original_properties_offset: ctx.fake(),
            original_submeshes_offset: ctx.fake(),
            original_batches_offset: ctx.fake(),
        });
    }

    // particle emitters
    ctx.last = None;
    for (i, p) in s.particles.iter().enumerate() {
        let mut g = Rg::new(p.seed);
        let b0 = block::<f32>(&mut ctx, p.k.first(), 4);
        let b1 = block::<f32>(&mut ctx, p.k.get(1), 4);
        let b2 = block::<f32>(&mut ctx, p.k.get(2), 4);
        let b3 = block::<C2Vector>(&mut ctx, p.k.get(3), 8);
        let b4 = block::<f32>(&mut ctx, p.k.get(4), 4);
        let b5 = block::<M2Color>(&mut ctx, p.k.get(5), 12);
        let b6 = block::<f32>(&mut ctx, p.k.get(6), 4);
        let b7 = block::<f32>(&mut ctx, p.k.get(7), 4);
        let b8 = block::<f32>(&mut ctx, p.k.get(8), 4);
        let b9 = block::<f32>(&mut ctx, p.k.get(9), 4);
        let raw = &mut m.raw_data.particle_animation_data;
        use ParticleTrackType as P;
        push_raw!(raw, ParticleAnimationRaw, emitter_index, i, P::EmissionSpeed, b0.1);
        push_raw!(raw, ParticleAnimationRaw, emitter_index, i, P::EmissionRate, b1.1);
        push_raw!(raw, ParticleAnimationRaw, emitter_index, i, P::EmissionArea, b2.1);
        push_raw!(raw, ParticleAnimationRaw, emitter_index, i, P::XYScale, b3.1);
        push_raw!(raw, ParticleAnimationRaw, emitter_index, i, P::ZScale, b4.1);
        push_raw!(raw, ParticleAnimationRaw, emitter_index, i, P::Color, b5.1);
        push_raw!(raw, ParticleAnimationRaw, emitter_index, i, P::Transparency, b6.1);
        push_raw!(raw, ParticleAnimationRaw, emitter_index, i, P::Size, b7.1);
        push_raw!(raw, ParticleAnimationRaw, emitter_index, i, P::Intensity, b8.1);
        push_raw!(raw, ParticleAnimationRaw, emitter_index, i, P::ZSource, b9.1);
        m.particle_emitters.push(M2ParticleEmitter {
            id: g.u32(),
            // bit 0x200000 (PHYSICS) selects five extra floats for MoP+; header version 272 is
            // read as Cataclysm by the library, so the bit has no layout effect here
            flags: M2ParticleFlags::from_bits_retain(g.u32()),
            position: g.v3(),
            bone_index: g.u16(),
            texture_index: g.u16(),
            model_filename: M2Array::new(0, 0),
            parent_emitter: g.u16(),
            geometry_model_unknown: g.u16(),
            fallback_model_filename: None,
            blending_type: g.u8(),
            emitter_type: M2ParticleEmitterType::from_u8(g.u8() % 5).unwrap(),
            particle_type: g.u8(),
            head_or_tail: g.u8(),
            texture_file_data_ids: None,
            texture_tile_coordinates: M2Array::new(0, 0),
            enable_encryption: None,
            multi_texture_param0: None,
            multi_texture_param1: None,
            lifetime: g.f(),
            emission_rate: g.f(),
            emission_area_length: g.f(),
            emission_area_width: g.f(),
            emission_velocity: g.f(),
            min_lifetime: g.f(),
            max_lifetime: g.f(),
            min_emission_rate: g.f(),
            max_emission_rate: g.f(),
            min_emission_area_length: g.f(),
            max_emission_area_length: g.f(),
            min_emission_area_width: g.f(),
            max_emission_area_width: g.f(),
            min_emission_velocity: g.f(),
            max_emission_velocity: g.f(),
            position_variation: g.f(),
            min_position_variation: g.f(),
            max_position_variation: g.f(),
            initial_size: g.f(),
            min_initial_size: g.f(),
            max_initial_size: g.f(),
            size_variation: g.f(),
            min_size_variation: g.f(),
            max_size_variation: g.f(),
            horizontal_range: g.f(),
            min_horizontal_range: g.f(),
            max_horizontal_range: g.f(),
            vertical_range: g.f(),
            min_vertical_range: g.f(),
            max_vertical_range: g.f(),
            gravity: g.f(),
            min_gravity: g.f(),
            max_gravity: g.f(),
            initial_velocity: g.f(),
            min_initial_velocity: g.f(),
            max_initial_velocity: g.f(),
            speed_variation: g.f(),
            min_speed_variation: g.f(),
            max_speed_variation: g.f(),
            rotation_speed: g.f(),
            min_rotation_speed: g.f(),
            max_rotation_speed: g.f(),
            initial_rotation: g.f(),
            min_initial_rotation: g.f(),
            max_initial_rotation: g.f(),
            mid_point_color: M2Color::new(g.f(), g.f(), g.f()),
            color_animation_speed: g.f(),
            color_median_time: g.f(),
            lifespan_unused: g.f(),
            emission_rate_unused: g.f(),
            unknown_1: g.u32(),
            unknown_2: g.f(),
            emission_speed_animation: b0.0,
            emission_rate_animation: b1.0,
            emission_area_animation: b2.0,
            xy_scale_animation: b3.0,
            z_scale_animation: b4.0,
            color_animation: b5.0,
            transparency_animation: b6.0,
            size_animation: b7.0,
            intensity_animation: b8.0,
            z_source_animation: b9.0,
            particle_initial_state: None,
            particle_initial_state_variation: None,
            particle_convergence_time: None,
            physics_parameters: None,
        });
    }

    // ribbon emitters
    ctx.last = None;
    for (i, r) in s.ribbons.iter().enumerate() {
        let mut g = Rg::new(r.seed);
        let b0 = block::<M2Color>(&mut ctx, r.k.first(), 12);
        let b1 = block::<f32>(&mut ctx, r.k.get(1), 4);
        let b2 = block::<f32>(&mut ctx, r.k.get(2), 4);
        let b3 = block::<f32>(&mut ctx, r.k.get(3), 4);
        let raw = &mut m.raw_data.ribbon_animation_data;
        use RibbonTrackType as R;
        push_raw!(raw, RibbonAnimationRaw, emitter_index, i, R::Color, b0.1);
        push_raw!(raw, RibbonAnimationRaw, emitter_index, i, R::Alpha, b1.1);
        push_raw!(raw, RibbonAnimationRaw, emitter_index, i, R::HeightAbove, b2.1);
        push_raw!(raw, RibbonAnimationRaw, emitter_index, i, R::HeightBelow, b3.1);
        m.ribbon_emitters.push(M2RibbonEmitter {
            bone_index: g.u32(),
            position: g.v3(),
            texture_indices: M2Array::new(0, 0),
            material_indices: M2Array::new(0, 0),
            color_animation: b0.0,
            alpha_animation: b1.0,
            height_above_animation: b2.0,
            height_below_animation: b3.0,
            edges_per_second: g.f(),
            edge_lifetime: g.f(),
            gravity: g.f(),
            texture_rows: g.u16(),
            texture_cols: g.u16(),
            texture_slice: if vn >= 272 { Some(g.u16()) } else { None },
            variation: if vn >= 272 { Some(g.u16()) } else { None },
            id: g.u32(),
            flags: g.u32(),
        });
    }

    // texture animations
    ctx.last = None;
    for (i, t) in s.tex_anims.iter().enumerate() {
        let mut g = Rg::new(t.seed);
        let b0 = block::<f32>(&mut ctx, t.k.first(), 4);
        let b1 = block::<f32>(&mut ctx, t.k.get(1), 4);
        let b2 = block::<f32>(&mut ctx, t.k.get(2), 4);
        let b3 = block::<f32>(&mut ctx, t.k.get(3), 4);
        let b4 = block::<f32>(&mut ctx, t.k.get(4), 4);
        let raw = &mut m.raw_data.texture_animation_data;
        use TextureTrackType as T;
        push_raw!(raw, TextureAnimationRaw, animation_index, i, T::TranslationU, b0.1);
        push_raw!(raw, TextureAnimationRaw, animation_index, i, T::TranslationV, b1.1);
        push_raw!(raw, TextureAnimationRaw, animation_index, i, T::Rotation, b2.1);
        push_raw!(raw, TextureAnimationRaw, animation_index, i, T::ScaleU, b3.1);
        push_raw!(raw, TextureAnimationRaw, animation_index, i, T::ScaleV, b4.1);
        m.texture_animations.push(M2TextureAnimation {
            animation_type: M2TextureAnimationType::from_u16((g.u8() % 5) as u16).unwrap(),
            translation_u: b0.0,
            translation_v: b1.0,
            rotation: b2.0,
            scale_u: b3.0,
            scale_v: b4.0,
        });
    }

    // colour animations
    ctx.last = None;
    for (i, c) in s.color_anims.iter().enumerate() {
        let b0 = block::<M2Color>(&mut ctx, c.k.first(), 12);
        let b1 = block::<u16>(&mut ctx, c.k.get(1), 2);
        let raw = &mut m.raw_data.color_animation_data;
        push_raw!(raw, ColorAnimationRaw, animation_index, i, ColorTrackType::Color, b0.1);
        push_raw!(raw, ColorAnimationRaw, animation_index, i, ColorTrackType::Alpha, b1.1);
        m.color_animations.push(M2ColorAnimation {
            color: b0.0,
            alpha: b1.0,
        });
    }

    // transparency animations
    ctx.last = None;
    for (i, c) in s.transp_anims.iter().enumerate() {
        let b0 = block::<f32>(&mut ctx, c.k.first(), 4);
        let raw = &mut m.raw_data.transparency_animation_data;
        push_raw!(raw, TransparencyAnimationRaw, animation_index, i, TransparencyTrackType::Alpha, b0.1);
        m.transparency_animations.push(M2TransparencyAnimation { alpha: b0.0 });
    }

    // events
    for (i, e) in s.events.iter().enumerate() {
        let mut g = Rg::new(e.seed);
        let mut kg = Rg::new(e.kseed);
        let rng = kg.bytes(8 * e.n_rng as usize);
        let ts = kg.bytes(4 * e.n_ts as usize);
        let rng_off = if e.n_rng > 0 { ctx.fake() } else { 0 };
        let ts_off = if e.n_ts > 0 { ctx.fake() } else { 0 };
        let idb = g.u32().to_le_bytes();
        m.events.push(M2Event {
            identifier: idb,
            data: g.u32(),
            bone_index: g.u16() as i16,
            unknown: g.u16(),
            position: [g.f(), g.f(), g.f()],
            interp_type: g.u16(),
            global_sequence: g.u16() as i16,
            ranges: M2Array::new(e.n_rng as u32, rng_off),
            times: M2Array::new(e.n_ts as u32, ts_off),
        });
        if e.n_rng > 0 || e.n_ts > 0 {
            m.raw_data.event_data.push(EventRaw {
                event_index: i,
                ranges: rng,
                original_ranges_offset: rng_off,
                timestamps: ts,
                original_timestamps_offset: ts_off,
            });
        }
    }

    // attachments
    ctx.last = None;
    for (i, a) in s.attachments.iter().enumerate() {
        let mut g = Rg::new(a.seed);
        let b0 = block::<f32>(&mut ctx, a.k.first(), 4);
        let raw = &mut m.raw_data.attachment_animation_data;
        push_raw!(raw, AttachmentAnimationRaw, attachment_index, i, AttachmentTrackType::Scale, b0.1);
        m.attachments.push(M2Attachment {
            id: g.u32(),
            bone_index: g.u32() as i32,
            position: g.v3(),
            scale_animation: b0.0,
        });
    }

    // cameras
    ctx.last = None;
    for (i, c) in s.cameras.iter().enumerate() {
        let mut g = Rg::new(c.seed);
        let b0 = block::<C3Vector>(&mut ctx, c.k.first(), 12);
        let b1 = block::<C3Vector>(&mut ctx, c.k.get(1), 12);
        let b2 = block::<f32>(&mut ctx, c.k.get(2), 4);
        let raw = &mut m.raw_data.camera_animation_data;
        push_raw!(raw, CameraAnimationRaw, camera_index, i, CameraTrackType::Position, b0.1);
        push_raw!(raw, CameraAnimationRaw, camera_index, i, CameraTrackType::TargetPosition, b1.1);
        push_raw!(raw, CameraAnimationRaw, camera_index, i, CameraTrackType::Roll, b2.1);
        m.cameras.push(M2Camera {
            camera_type: g.u32(),
            fov: g.f(),
            far_clip: g.f(),
            near_clip: g.f(),
            position_animation: b0.0,
            position_base: g.v3(),
            target_position_animation: b1.0,
            target_position_base: g.v3(),
            roll_animation: b2.0,
            id: if vn >= 264 { g.u32() } else { 0 },
            flags: if vn >= 264 {
                M2CameraFlags::from_bits_retain(g.u16())
            } else {
                M2CameraFlags::empty()
            },
        });
    }

    // lights
    ctx.last = None;
    for (i, l) in s.lights.iter().enumerate() {
        let mut g = Rg::new(l.seed);
        let b0 = block::<M2Color>(&mut ctx, l.k.first(), 12);
        let b1 = block::<M2Color>(&mut ctx, l.k.get(1), 12);
        let b2 = block::<f32>(&mut ctx, l.k.get(2), 4);
        let b3 = block::<f32>(&mut ctx, l.k.get(3), 4);
        let b4 = block::<f32>(&mut ctx, l.k.get(4), 4);
        let raw = &mut m.raw_data.light_animation_data;
        use LightTrackType as L;
        push_raw!(raw, LightAnimationRaw, light_index, i, L::AmbientColor, b0.1);
        push_raw!(raw, LightAnimationRaw, light_index, i, L::DiffuseColor, b1.1);
        push_raw!(raw, LightAnimationRaw, light_index, i, L::AttenuationStart, b2.1);
        push_raw!(raw, LightAnimationRaw, light_index, i, L::AttenuationEnd, b3.1);
        push_raw!(raw, LightAnimationRaw, light_index, i, L::Visibility, b4.1);
        m.lights.push(M2Light {
            light_type: light_type(g.u8()),
            bone_index: g.u16(),
            position: g.v3(),
            ambient_color_animation: b0.0,
            diffuse_color_animation: b1.0,
            attenuation_start_animation: b2.0,
            attenuation_end_animation: b3.0,
            visibility_animation: b4.0,
            id: g.u32(),
            flags: M2LightFlags::from_bits_retain(g.u16()),
        });
    }

    m
}
