//! Canonical content of a model / skin / anim object as a JSON tree (floats as bit patterns,
//! byte strings as hex) and a structural diff that reports the first differing path.
//!
//! What is *content*: everything the property statement lists (name, sequences, bones, vertices,
//! textures, materials, lookups, attachments, events, lights, cameras, emitters, preserved
//! key-frame data) plus header scalars. What is *not* content: file offsets (they are recomputed
//! by the writer) and fields the on-disk version has no slot for (`Fields`).

use serde_json::{Map, Value, json};
use wow_m2::chunks::animation::{M2Animation, M2AnimationBlock};
use wow_m2::chunks::m2_track::M2Track;
use wow_m2::common::{C2Vector, C3Vector, M2Parse};
use wow_m2::chunks::color_animation::M2Color;
use wow_m2::skin::{SkinBatch, SkinFile, SkinSubmesh};
use wow_m2::{AnimFile, AnimMetadata, M2Model};

/// which version-dependent fields take part in a comparison
#[derive(Clone, Copy, Debug, PartialEq)]
pub struct Fields {
    pub seq_vanilla: bool,    // end_timestamp, replay
    pub seq_bc: bool,         // extents, radius, next, aliasing
    pub bone_crc: bool,       // >= 260
    pub track_ranges: bool,   // < 264
    pub camera_id: bool,      // >= 264
    pub ribbon_slice: bool,   // >= 272
    pub embedded_skins: bool, // <= 263
    pub skin_profiles: bool,  // >= 264
    pub version: bool,
}

impl Fields {
    pub fn of(vn: u32) -> Fields {
        Fields {
            seq_vanilla: vn <= 256,
            seq_bc: vn > 256,
            bone_crc: vn >= 260,
            track_ranges: vn < 264,
            camera_id: vn >= 264,
            ribbon_slice: vn >= 272,
            embedded_skins: vn <= 263,
            skin_profiles: vn > 263,
            version: true,
        }
    }
    /// fields both versions have a slot for
    pub fn common(a: u32, b: u32) -> Fields {
        let (x, y) = (Fields::of(a), Fields::of(b));
        Fields {
            seq_vanilla: x.seq_vanilla && y.seq_vanilla,
            seq_bc: x.seq_bc && y.seq_bc,
            bone_crc: x.bone_crc && y.bone_crc,
            track_ranges: x.track_ranges && y.track_ranges,
            camera_id: x.camera_id && y.camera_id,
            ribbon_slice: x.ribbon_slice && y.ribbon_slice,
            // embedded skin records change size between 256 and 260 (32/48-byte submeshes) and
            // the statement does not list them; compared only within one version
            embedded_skins: x.embedded_skins && y.embedded_skins && a == b,
            skin_profiles: x.skin_profiles && y.skin_profiles,
            version: a == b,
        }
    }
}

fn fb(f: f32) -> Value {
    json!(f.to_bits())
}
fn v3(v: &C3Vector) -> Value {
    json!([v.x.to_bits(), v.y.to_bits(), v.z.to_bits()])
}
fn v2(v: &C2Vector) -> Value {
    json!([v.x.to_bits(), v.y.to_bits()])
}
fn arr3(v: &[f32; 3]) -> Value {
    json!([v[0].to_bits(), v[1].to_bits(), v[2].to_bits()])
}
fn hx(b: &[u8]) -> Value {
    json!(hex::encode(b))
}

fn seq(a: &M2Animation, f: &Fields, l: bool) -> Value {
    let mut m = Map::new();
    m.insert("animation_id".into(), json!(a.animation_id));
    m.insert("sub_animation_id".into(), json!(a.sub_animation_id));
    m.insert("start_or_duration".into(), json!(a.start_timestamp));
    m.insert("movement_speed".into(), fb(a.movement_speed));
    m.insert("flags".into(), json!(a.flags));
    m.insert("frequency".into(), json!(a.frequency));
    m.insert("padding".into(), json!(a.padding));
    if f.seq_vanilla {
        m.insert("end_timestamp".into(), opt(a.end_timestamp.map(|x| json!(x)), l));
        m.insert(
            "replay".into(),
            opt(a.replay.map(|r| json!([r.minimum.to_bits(), r.maximum.to_bits()])), l),
        );
    }
    if f.seq_bc {
        m.insert("minimum_extent".into(), opt(a.minimum_extent.map(|e| json!(e.map(f32::to_bits))), l));
        m.insert("maximum_extent".into(), opt(a.maximum_extent.map(|e| json!(e.map(f32::to_bits))), l));
        m.insert("extent_radius".into(), opt(a.extent_radius.map(|x| json!(x.to_bits())), l));
        m.insert("next_animation".into(), opt(a.next_animation.map(|x| json!(x)), l));
        m.insert("aliasing".into(), opt(a.aliasing.map(|x| json!(x)), l));
    }
    Value::Object(m)
}

fn track<T>(t: &M2Track<T>, f: &Fields) -> Value {
    let mut m = Map::new();
    m.insert("interpolation".into(), json!(t.base.interpolation_type as u16));
    m.insert("global_sequence".into(), json!(t.base.global_sequence));
    m.insert("n_timestamps".into(), json!(t.timestamps.count));
    m.insert("n_values".into(), json!(t.values.count));
    if f.track_ranges {
        m.insert("n_ranges".into(), json!(t.ranges.map(|r| r.count).unwrap_or(0)));
    }
    Value::Object(m)
}

trait Bits {
    fn bits(&self) -> Value;
}
impl Bits for f32 {
    fn bits(&self) -> Value {
        fb(*self)
    }
}
impl Bits for u16 {
    fn bits(&self) -> Value {
        json!(*self)
    }
}
impl Bits for C3Vector {
    fn bits(&self) -> Value {
        v3(self)
    }
}
impl Bits for C2Vector {
    fn bits(&self) -> Value {
        v2(self)
    }
}
impl Bits for M2Color {
    fn bits(&self) -> Value {
        json!([self.r.to_bits(), self.g.to_bits(), self.b.to_bits()])
    }
}

fn blk<T: M2Parse + Bits>(b: &M2AnimationBlock<T>) -> Value {
    let t = &b.track;
    json!({
        "interpolation": t.interpolation_type as u16,
        "global_sequence": t.global_sequence,
        "n_ranges": t.interpolation_ranges.count,
        "n_timestamps": t.timestamps.count,
        "n_values": t.values.array.count,
        "values": t.values.data.iter().map(|v| v.bits()).collect::<Vec<_>>(),
    })
}

macro_rules! raw_list {
    ($v:expr, $idx:ident) => {
        $v.iter()
            .map(|r| {
                json!({
                    "index": r.$idx,
                    "track": format!("{:?}", r.track_type),
                    "ranges": hx(&r.interpolation_ranges),
                    "timestamps": hx(&r.timestamps),
                    "values": hx(&r.values),
                })
            })
            .collect::<Vec<_>>()
    };
}

/// Canonical content as an ordered list of (section, value) in the order the writer emits the
/// sections, so that the first difference reported is the one closest to its cause.
/// `lenient`: `None` in a version-dependent optional field means "unspecified" (converter output
/// keeps the source version's options) and matches whatever default the writer chose.
pub fn model(m: &M2Model, f: &Fields, lenient: bool) -> Vec<(String, Value)> {
    let mut o = Ordered(vec![]);
    let h = &m.header;
    let mut hd = Map::new();
    if f.version {
        hd.insert("version".into(), json!(h.version));
    }
    hd.insert("flags".into(), json!(h.flags.bits()));
    hd.insert("bounding_box_min".into(), arr3(&h.bounding_box_min));
    hd.insert("bounding_box_max".into(), arr3(&h.bounding_box_max));
    hd.insert("bounding_sphere_radius".into(), fb(h.bounding_sphere_radius));
    hd.insert("collision_box_min".into(), arr3(&h.collision_box_min));
    hd.insert("collision_box_max".into(), arr3(&h.collision_box_max));
    hd.insert("collision_sphere_radius".into(), fb(h.collision_sphere_radius));
    if f.skin_profiles {
        hd.insert("num_skin_profiles".into(), json!(h.num_skin_profiles.unwrap_or(0)));
    }
    o.insert("header".into(), Value::Object(hd));
    o.insert("name".into(), json!(m.name));
    o.insert("global_sequences".into(), json!(m.global_sequences));
    o.insert(
        "sequences".into(),
        Value::Array(m.animations.iter().map(|a| seq(a, f, lenient)).collect()),
    );
    o.insert("animation_lookup".into(), json!(m.animation_lookup));
    o.insert(
        "bones".into(),
        Value::Array(
            m.bones
                .iter()
                .map(|b| {
                    let mut x = Map::new();
                    x.insert("bone_id".into(), json!(b.bone_id));
                    x.insert("flags".into(), json!(b.flags.bits()));
                    x.insert("parent_bone".into(), json!(b.parent_bone));
                    x.insert("submesh_id".into(), json!(b.submesh_id));
                    if f.bone_crc {
                        x.insert("bone_name_crc".into(), json!(b.bone_name_crc.unwrap_or(0)));
                    }
                    x.insert("translation".into(), track(&b.translation, f));
                    x.insert("rotation".into(), track(&b.rotation, f));
                    x.insert("scale".into(), track(&b.scale, f));
                    x.insert("pivot".into(), v3(&b.pivot));
                    Value::Object(x)
                })
                .collect(),
        ),
    );
    o.insert("key_bone_lookup".into(), json!(m.key_bone_lookup));
    o.insert(
        "vertices".into(),
        Value::Array(
            m.vertices
                .iter()
                .map(|v| {
                    json!({
                        "position": v3(&v.position),
                        "bone_weights": v.bone_weights,
                        "bone_indices": v.bone_indices,
                        "normal": v3(&v.normal),
                        "tex_coords": v2(&v.tex_coords),
                        "tex_coords2": v2(&v.tex_coords2.unwrap_or(C2Vector { x: 0.0, y: 0.0 })),
                    })
                })
                .collect(),
        ),
    );
    o.insert(
        "textures".into(),
        Value::Array(
            m.textures
                .iter()
                .map(|t| {
                    json!({
                        "type": t.texture_type as u32,
                        "flags": t.flags.bits(),
                        "filename": hx(&t.filename.string.data),
                        "filename_count": t.filename.array.count,
                    })
                })
                .collect(),
        ),
    );
    o.insert(
        "materials".into(),
        Value::Array(
            m.materials
                .iter()
                .map(|t| json!({"flags": t.flags.bits(), "blend_mode": t.blend_mode.bits()}))
                .collect(),
        ),
    );
    let r = &m.raw_data;
    o.insert("bone_lookup_table".into(), json!(r.bone_lookup_table));
    o.insert("texture_lookup_table".into(), json!(r.texture_lookup_table));
    o.insert("texture_units".into(), json!(r.texture_units));
    o.insert("transparency_lookup_table".into(), json!(r.transparency_lookup_table));
    o.insert("texture_animation_lookup".into(), json!(r.texture_animation_lookup));
    o.insert("attachment_lookup_table".into(), json!(r.attachment_lookup_table));
    o.insert("camera_lookup_table".into(), json!(r.camera_lookup_table));
    o.insert("bounding_triangles".into(), hx(&r.bounding_triangles));
    o.insert("bounding_vertices".into(), hx(&r.bounding_vertices));
    o.insert("bounding_normals".into(), hx(&r.bounding_normals));

    o.insert(
        "attachments".into(),
        Value::Array(
            m.attachments
                .iter()
                .map(|a| {
                    json!({
                        "id": a.id, "bone_index": a.bone_index, "position": v3(&a.position),
                        "scale_animation": blk(&a.scale_animation),
                    })
                })
                .collect(),
        ),
    );
    o.insert(
        "events".into(),
        Value::Array(
            m.events
                .iter()
                .map(|e| {
                    json!({
                        "identifier": hx(&e.identifier), "data": e.data, "bone_index": e.bone_index,
                        "unknown": e.unknown, "position": arr3(&e.position),
                        "interp_type": e.interp_type, "global_sequence": e.global_sequence,
                        "n_ranges": e.ranges.count, "n_times": e.times.count,
                    })
                })
                .collect(),
        ),
    );
    o.insert(
        "lights".into(),
        Value::Array(
            m.lights
                .iter()
                .map(|l| {
                    json!({
                        "light_type": l.light_type as u8, "bone_index": l.bone_index,
                        "position": v3(&l.position), "id": l.id, "flags": l.flags.bits(),
                        "ambient_color": blk(&l.ambient_color_animation),
                        "diffuse_color": blk(&l.diffuse_color_animation),
                        "attenuation_start": blk(&l.attenuation_start_animation),
                        "attenuation_end": blk(&l.attenuation_end_animation),
                        "visibility": blk(&l.visibility_animation),
                    })
                })
                .collect(),
        ),
    );
    o.insert(
        "cameras".into(),
        Value::Array(
            m.cameras
                .iter()
                .map(|c| {
                    let mut x = Map::new();
                    x.insert("camera_type".into(), json!(c.camera_type));
                    x.insert("fov".into(), fb(c.fov));
                    x.insert("far_clip".into(), fb(c.far_clip));
                    x.insert("near_clip".into(), fb(c.near_clip));
                    x.insert("position".into(), blk(&c.position_animation));
                    x.insert("position_base".into(), v3(&c.position_base));
                    x.insert("target_position".into(), blk(&c.target_position_animation));
                    x.insert("target_position_base".into(), v3(&c.target_position_base));
                    x.insert("roll".into(), blk(&c.roll_animation));
                    if f.camera_id {
                        x.insert("id".into(), json!(c.id));
                        x.insert("flags".into(), json!(c.flags.bits()));
                    }
                    Value::Object(x)
                })
                .collect(),
        ),
    );
    o.insert(
        "ribbon_emitters".into(),
        Value::Array(
            m.ribbon_emitters
                .iter()
                .map(|e| {
                    let mut x = Map::new();
                    x.insert("bone_index".into(), json!(e.bone_index));
                    x.insert("position".into(), v3(&e.position));
                    x.insert(
                        "texture_indices".into(),
                        json!([e.texture_indices.count, e.texture_indices.offset]),
                    );
                    x.insert(
                        "material_indices".into(),
                        json!([e.material_indices.count, e.material_indices.offset]),
                    );
                    x.insert("color".into(), blk(&e.color_animation));
                    x.insert("alpha".into(), blk(&e.alpha_animation));
                    x.insert("height_above".into(), blk(&e.height_above_animation));
                    x.insert("height_below".into(), blk(&e.height_below_animation));
                    x.insert("edges_per_second".into(), fb(e.edges_per_second));
                    x.insert("edge_lifetime".into(), fb(e.edge_lifetime));
                    x.insert("gravity".into(), fb(e.gravity));
                    x.insert("texture_rows".into(), json!(e.texture_rows));
                    x.insert("texture_cols".into(), json!(e.texture_cols));
                    if f.ribbon_slice {
                        x.insert("texture_slice".into(), json!(e.texture_slice.unwrap_or(0)));
                        x.insert("variation".into(), json!(e.variation.unwrap_or(0)));
                    }
                    x.insert("id".into(), json!(e.id));
                    x.insert("flags".into(), json!(e.flags));
                    Value::Object(x)
                })
                .collect(),
        ),
    );
    o.insert(
        "particle_emitters".into(),
        Value::Array(
            m.particle_emitters
                .iter()
                .map(|e| {
                    let scalars: Vec<u32> = [
                        e.lifetime, e.emission_rate, e.emission_area_length, e.emission_area_width,
                        e.emission_velocity, e.min_lifetime, e.max_lifetime, e.min_emission_rate,
                        e.max_emission_rate, e.min_emission_area_length, e.max_emission_area_length,
                        e.min_emission_area_width, e.max_emission_area_width, e.min_emission_velocity,
                        e.max_emission_velocity, e.position_variation, e.min_position_variation,
                        e.max_position_variation, e.initial_size, e.min_initial_size, e.max_initial_size,
                        e.size_variation, e.min_size_variation, e.max_size_variation, e.horizontal_range,
                        e.min_horizontal_range, e.max_horizontal_range, e.vertical_range,
                        e.min_vertical_range, e.max_vertical_range, e.gravity, e.min_gravity, e.max_gravity,
                        e.initial_velocity, e.min_initial_velocity, e.max_initial_velocity,
                        e.speed_variation, e.min_speed_variation, e.max_speed_variation, e.rotation_speed,
                        e.min_rotation_speed, e.max_rotation_speed, e.initial_rotation,
                        e.min_initial_rotation, e.max_initial_rotation, e.mid_point_color.r,
                        e.mid_point_color.g, e.mid_point_color.b, e.color_animation_speed,
                        e.color_median_time, e.lifespan_unused, e.emission_rate_unused, e.unknown_2,
                    ]
                    .iter()
                    .map(|x| x.to_bits())
                    .collect();
                    json!({
                        "id": e.id, "flags": e.flags.bits(), "position": v3(&e.position),
                        "bone_index": e.bone_index, "texture_index": e.texture_index,
                        "model_filename": [e.model_filename.count, e.model_filename.offset],
                        "parent_emitter": e.parent_emitter,
                        "geometry_model_unknown": e.geometry_model_unknown,
                        "blending_type": e.blending_type, "emitter_type": e.emitter_type as u8,
                        "particle_type": e.particle_type, "head_or_tail": e.head_or_tail,
                        "texture_tile_coordinates": [e.texture_tile_coordinates.count, e.texture_tile_coordinates.offset],
                        "scalars": scalars, "unknown_1": e.unknown_1,
                        "emission_speed": blk(&e.emission_speed_animation),
                        "emission_rate_anim": blk(&e.emission_rate_animation),
                        "emission_area": blk(&e.emission_area_animation),
                        "xy_scale": blk(&e.xy_scale_animation),
                        "z_scale": blk(&e.z_scale_animation),
                        "color": blk(&e.color_animation),
                        "transparency": blk(&e.transparency_animation),
                        "size": blk(&e.size_animation),
                        "intensity": blk(&e.intensity_animation),
                        "z_source": blk(&e.z_source_animation),
                    })
                })
                .collect(),
        ),
    );
    o.insert(
        "texture_animations".into(),
        Value::Array(
            m.texture_animations
                .iter()
                .map(|t| {
                    json!({
                        "animation_type": t.animation_type as u16,
                        "translation_u": blk(&t.translation_u), "translation_v": blk(&t.translation_v),
                        "rotation": blk(&t.rotation), "scale_u": blk(&t.scale_u), "scale_v": blk(&t.scale_v),
                    })
                })
                .collect(),
        ),
    );
    o.insert(
        "color_animations".into(),
        Value::Array(
            m.color_animations
                .iter()
                .map(|t| json!({"color": blk(&t.color), "alpha": blk(&t.alpha)}))
                .collect(),
        ),
    );
    o.insert(
        "transparency_animations".into(),
        Value::Array(
            m.transparency_animations
                .iter()
                .map(|t| json!({"alpha": blk(&t.alpha)}))
                .collect(),
        ),
    );

    // preserved key-frame data
    let mut k = Map::new();
    k.insert(
        "bones".into(),
        Value::Array(
            r.bone_animation_data
                .iter()
                .map(|b| {
                    let mut x = Map::new();
                    x.insert("index".into(), json!(b.bone_index));
                    x.insert("track".into(), json!(format!("{:?}", b.track_type)));
                    x.insert("timestamps".into(), hx(&b.timestamps));
                    x.insert("values".into(), hx(&b.values));
                    if f.track_ranges {
                        x.insert("ranges".into(), json!(b.ranges.as_ref().map(hex::encode)));
                    }
                    Value::Object(x)
                })
                .collect(),
        ),
    );
    k.insert("particles".into(), json!(raw_list!(r.particle_animation_data, emitter_index)));
    k.insert("ribbons".into(), json!(raw_list!(r.ribbon_animation_data, emitter_index)));
    k.insert("texture_animations".into(), json!(raw_list!(r.texture_animation_data, animation_index)));
    k.insert("color_animations".into(), json!(raw_list!(r.color_animation_data, animation_index)));
    k.insert("transparency_animations".into(), json!(raw_list!(r.transparency_animation_data, animation_index)));
    k.insert("attachments".into(), json!(raw_list!(r.attachment_animation_data, attachment_index)));
    k.insert("cameras".into(), json!(raw_list!(r.camera_animation_data, camera_index)));
    k.insert("lights".into(), json!(raw_list!(r.light_animation_data, light_index)));
    k.insert(
        "events".into(),
        json!(r.event_data.iter().map(|e| json!({
            "index": e.event_index, "ranges": hx(&e.ranges), "timestamps": hx(&e.timestamps),
        })).collect::<Vec<_>>()),
    );
    for (kk, vv) in k {
        o.insert(format!("keyframes.{kk}"), vv);
    }

    if f.embedded_skins {
        o.insert(
            "embedded_skins".into(),
            json!(r.embedded_skins.iter().map(|s| json!({
                "indices": hx(&s.indices), "triangles": hx(&s.triangles),
                "properties": hx(&s.properties), "submeshes": hx(&s.submeshes),
                "batches": hx(&s.batches),
                "bone_count_max": s.model_view.get(40..44).map(hex::encode),
            })).collect::<Vec<_>>()),
        );
    }
    // writer order
    const ORDER: [&str; 40] = [
        "header", "name", "global_sequences", "sequences", "animation_lookup", "bones",
        "keyframes.bones", "key_bone_lookup", "vertices", "textures", "materials",
        "bone_lookup_table", "texture_lookup_table", "texture_units", "transparency_lookup_table",
        "texture_animation_lookup", "bounding_triangles", "bounding_vertices", "bounding_normals",
        "attachment_lookup_table", "camera_lookup_table", "embedded_skins", "particle_emitters",
        "keyframes.particles", "ribbon_emitters", "keyframes.ribbons", "texture_animations",
        "keyframes.texture_animations", "color_animations", "keyframes.color_animations",
        "transparency_animations", "keyframes.transparency_animations", "events",
        "keyframes.events", "attachments", "keyframes.attachments", "cameras", "keyframes.cameras",
        "lights", "keyframes.lights",
    ];
    let mut v = o.0;
    v.sort_by_key(|(k, _)| ORDER.iter().position(|o| o == k).unwrap_or(usize::MAX));
    v
}

/// first difference between two ordered section lists
pub fn diff_sections(want: &[(String, Value)], got: &[(String, Value)]) -> Option<Diff> {
    for ((kw, vw), (kg, vg)) in want.iter().zip(got) {
        assert_eq!(kw, kg, "canon sections out of step");
        if let Some(mut d) = diff(vw, vg) {
            let sep = if d.path.is_empty() || d.path.starts_with('[') || d.path.starts_with('.') { "" } else { "." };
            d.path = format!("{kw}{sep}{}", d.path);
            d.generic = format!("{kw}{sep}{}", d.generic);
            return Some(d);
        }
    }
    assert_eq!(want.len(), got.len(), "canon section count");
    None
}

struct Ordered(Vec<(String, Value)>);
impl Ordered {
    fn insert(&mut self, k: String, v: Value) {
        self.0.push((k, v));
    }
}

pub const ANY: &str = "<unspecified>";

fn opt(v: Option<Value>, lenient: bool) -> Value {
    match v {
        Some(x) => x,
        None if lenient => json!(ANY),
        None => Value::Null,
    }
}

// ---------------------------------------------------------------------------------------
// skin / anim

fn submesh(s: &SkinSubmesh) -> Value {
    json!({
        "id": s.id, "level": s.level, "vertex_start": s.vertex_start, "vertex_count": s.vertex_count,
        "triangle_start": s.triangle_start, "triangle_count": s.triangle_count,
        "bone_count": s.bone_count, "bone_start": s.bone_start, "bone_influence": s.bone_influence,
        "center": arr3(&s.center), "sort_center": arr3(&s.sort_center),
        "bounding_radius": fb(s.bounding_radius),
    })
}

fn batch(b: &SkinBatch) -> Value {
    json!([
        b.flags, b.priority_plane, b.shader_id, b.skin_section_index, b.geoset_index, b.color_index,
        b.material_index, b.material_layer, b.texture_count, b.texture_combo_index,
        b.texture_coord_combo_index, b.texture_weight_combo_index, b.texture_transform_combo_index
    ])
}

/// mesh data every skin layout carries
pub fn skin_mesh(s: &SkinFile) -> Value {
    json!({
        "indices": s.indices(),
        "triangles": s.triangles(),
        "bone_indices": hx(s.bone_indices()),
        "submeshes": s.submeshes().iter().map(submesh).collect::<Vec<_>>(),
        "batches": s.batches().iter().map(batch).collect::<Vec<_>>(),
    })
}

pub fn skin(s: &SkinFile) -> Value {
    let mut o = Map::new();
    match s {
        SkinFile::New(n) => {
            o.insert("layout".into(), json!("new"));
            o.insert("version".into(), json!(n.header.version));
            o.insert("vertex_count".into(), json!(n.header.vertex_count));
            o.insert("name".into(), json!([n.header.name.count, n.header.name.offset]));
        }
        SkinFile::Old(n) => {
            o.insert("layout".into(), json!("old"));
            o.insert("bone_count_max".into(), json!(n.header.bone_count_max));
        }
    }
    o.insert("mesh".into(), skin_mesh(s));
    Value::Object(o)
}

pub fn anim(a: &AnimFile) -> Value {
    let mut o = Map::new();
    o.insert("format".into(), json!(format!("{:?}", a.format)));
    if let AnimMetadata::Modern { header, entries } = &a.metadata {
        o.insert(
            "header".into(),
            json!({"version": header.version, "id_count": header.id_count, "unknown": header.unknown}),
        );
        o.insert("entry_ids".into(), json!(entries.iter().map(|e| e.id).collect::<Vec<_>>()));
    }
    o.insert(
        "sections".into(),
        Value::Array(
            a.sections
                .iter()
                .map(|s| {
                    json!({
                        "id": s.header.id, "start": s.header.start, "end": s.header.end,
                        "bones": s.bone_animations.iter().map(|b| {
                            let any = b.translation.is_some() || b.rotation.is_some() || b.scaling.is_some();
                            json!({
                                // a bone entry without any track has no on-disk slot for its id
                                "bone_id": if any { Some(b.bone_id) } else { None },
                                "translation": b.translation.as_ref().map(|t| json!({
                                    "timestamps": t.timestamps,
                                    "values": t.translations.iter().map(v3).collect::<Vec<_>>()})),
                                "rotation": b.rotation.as_ref().map(|t| json!({
                                    "timestamps": t.timestamps,
                                    "values": t.rotations.iter().map(|q| [q.x.to_bits(), q.y.to_bits(), q.z.to_bits(), q.w.to_bits()]).collect::<Vec<_>>()})),
                                "scaling": b.scaling.as_ref().map(|t| json!({
                                    "timestamps": t.timestamps,
                                    "values": t.scalings.iter().map(v3).collect::<Vec<_>>()})),
                            })
                        }).collect::<Vec<_>>(),
                    })
                })
                .collect(),
        ),
    );
    Value::Object(o)
}

// ---------------------------------------------------------------------------------------
// diff

pub struct Diff {
    /// path with indices, e.g. `events[2].n_ranges`
    pub path: String,
    /// path without indices, e.g. `events[].n_ranges` (goes into the signature)
    pub generic: String,
    pub want: String,
    pub got: String,
}

fn short(v: &Value) -> String {
    let s = v.to_string();
    vcheck::engine::truncate(&s, 160)
}

pub fn diff(want: &Value, got: &Value) -> Option<Diff> {
    fn go(w: &Value, g: &Value, path: &mut String, generic: &mut String) -> Option<Diff> {
        match (w, g) {
            (Value::Object(a), Value::Object(b)) => {
                for (k, va) in a {
                    let (pl, gl) = (path.len(), generic.len());
                    if !path.is_empty() {
                        path.push('.');
                        generic.push('.');
                    }
                    path.push_str(k);
                    generic.push_str(k);
                    let r = match b.get(k) {
                        Some(vb) => go(va, vb, path, generic),
                        None => Some(Diff {
                            path: path.clone(),
                            generic: generic.clone(),
                            want: short(va),
                            got: "<absent>".into(),
                        }),
                    };
                    if r.is_some() {
                        return r;
                    }
                    path.truncate(pl);
                    generic.truncate(gl);
                }
                for k in b.keys() {
                    if !a.contains_key(k) {
                        return Some(Diff {
                            path: format!("{path}.{k}"),
                            generic: format!("{generic}.{k}"),
                            want: "<absent>".into(),
                            got: short(&b[k]),
                        });
                    }
                }
                None
            }
            (Value::Array(a), Value::Array(b)) => {
                // arrays of scalars are compared whole (keeps signatures short)
                let scalar = |v: &Vec<Value>| v.iter().all(|x| !x.is_object() && !x.is_array());
                if a.len() != b.len() {
                    return Some(Diff {
                        path: format!("{path}.len"),
                        generic: format!("{generic}.len"),
                        want: a.len().to_string(),
                        got: b.len().to_string(),
                    });
                }
                if scalar(a) && scalar(b) {
                    if a != b {
                        return Some(Diff {
                            path: path.clone(),
                            generic: generic.clone(),
                            want: short(w),
                            got: short(g),
                        });
                    }
                    return None;
                }
                for (i, (va, vb)) in a.iter().zip(b).enumerate() {
                    let (pl, gl) = (path.len(), generic.len());
                    path.push_str(&format!("[{i}]"));
                    generic.push_str("[]");
                    let r = go(va, vb, path, generic);
                    if r.is_some() {
                        return r;
                    }
                    path.truncate(pl);
                    generic.truncate(gl);
                }
                None
            }
            _ => {
                if w.as_str() == Some(ANY) {
                    return None;
                }
                if w != g {
                    Some(Diff {
                        path: path.clone(),
                        generic: generic.clone(),
                        want: short(w),
                        got: short(g),
                    })
                } else {
                    None
                }
            }
        }
    }
    go(want, got, &mut String::new(), &mut String::new())
}
