//! `m2layout` — independent structural judge for written M2 / SKIN bytes.
//!
//! It never calls the library. It reads the MD20 header slot by slot with the version rules of
//! the format documentation (`/repo/docs/src/formats/graphics/m2.md`, the crate's own record
//! documentation in `header.rs` / `chunks/*.rs` / `model.rs`), computes the byte extent of every
//! `(count, offset)` pair — top-level sections and the arrays nested in their records — and
//! checks that every extent lies inside the file, outside the header, and that no two distinct
//! extents overlap. Identical extents are allowed once per *kind* (key-frame arrays shared
//! between tracks are legal).
//!
//! Record sizes (bytes), by on-disk version:
//!   header 324 (<=263) / 304 (>=264)  (+8 when global flag 0x08 announces the combiner-combo
//!   slot, +8 when version >= 260 and flag 0x0800_0000 announces blend-map overrides);
//!   sequence 32 (256) / 52 (>256); bone 108 (<260) / 112 (<264) / 88; vertex 48; texture 16;
//!   material 4; colour animation 56; transparency animation 28; texture animation 144;
//!   attachment 48; event 44; light 164; camera 124 (<264) / 132; ribbon 168 (<272) / 172;
//!   particle emitter 544; model view 44 with submesh 32 (<260) / 48 and batch 24; lookups 2;
//!   global sequence 4; collision vertices/normals 12; collision triangles 2.

#[derive(Clone, Debug)]
pub struct Extent {
    pub name: String,
    pub start: u64,
    pub end: u64,
}

#[derive(Debug)]
pub struct Layout {
    pub version: u32,
    /// size of the header including optional slots announced by the global flags
    pub header_size: u64,
    /// size of the header without the optional slots
    #[allow(dead_code)]
    pub base_header_size: u64,
    pub extents: Vec<Extent>,
    /// every top-level header slot: (name, count, offset, element size)
    pub top: Vec<(String, u32, u32, u64)>,
}

#[derive(Debug)]
pub struct Problem {
    /// stable class, e.g. `outside-file:textures[].filename`
    pub class: String,
    pub detail: String,
}

struct Rd<'a> {
    b: &'a [u8],
    p: usize,
}

impl<'a> Rd<'a> {
    fn at(b: &'a [u8], p: usize) -> Self {
        Rd { b, p }
    }
    fn u32(&mut self) -> Result<u32, String> {
        let s = self
            .b
            .get(self.p..self.p + 4)
            .ok_or_else(|| format!("read past end at {}", self.p))?;
        self.p += 4;
        Ok(u32::from_le_bytes(s.try_into().unwrap()))
    }
    fn pair(&mut self) -> Result<(u32, u32), String> {
        Ok((self.u32()?, self.u32()?))
    }
    fn skip(&mut self, n: usize) {
        self.p += n;
    }
}

pub fn sequence_size(v: u32) -> u64 {
    if v <= 256 { 32 } else { 52 }
}
pub fn bone_size(v: u32) -> u64 {
    if v < 260 {
        108
    } else if v < 264 {
        112
    } else {
        88
    }
}
pub fn camera_size(v: u32) -> u64 {
    if v < 264 { 124 } else { 132 }
}
pub fn ribbon_size(v: u32) -> u64 {
    if v < 272 { 168 } else { 172 }
}
pub const PARTICLE_SIZE: u64 = 544;

struct Walk<'a> {
    b: &'a [u8],
    ext: Vec<Extent>,
    problems: Vec<Problem>,
}

impl<'a> Walk<'a> {
    fn add(&mut self, name: &str, count: u32, offset: u32, elem: u64) {
        if count == 0 {
            return;
        }
        let start = offset as u64;
        let end = start + count as u64 * elem;
        if end > self.b.len() as u64 {
            self.problems.push(Problem {
                class: format!("outside-file:{name}"),
                detail: format!(
                    "{name}: count {count} × {elem} bytes at offset {offset} ends at {end}, file has {} bytes",
                    self.b.len()
                ),
            });
            return;
        }
        self.ext.push(Extent {
            name: name.to_string(),
            start,
            end,
        });
    }

    /// animation block at `p`: (ranges, timestamps, values) pairs after 4 bytes of type/seq
    fn block(&mut self, name: &str, p: usize, val: u64) {
        let mut r = Rd::at(self.b, p + 4);
        let (Ok(rg), Ok(ts), Ok(vs)) = (r.pair(), r.pair(), r.pair()) else {
            return;
        };
        self.add(&format!("{name}.ranges"), rg.0, rg.1, 8);
        self.add(&format!("{name}.timestamps"), ts.0, ts.1, 4);
        self.add(&format!("{name}.values"), vs.0, vs.1, val);
    }

    /// bone track at `p`: pre-264 has a ranges pair before timestamps/values
    fn bone_track(&mut self, name: &str, p: usize, v: u32, val: u64) -> usize {
        let mut r = Rd::at(self.b, p + 4);
        if v < 264
            && let Ok(rg) = r.pair()
        {
            self.add(&format!("{name}.ranges"), rg.0, rg.1, 8);
        }
        if let (Ok(ts), Ok(vs)) = (r.pair(), r.pair()) {
            self.add(&format!("{name}.timestamps"), ts.0, ts.1, 4);
            self.add(&format!("{name}.values"), vs.0, vs.1, val);
        }
        if v < 264 { 28 } else { 20 }
    }
}

/// Walk the header and all nested records of an MD20 file.
pub fn walk_m2(b: &[u8]) -> Result<(Layout, Vec<Problem>), String> {
    if b.len() < 8 || &b[0..4] != b"MD20" {
        return Err("no MD20 magic".into());
    }
    let mut r = Rd::at(b, 4);
    let v = r.u32()?;
    let mut w = Walk {
        b,
        ext: vec![],
        problems: vec![],
    };
    let mut top: Vec<(&'static str, u32, u32, u64)> = vec![];
    let name = r.pair()?;
    top.push(("name", name.0, name.1, 1));
    let flags = r.u32()?;
    let p = r.pair()?;
    top.push(("global_sequences", p.0, p.1, 4));
    let seqs = r.pair()?;
    top.push(("sequences", seqs.0, seqs.1, sequence_size(v)));
    let p = r.pair()?;
    top.push(("animation_lookup", p.0, p.1, 2));
    if v <= 263 {
        let p = r.pair()?;
        top.push(("playable_animation_lookup", p.0, p.1, 2));
    }
    let bones = r.pair()?;
    top.push(("bones", bones.0, bones.1, bone_size(v)));
    let p = r.pair()?;
    top.push(("key_bone_lookup", p.0, p.1, 2));
    let p = r.pair()?;
    top.push(("vertices", p.0, p.1, 48));
    let mut views = (0, 0);
    if v <= 263 {
        views = r.pair()?;
        top.push(("views", views.0, views.1, 44));
    } else {
        r.u32()?;
    }
    let colors = r.pair()?;
    top.push(("color_animations", colors.0, colors.1, 56));
    let textures = r.pair()?;
    top.push(("textures", textures.0, textures.1, 16));
    let transp = r.pair()?;
    top.push(("transparency_animations", transp.0, transp.1, 28));
    if v <= 263 {
        let p = r.pair()?;
        top.push(("texture_flipbooks", p.0, p.1, 1));
    }
    let texanims = r.pair()?;
    top.push(("texture_animations", texanims.0, texanims.1, 144));
    let p = r.pair()?;
    top.push(("color_replacements", p.0, p.1, 2));
    let p = r.pair()?;
    top.push(("materials", p.0, p.1, 4));
    for n in [
        "bone_lookup_table",
        "texture_lookup_table",
        "texture_units",
        "transparency_lookup_table",
        "texture_animation_lookup",
    ] {
        let p = r.pair()?;
        top.push((n, p.0, p.1, 2));
    }
    r.skip(14 * 4);
    let p = r.pair()?;
    top.push(("bounding_triangles", p.0, p.1, 2));
    let p = r.pair()?;
    top.push(("bounding_vertices", p.0, p.1, 12));
    let p = r.pair()?;
    top.push(("bounding_normals", p.0, p.1, 12));
    let attachments = r.pair()?;
    top.push(("attachments", attachments.0, attachments.1, 48));
    let p = r.pair()?;
    top.push(("attachment_lookup_table", p.0, p.1, 2));
    let events = r.pair()?;
    top.push(("events", events.0, events.1, 44));
    let lights = r.pair()?;
    top.push(("lights", lights.0, lights.1, 164));
    let cameras = r.pair()?;
    top.push(("cameras", cameras.0, cameras.1, camera_size(v)));
    let p = r.pair()?;
    top.push(("camera_lookup_table", p.0, p.1, 2));
    let ribbons = r.pair()?;
    top.push(("ribbon_emitters", ribbons.0, ribbons.1, ribbon_size(v)));
    let particles = r.pair()?;
    top.push(("particle_emitters", particles.0, particles.1, PARTICLE_SIZE));
    let base_header_size = r.p as u64;
    // optional trailing header slots announced by global flags
    if v >= 260 && flags & 0x0800_0000 != 0 {
        match r.pair() {
            Ok(p) => top.push(("blend_map_overrides", p.0, p.1, 2)),
            Err(_) => {
                r.p += 8;
                w.problems.push(Problem {
                    class: "optional-header-slot:missing".into(),
                    detail: "global flag 0x08000000 announces a blend_map_overrides slot but the file ends before it".into(),
                });
            }
        }
    }
    if flags & 0x08 != 0 {
        match r.pair() {
            Ok(p) => top.push(("texture_combiner_combos", p.0, p.1, 2)),
            Err(_) => {
                r.p += 8;
                w.problems.push(Problem {
                    class: "optional-header-slot:missing".into(),
                    detail: "global flag 0x08 announces a texture_combiner_combos slot but the file ends before it".into(),
                });
            }
        }
    }
    let header_size = (r.p as u64).min(b.len() as u64);
    for (n, c, o, e) in &top {
        w.add(n, *c, *o, *e);
    }
    let inside = |w: &Walk, n: &str| w.ext.iter().any(|e| e.name == n);

    // nested arrays
    if inside(&w, "bones") {
        for i in 0..bones.0 as usize {
            let mut p = bones.1 as usize + i * bone_size(v) as usize + 12 + if v >= 260 { 4 } else { 0 };
            p += w.bone_track("bones[].translation", p, v, 12);
            p += w.bone_track("bones[].rotation", p, v, 8);
            w.bone_track("bones[].scale", p, v, 12);
        }
    }
    if inside(&w, "textures") {
        for i in 0..textures.0 as usize {
            let mut r = Rd::at(b, textures.1 as usize + i * 16 + 8);
            if let Ok(f) = r.pair() {
                w.add("textures[].filename", f.0, f.1, 1);
            }
        }
    }
    if inside(&w, "color_animations") {
        for i in 0..colors.0 as usize {
            let p = colors.1 as usize + i * 56;
            w.block("color_animations[].color", p, 12);
            w.block("color_animations[].alpha", p + 28, 2);
        }
    }
    if inside(&w, "transparency_animations") {
        for i in 0..transp.0 as usize {
            w.block("transparency_animations[].alpha", transp.1 as usize + i * 28, 4);
        }
    }
    if inside(&w, "texture_animations") {
        for i in 0..texanims.0 as usize {
            let p = texanims.1 as usize + i * 144 + 4;
            for (j, n) in ["translation_u", "translation_v", "rotation", "scale_u", "scale_v"]
                .iter()
                .enumerate()
            {
                w.block(&format!("texture_animations[].{n}"), p + j * 28, 4);
            }
        }
    }
    if inside(&w, "attachments") {
        for i in 0..attachments.0 as usize {
            w.block("attachments[].scale", attachments.1 as usize + i * 48 + 20, 4);
        }
    }
    if inside(&w, "events") {
        for i in 0..events.0 as usize {
            let mut r = Rd::at(b, events.1 as usize + i * 44 + 28);
            if let (Ok(rg), Ok(ts)) = (r.pair(), r.pair()) {
                w.add("events[].ranges", rg.0, rg.1, 8);
                w.add("events[].times", ts.0, ts.1, 4);
            }
        }
    }
    if inside(&w, "lights") {
        for i in 0..lights.0 as usize {
            let p = lights.1 as usize + i * 164 + 16;
            for (j, (n, e)) in [
                ("ambient_color", 12),
                ("diffuse_color", 12),
                ("attenuation_start", 4),
                ("attenuation_end", 4),
                ("visibility", 4),
            ]
            .iter()
            .enumerate()
            {
                w.block(&format!("lights[].{n}"), p + j * 28, *e);
            }
        }
    }
    if inside(&w, "cameras") {
        for i in 0..cameras.0 as usize {
            let p = cameras.1 as usize + i * camera_size(v) as usize + 16;
            w.block("cameras[].position", p, 12);
            w.block("cameras[].target_position", p + 28 + 12, 12);
            w.block("cameras[].roll", p + 28 + 12 + 28 + 12, 4);
        }
    }
    if inside(&w, "ribbon_emitters") {
        for i in 0..ribbons.0 as usize {
            let p = ribbons.1 as usize + i * ribbon_size(v) as usize;
            let mut r = Rd::at(b, p + 16);
            if let (Ok(t), Ok(m)) = (r.pair(), r.pair()) {
                w.add("ribbon_emitters[].texture_indices", t.0, t.1, 2);
                w.add("ribbon_emitters[].material_indices", m.0, m.1, 2);
            }
            for (j, (n, e)) in [("color", 12), ("alpha", 4), ("height_above", 4), ("height_below", 4)]
                .iter()
                .enumerate()
            {
                w.block(&format!("ribbon_emitters[].{n}"), p + 32 + j * 28, *e);
            }
        }
    }
    if inside(&w, "particle_emitters") {
        for i in 0..particles.0 as usize {
            let p = particles.1 as usize + i * PARTICLE_SIZE as usize;
            let mut r = Rd::at(b, p + 24);
            if let Ok(f) = r.pair() {
                w.add("particle_emitters[].model_filename", f.0, f.1, 1);
            }
            let mut r = Rd::at(b, p + 40);
            if let Ok(f) = r.pair() {
                w.add("particle_emitters[].texture_tile_coordinates", f.0, f.1, 8);
            }
            // 48 header bytes, 53 scalars (4 bytes each) → blocks start at 48 + 212 + 4 (unknown_1)
            let blocks = p + 48 + 53 * 4 + 4;
            for (j, e) in [4u64, 4, 4, 8, 4, 12, 4, 4, 4, 4].iter().enumerate() {
                w.block("particle_emitters[].track", blocks + j * 28, *e);
            }
        }
    }
    if v <= 263 && inside(&w, "views") {
        let sub = if v < 260 { 32 } else { 48 };
        for i in 0..views.0 as usize {
            let mut r = Rd::at(b, views.1 as usize + i * 44);
            for (n, e) in [
                ("views[].indices", 2u64),
                ("views[].triangles", 2),
                ("views[].properties", 4),
                ("views[].submeshes", sub),
                ("views[].batches", 24),
            ] {
                if let Ok(p) = r.pair() {
                    w.add(n, p.0, p.1, e);
                }
            }
        }
    }

    let layout = Layout {
        version: v,
        header_size,
        base_header_size,
        extents: w.ext.clone(),
        top: top.iter().map(|(n, c, o, e)| (n.to_string(), *c, *o, *e)).collect(),
    };
    let mut problems = w.problems;
    // data placed where the announced optional slots must be: one class whatever section it is
    if header_size > base_header_size
        && let Some(x) = layout
            .extents
            .iter()
            .filter(|x| x.start >= base_header_size && x.start < header_size)
            .min_by_key(|x| x.start)
    {
        problems.insert(
            0,
            Problem {
                class: "optional-header-slot:overlapped-by-data".into(),
                detail: format!(
                    "global flags announce optional header slots at {base_header_size}..{header_size}, but {} starts at {}",
                    x.name, x.start
                ),
            },
        );
    }
    problems.extend(overlaps(&layout.extents, header_size));
    Ok((layout, problems))
}

fn generic_pair(a: &str, b: &str) -> String {
    if a <= b { format!("{a}~{b}") } else { format!("{b}~{a}") }
}

/// extents inside the header, and pairwise overlaps between distinct extents
pub fn overlaps(ext: &[Extent], header_size: u64) -> Vec<Problem> {
    let mut out = vec![];
    let mut e: Vec<&Extent> = ext.iter().collect();
    e.sort_by(|a, b| (a.start, a.end).cmp(&(b.start, b.end)));
    for x in &e {
        if x.start < header_size {
            out.push(Problem {
                class: format!("inside-header:{}", x.name),
                detail: format!(
                    "{} occupies {}..{} but the header needs 0..{header_size}",
                    x.name, x.start, x.end
                ),
            });
        }
    }
    // sweep: compare each extent with the furthest-reaching earlier one
    let mut reach: Option<&Extent> = None;
    for x in &e {
        if let Some(r) = reach {
            let same = r.start == x.start && r.end == x.end;
            if x.start < r.end && !same {
                out.push(Problem {
                    class: format!("overlap:{}", generic_pair(&r.name, &x.name)),
                    detail: format!(
                        "{} at {}..{} overlaps {} at {}..{}",
                        r.name, r.start, r.end, x.name, x.start, x.end
                    ),
                });
            }
        }
        if reach.is_none_or(|r| x.end > r.end) {
            reach = Some(x);
        }
    }
    out
}

/// first run of bytes after the header that no extent covers: (start, end, top-level section
/// that ends where the run starts)
pub fn first_gap(l: &Layout, file_len: u64) -> Option<(u64, u64, String)> {
    let mut e: Vec<&Extent> = l.extents.iter().collect();
    e.sort_by_key(|x| (x.start, x.end));
    let mut pos = l.header_size;
    let mut after = "header".to_string();
    for x in e {
        if x.start > pos {
            return Some((pos, x.start, after));
        }
        if x.end >= pos {
            pos = x.end;
            after = x.name.split(['[', '.']).next().unwrap_or("").to_string();
        }
    }
    if pos < file_len {
        return Some((pos, file_len, after));
    }
    None
}

/// name of the extent that contains byte `pos` (for classifying byte differences)
pub fn locate(l: &Layout, pos: u64) -> String {
    if pos < l.header_size {
        return "header".into();
    }
    // innermost = smallest containing extent
    l.extents
        .iter()
        .filter(|e| e.start <= pos && pos < e.end)
        .min_by_key(|e| e.end - e.start)
        .map(|e| e.name.clone())
        .unwrap_or_else(|| "unreferenced".into())
}

// ---------------------------------------------------------------------------------------
// SKIN files (docs/src/formats/graphics/m2-skin.md): "SKIN", then either five (count, offset)
// pairs + bone_count_max (old layout, 48-byte header) or version, name pair, vertex count, five
// pairs (new layout, 60-byte header). Elements: index 2, triangle index 2, bone indices 4 per
// vertex, submesh 48, batch 24.

pub fn walk_skin(b: &[u8], new_layout: bool) -> Result<(Layout, Vec<Problem>), String> {
    if b.len() < 8 || &b[0..4] != b"SKIN" {
        return Err("no SKIN magic".into());
    }
    let mut w = Walk {
        b,
        ext: vec![],
        problems: vec![],
    };
    let mut r = Rd::at(b, 4);
    let mut version = 0;
    if new_layout {
        version = r.u32()?;
        let n = r.pair()?;
        w.add("name", n.0, n.1, 1);
        r.u32()?;
    }
    for (n, e) in [
        ("indices", 2u64),
        ("triangles", 2),
        ("bone_indices", 4),
        ("submeshes", 48),
        ("batches", 24),
    ] {
        let p = r.pair()?;
        w.add(n, p.0, p.1, e);
    }
    if !new_layout {
        r.u32()?;
    }
    let header_size = r.p as u64;
    let layout = Layout {
        version,
        header_size,
        base_header_size: header_size,
        extents: w.ext.clone(),
        top: vec![],
    };
    let mut problems = w.problems;
    problems.extend(overlaps(&layout.extents, header_size));
    Ok((layout, problems))
}
