//! proptest strategies for the three case kinds, the exclusion switches that steer around open
//! findings, and the deterministic grid / canary specs.

use crate::oracle::*;
use crate::spec::*;
use proptest::collection::vec;
use proptest::prelude::*;

/// Exclusion switches. `true` = steer around the open finding of that name (by rewriting the
/// generated spec, never by rejecting it). Canary cases exercise each region with its switch off.
#[derive(Clone, Copy, Debug)]
pub struct Excl {
    /// textures carrying a file name (writer patches the name reference at a wrong position)
    pub texture_filenames: bool,
    /// events with per-animation ranges (ranges are written but not mapped)
    pub event_ranges: bool,
    /// global flags that announce optional header slots the writer never emits (0x08, 0x0800_0000)
    pub header_slot_flags: bool,
    /// vanilla sequences whose start time is within 1000 ms of u32::MAX (eager `start + 1000`)
    pub seq_start_overflow: bool,
    /// embedded skin profiles with batches (count is len/96 on write, 24 bytes per batch on parse)
    pub embedded_skin_batches: bool,
    /// embedded skin profiles carried across a version conversion between 256 and 260
    pub embedded_skins_on_convert: bool,
    /// bone-track ranges (pre-WotLK) carried into a WotLK+ target (written as unreferenced bytes)
    pub bone_ranges_on_upconvert: bool,
    /// skins with submeshes and batches together (batch offset assumes 40-byte submeshes)
    pub skin_batches_after_submeshes: bool,
    /// modern ANIM sections with key-frame tracks (section size covers the bone data)
    pub anim_modern_tracks: bool,
    /// legacy ANIM container (its parser is a placeholder)
    pub anim_legacy: bool,
    /// key-frame arrays whose counts disagree or that share storage
    pub odd_key_counts: bool,
}

impl Excl {
    /// the switches of the findings that are still open (the others were repaired in /repo and
    /// their regions are explored at full depth again)
    pub fn all() -> Excl {
        Excl {
            texture_filenames: false,
            event_ranges: false,
            header_slot_flags: false,
            seq_start_overflow: false,
            embedded_skin_batches: false,
            embedded_skins_on_convert: false,
            bone_ranges_on_upconvert: false,
            skin_batches_after_submeshes: false,
            anim_modern_tracks: false,
            anim_legacy: true,
            odd_key_counts: false,
        }
    }
    pub fn none() -> Excl {
        Excl {
            texture_filenames: false,
            event_ranges: false,
            header_slot_flags: false,
            seq_start_overflow: false,
            embedded_skin_batches: false,
            embedded_skins_on_convert: false,
            bone_ranges_on_upconvert: false,
            skin_batches_after_submeshes: false,
            anim_modern_tracks: false,
            anim_legacy: false,
            odd_key_counts: false,
        }
    }
    /// rewrite `c` so that it stays outside the excluded regions; returns the switches that fired
    pub fn apply(&self, c: &mut ModelCase) -> Vec<&'static str> {
        let mut fired = vec![];
        let s = &mut c.spec;
        if self.texture_filenames && s.textures.iter().any(|t| t.filename.is_some()) {
            for t in &mut s.textures {
                t.filename = None;
            }
            fired.push("texture_filenames");
        }
        if self.event_ranges && s.events.iter().any(|e| e.n_rng > 0) {
            for e in &mut s.events {
                e.n_rng = 0;
            }
            fired.push("event_ranges");
        }
        if self.header_slot_flags && s.flags & 0x0800_0008 != 0 {
            s.flags &= !0x0800_0008;
            fired.push("header_slot_flags");
        }
        if self.seq_start_overflow {
            let mut hit = false;
            for q in &mut s.sequences {
                if q.start > u32::MAX - 1000 {
                    q.start = u32::MAX - 1000;
                    hit = true;
                }
            }
            if hit {
                fired.push("seq_start_overflow");
            }
        }
        if self.embedded_skin_batches && s.embedded_skins.iter().any(|e| e.n_batch > 0) {
            for e in &mut s.embedded_skins {
                e.n_batch = 0;
            }
            fired.push("embedded_skin_batches");
        }
        if self.embedded_skins_on_convert
            && !s.embedded_skins.is_empty()
            && s.ver.num() <= 263
            && c.target.num() <= 263
            && c.target.num() != s.ver.num()
        {
            s.embedded_skins.clear();
            fired.push("embedded_skins_on_convert");
        }
        if self.bone_ranges_on_upconvert && s.ver.num() < 264 && c.target.num() >= 264 {
            let mut hit = false;
            for b in &mut s.bones {
                for k in [&mut b.t, &mut b.r, &mut b.s].into_iter().flatten() {
                    if k.n_rng > 0 && (k.n_ts > 0 || k.n_val > 0) {
                        k.n_rng = 0;
                        hit = true;
                    }
                }
            }
            if hit {
                fired.push("bone_ranges_on_upconvert");
            }
        }
        fired
    }
    pub fn apply_skin(&self, s: &mut SkinSpec) -> Vec<&'static str> {
        let mut fired = vec![];
        if self.skin_batches_after_submeshes && !s.submeshes.is_empty() && !s.batches.is_empty() {
            s.batches.clear();
            fired.push("skin_batches_after_submeshes");
        }
        fired
    }
    pub fn apply_anim(&self, a: &mut AnimSpec) -> Vec<&'static str> {
        let mut fired = vec![];
        if self.anim_legacy && !a.modern {
            a.modern = true;
            fired.push("anim_legacy");
        }
        if self.anim_modern_tracks
            && a.modern
            && a.sections.iter().flat_map(|s| &s.bones).any(|b| b.t.is_some() || b.r.is_some() || b.s.is_some())
        {
            for b in a.sections.iter_mut().flat_map(|s| &mut s.bones) {
                b.t = None;
                b.r = None;
                b.s = None;
            }
            fired.push("anim_modern_tracks");
        }
        fired
    }
}

// ---------------------------------------------------------------------------------------

fn size(many: usize) -> impl Strategy<Value = usize> {
    prop_oneof![3 => Just(0usize), 2 => Just(1usize), 3 => 2..=many]
}

fn sized<S: Strategy + 'static>(elem: S, many: usize) -> BoxedStrategy<Vec<S::Value>>
where
    S::Value: 'static,
{
    let elem = elem.boxed();
    size(many)
        .prop_flat_map(move |n| vec(elem.clone(), n))
        .boxed()
}

fn seed() -> impl Strategy<Value = u32> {
    prop_oneof![1 => Just(0u32), 6 => any::<u32>()]
}

fn u32x() -> impl Strategy<Value = u32> {
    prop_oneof![
        2 => Just(0u32), 2 => Just(u32::MAX), 1 => Just(u32::MAX - 999), 1 => Just(0x8000_0000u32),
        3 => 0u32..1000, 4 => any::<u32>()
    ]
}

fn u16x() -> impl Strategy<Value = u16> {
    prop_oneof![1 => Just(0u16), 1 => Just(u16::MAX), 3 => any::<u16>()]
}

fn keys() -> impl Strategy<Value = Keys> {
    (
        0u8..4,
        prop_oneof![2 => Just(0xFFFFu16), 1 => 0u16..4, 1 => any::<u16>()],
        0u8..3,
        prop_oneof![1 => Just(1u8), 2 => 1u8..5, 1 => Just(0u8)],
        prop_oneof![5 => Just(None), 1 => (0u8..5).prop_map(Some)],
        any::<u32>(),
        prop::bool::weighted(0.08),
    )
        .prop_map(|(interp, gseq, n_rng, n_ts, nv, seed, share_prev)| Keys {
            interp,
            gseq,
            n_rng,
            n_ts,
            n_val: nv.unwrap_or(n_ts),
            seed,
            share_prev,
        })
}

fn opt_keys() -> impl Strategy<Value = Option<Keys>> {
    prop_oneof![3 => Just(None), 2 => keys().prop_map(Some)]
}

fn animated(tracks: usize) -> impl Strategy<Value = Animated> {
    (seed(), vec(opt_keys(), tracks)).prop_map(|(seed, k)| Animated { seed, k })
}

fn name() -> impl Strategy<Value = Option<String>> {
    prop_oneof![
        1 => Just(None),
        1 => Just(Some(String::new())),
        4 => "[A-Za-z0-9_\\\\/. ]{1,40}".prop_map(Some),
        1 => "\\PC{1,30}".prop_map(Some),
        1 => "[a-z]{150,200}".prop_map(Some),
    ]
}

fn ver() -> impl Strategy<Value = Ver> {
    prop::sample::select(Ver::ALL.to_vec())
}

pub fn model_case(x: Excl) -> impl Strategy<Value = (ModelCase, Vec<&'static str>)> {
    let a = (
        ver(),
        ver(),
        any::<bool>(),
        name(),
        prop_oneof![2 => Just(0u32), 2 => 0u32..0x1_0000, 2 => any::<u32>()],
        seed(),
        u32x(),
        sized(u32x(), 6),
        sized((seed(), u32x()).prop_map(|(seed, start)| SeqSpec { seed, start }), 5),
        sized(u16x(), 8),
    );
    let b = (
        sized(
            (seed(), any::<u16>(), opt_keys(), opt_keys(), opt_keys())
                .prop_map(|(seed, p, t, r, s)| BoneSpec { seed, parent: p as i16, t, r, s }),
            5,
        ),
        sized(u16x(), 6),
        prop_oneof![4 => sized((seed(), any::<[u8; 4]>(), any::<[u8; 4]>(), any::<bool>()), 6),
                    1 => vec((seed(), any::<[u8; 4]>(), any::<[u8; 4]>(), any::<bool>()), 30..60).boxed()],
        sized(
            (
                prop_oneof![4 => 0u32..15, 1 => Just(255u32), 1 => any::<u32>()],
                prop_oneof![3 => 0u32..8, 1 => any::<u32>()],
                prop_oneof![1 => Just(None), 3 => "[A-Za-z0-9_\\\\/. ]{0,60}\\.blp".prop_map(Some)],
            )
                .prop_map(|(ty, flags, filename)| TexSpec { ty, flags, filename }),
            4,
        ),
        sized((any::<u16>(), any::<u16>()), 5),
        vec(sized(u16x(), 6), 7),
        sized(u16x(), 9),
        sized(seed(), 4),
        sized(seed(), 4),
    );
    let c = (
        sized(animated(1), 4),
        sized(
            (seed(), 0u8..3, 0u8..4, any::<u32>())
                .prop_map(|(seed, n_rng, n_ts, kseed)| EventSpec { seed, n_rng, n_ts, kseed }),
            4,
        ),
        sized(animated(5), 3),
        sized(animated(3), 3),
        sized(animated(4), 3),
        sized(animated(10), 3),
        sized(animated(5), 3),
        sized(animated(2), 3),
        sized(animated(1), 3),
        sized(
            (0u8..6, 0u8..6, 0u8..4, 0u8..3, 0u8..3, u32x(), seed()).prop_map(
                |(n_idx, n_tri, n_prop, n_sub, n_batch, bone_count_max, seed)| EmbSkinSpec {
                    n_idx,
                    n_tri,
                    n_prop,
                    n_sub,
                    n_batch,
                    bone_count_max,
                    seed,
                },
            ),
            3,
        ),
        // sparse models are the interesting ones for offset bookkeeping: mask of live sections
        prop_oneof![2 => Just(u32::MAX), 3 => any::<u32>(), 1 => any::<u32>().prop_map(|m| m & (m >> 7))],
        prop_oneof![1 => Just(0u8), 1 => Just(1u8), 1 => Just(2u8)],
    );
    (a, b, c).prop_map(move |(a, b, c)| {
        let (ver, target, via_converter, name, flags, hdr_seed, num_skin_profiles, global_sequences, sequences, animation_lookup) = a;
        let (bones, key_bone_lookup, vertices, textures, materials, lookups, bounding_triangles, bounding_vertices, bounding_normals) = b;
        let (attachments, events, lights, cameras, ribbons, particles, tex_anims, color_anims, transp_anims, embedded_skins, mask, keymode) = c;
        let mut spec = ModelSpec {
            ver,
            // one model in eight carries an intermediate build number of its version
            hdr_version: if hdr_seed % 8 == 0 { match ver { Ver::Vanilla => Some(257 + (hdr_seed / 8) % 3), Ver::TBC => Some(261 + (hdr_seed / 8) % 3), Ver::WotLK => Some(265 + (hdr_seed / 8) % 7), _ => None } } else { None },
            name,
            flags,
            hdr_seed,
            num_skin_profiles,
            global_sequences,
            sequences,
            animation_lookup,
            bones,
            key_bone_lookup,
            vertices: vertices
                .into_iter()
                .map(|(seed, weights, indices, tc2)| VertexSpec { seed, weights, indices, tc2 })
                .collect(),
            textures,
            materials,
            lookups,
            bounding_triangles,
            bounding_vertices,
            bounding_normals,
            attachments,
            events,
            lights,
            cameras,
            ribbons,
            particles,
            tex_anims,
            color_anims,
            transp_anims,
            embedded_skins,
        };
        apply_mask(&mut spec, mask);
        normalise(&mut spec, keymode, x.odd_key_counts);
        let mut case = ModelCase { spec, target, via_converter };
        let fired = x.apply(&mut case);
        (case, fired)
    })
}

/// drop the sections whose mask bit is clear
pub fn apply_mask(s: &mut ModelSpec, mask: u32) {
    let on = |i: u32| mask & (1 << i) != 0;
    if !on(0) { s.global_sequences.clear(); }
    if !on(1) { s.sequences.clear(); }
    if !on(2) { s.animation_lookup.clear(); }
    if !on(3) { s.bones.clear(); }
    if !on(4) { s.key_bone_lookup.clear(); }
    if !on(5) { s.vertices.clear(); }
    if !on(6) { s.textures.clear(); }
    if !on(7) { s.materials.clear(); }
    for i in 0..7 {
        if !on(8 + i as u32) && let Some(l) = s.lookups.get_mut(i) { l.clear(); }
    }
    if !on(15) { s.bounding_triangles.clear(); }
    if !on(16) { s.bounding_vertices.clear(); }
    if !on(17) { s.bounding_normals.clear(); }
    if !on(18) { s.attachments.clear(); }
    if !on(19) { s.events.clear(); }
    if !on(20) { s.lights.clear(); }
    if !on(21) { s.cameras.clear(); }
    if !on(22) { s.ribbons.clear(); }
    if !on(23) { s.particles.clear(); }
    if !on(24) { s.tex_anims.clear(); }
    if !on(25) { s.color_anims.clear(); }
    if !on(26) { s.transp_anims.clear(); }
    if !on(27) { s.embedded_skins.clear(); }
    if !on(28) { s.name = None; }
}

/// Establish the preconditions real callers respect:
/// * bone hierarchy: parent is -1 or an earlier bone;
/// * vertex bone indices refer to existing bones (the parser documents that it repairs
///   out-of-range indices), and a model without bones keeps a non-zero weight on index 0;
/// * keymode 0 strips every key-frame payload (static model), 1 keeps them, 2 keeps bones only;
/// * unless `odd` is allowed, timestamps and values of one track have the same length.
pub fn normalise(s: &mut ModelSpec, keymode: u8, _odd: bool) {
    let nb = s.bones.len();
    for (i, b) in s.bones.iter_mut().enumerate() {
        b.parent = if i == 0 || b.parent as u16 % 3 == 0 {
            -1
        } else {
            (b.parent as u16 as usize % i) as i16
        };
    }
    for v in &mut s.vertices {
        if nb == 0 {
            v.indices = [0; 4];
            if v.weights.iter().all(|&w| w == 0) {
                v.weights[0] = 255;
            }
        } else {
            for i in &mut v.indices {
                *i = (*i as usize % nb.min(256)) as u8;
            }
        }
    }
    if s.ver.num() > 263 {
        s.embedded_skins.clear();
    } else {
        s.num_skin_profiles = 0;
    }
    let strip = |v: &mut Vec<Animated>| {
        for a in v {
            for k in &mut a.k {
                *k = None;
            }
        }
    };
    if keymode == 0 || keymode == 2 {
        strip(&mut s.attachments);
        strip(&mut s.lights);
        strip(&mut s.cameras);
        strip(&mut s.ribbons);
        strip(&mut s.particles);
        strip(&mut s.tex_anims);
        strip(&mut s.color_anims);
        strip(&mut s.transp_anims);
        for e in &mut s.events {
            e.n_rng = 0;
            e.n_ts = 0;
        }
    }
    if keymode == 0 {
        for b in &mut s.bones {
            b.t = None;
            b.r = None;
            b.s = None;
        }
    }
}

// ---------------------------------------------------------------------------------------
// skin / anim strategies

pub fn skin_spec(x: Excl) -> impl Strategy<Value = (SkinSpec, Vec<&'static str>)> {
    (
        prop_oneof![2 => Just(None), 1 => Just(Some(0u32)), 2 => Just(Some(1u32)), 2 => Just(Some(2u32)), 1 => Just(Some(3u32)), 2 => Just(Some(4u32)), 2 => Just(Some(5u32))],
        prop_oneof![2 => sized(u16x(), 4), 3 => vec(u16x(), 5..40).boxed()],
        sized(u16x(), 12),
        sized(any::<[u8; 4]>(), 8),
        sized(seed(), 5),
        sized(seed(), 5),
        u32x(),
        u32x(),
        ver(),
    )
        .prop_map(
            move |(new_version, indices, triangles, bone_quads, submeshes, batches, bone_count_max, vertex_count, target)| {
                let mut s = SkinSpec {
                    new_version,
                    indices,
                    triangles,
                    bone_quads,
                    submeshes,
                    batches,
                    bone_count_max,
                    vertex_count,
                    target,
                };
                let fired = x.apply_skin(&mut s);
                (s, fired)
            },
        )
}

pub fn anim_spec(x: Excl) -> impl Strategy<Value = (AnimSpec, Vec<&'static str>)> {
    // key counts: mostly small; one in 25 tracks is longer than the crate's pre-allocation cap
    // (`bounded_capacity` = 1024), placed at its boundary
    let track = || prop_oneof![36 => Just(None), 24 => (0u16..5).prop_map(Some), 1 => prop_oneof![Just(1023u16), Just(1024), Just(1025), Just(1100), Just(2049)].prop_map(Some)];
    let bone = (u32x(), track(), track(), track(), seed())
        .prop_map(|(bone_id, t, r, s, seed)| AnimBoneSpec { bone_id, t, r, s, seed });
    let section = (u32x(), u32x(), u32x(), sized(bone, 5))
        .prop_map(|(id, start, end, bones)| AnimSectionSpec { id, start, end, bones });
    (any::<bool>(), u32x(), u32x(), sized(section, 4)).prop_map(move |(modern, version, unknown, sections)| {
        let mut a = AnimSpec {
            modern,
            version,
            unknown,
            sections,
        };
        let fired = x.apply_anim(&mut a);
        (a, fired)
    })
}

// ---------------------------------------------------------------------------------------
// deterministic grid

pub const SECTIONS: [&str; 28] = [
    "global_sequences", "sequences", "animation_lookup", "bones", "key_bone_lookup", "vertices",
    "textures", "materials", "bone_lookup_table", "texture_lookup_table", "texture_units",
    "transparency_lookup_table", "texture_animation_lookup", "attachment_lookup_table",
    "camera_lookup_table", "bounding_triangles", "bounding_vertices", "bounding_normals",
    "attachments", "events", "lights", "cameras", "ribbons", "particles", "tex_anims",
    "color_anims", "transp_anims", "embedded_skins",
];

fn k(n: u8, seed: u32) -> Option<Keys> {
    Some(Keys {
        interp: 1,
        gseq: 0xFFFF,
        n_rng: 1,
        n_ts: n,
        n_val: n,
        seed,
        share_prev: false,
    })
}

/// a model with every section holding `n` elements (file names / event ranges / key frames
/// as requested); all scalar content comes from fixed seeds
pub fn full_spec(ver: Ver, n: usize, with_keys: bool, filenames: bool) -> ModelSpec {
    let sd = |i: usize, j: usize| (0x5EED_0000u32 + (i as u32) * 131 + j as u32) | 1;
    let anim = |i: usize, tracks: usize| -> Vec<Animated> {
        (0..n)
            .map(|j| Animated {
                seed: sd(i, j),
                k: (0..tracks)
                    .map(|t| if with_keys && (t + j) % 2 == 0 { k(2 + (t % 2) as u8, sd(i + 50, j * 16 + t)) } else { None })
                    .collect(),
            })
            .collect()
    };
    let mut s = ModelSpec {
        ver,
        hdr_version: None,
        name: Some("Grid\\Model.m2".to_string()),
        flags: 0,
        hdr_seed: sd(0, 0),
        num_skin_profiles: if ver.num() > 263 { 2 } else { 0 },
        global_sequences: (0..n as u32).map(|i| 1000 + i).collect(),
        sequences: (0..n).map(|j| SeqSpec { seed: sd(1, j), start: 100 * j as u32 }).collect(),
        animation_lookup: (0..n as u16).collect(),
        bones: (0..n)
            .map(|j| BoneSpec {
                seed: sd(2, j),
                parent: j as i16 - 1,
                t: if with_keys { k(2, sd(60, j)) } else { None },
                r: if with_keys && j % 2 == 0 { k(3, sd(61, j)) } else { None },
                s: None,
            })
            .collect(),
        key_bone_lookup: (0..n as u16).collect(),
        vertices: (0..n)
            .map(|j| VertexSpec { seed: sd(3, j), weights: [255, 0, 0, 0], indices: [0; 4], tc2: j % 2 == 0 })
            .collect(),
        textures: (0..n)
            .map(|j| TexSpec {
                ty: j as u32 % 3,
                flags: 3,
                filename: if filenames && j % 2 == 0 { Some(format!("Textures\\grid{j}.blp")) } else { None },
            })
            .collect(),
        materials: (0..n).map(|j| (j as u16, (j % 8) as u16)).collect(),
        lookups: (0..7).map(|i| (0..n as u16).map(|j| j + i).collect()).collect(),
        bounding_triangles: (0..3 * n as u16).collect(),
        bounding_vertices: (0..n).map(|j| sd(4, j)).collect(),
        bounding_normals: (0..n).map(|j| sd(5, j)).collect(),
        attachments: anim(6, 1),
        events: (0..n)
            .map(|j| EventSpec { seed: sd(7, j), n_rng: 0, n_ts: if with_keys { 2 } else { 0 }, kseed: sd(70, j) })
            .collect(),
        lights: anim(8, 5),
        cameras: anim(9, 3),
        ribbons: anim(10, 4),
        particles: anim(11, 10),
        tex_anims: anim(12, 5),
        color_anims: anim(13, 2),
        transp_anims: anim(14, 1),
        embedded_skins: if ver.num() <= 263 {
            (0..n.min(2))
                .map(|j| EmbSkinSpec { n_idx: 4, n_tri: 6, n_prop: 4, n_sub: 1, n_batch: 0, bone_count_max: 21, seed: sd(15, j) })
                .collect()
        } else {
            vec![]
        },
    };
    normalise(&mut s, 1, false);
    s
}

/// `full_spec` reduced to one section (index into SECTIONS) — or to none
pub fn only_section(mut s: ModelSpec, idx: Option<usize>, keep_name: bool) -> ModelSpec {
    let mask = match idx {
        Some(i) => 1u32 << i,
        None => 0,
    } | if keep_name { 1 << 28 } else { 0 };
    apply_mask(&mut s, mask);
    s
}
