//! C13 — M2, skin and anim files survive write→parse, also across version conversion.
mod canon;
mod m2layout;
mod oracle;
mod spec;
mod strat;

use oracle::*;
use serde_json::{Value, json};
use spec::*;
use strat::*;
use vcheck::engine::{CaseResult, Check, pt};

fn bucket(n: usize) -> &'static str {
    match n {
        0 => "0",
        1..=2 => "1-2",
        3..=5 => "3-5",
        6..=10 => "6-10",
        11..=18 => "11-18",
        _ => "19+",
    }
}

fn model_class(c: &ModelCase) -> (String, bool) {
    let pop = c.spec.populated();
    let keys = c.spec.has_keys();
    let cross = crosses_threshold(c.spec.ver, c.target);
    let tex = c.spec.textures.iter().any(|t| t.filename.is_some());
    let nt = pop.len() >= 3 || keys || cross;
    (
        format!(
            "m2:{}->{}:sec{}:keys{}:texname{}:emb{}",
            c.spec.ver.name(),
            c.target.name(),
            bucket(pop.len()),
            keys as u8,
            tex as u8,
            pop.contains(&"embedded_skins") as u8,
        ),
        nt,
    )
}

fn run_model(check: &Check, prefix: &str, c: &ModelCase) -> CaseResult {
    let (class, nt) = model_class(c);
    check.count(&format!("{prefix}{class}"), nt);
    let r = check_model(c)?;
    if c.spec.hdr_version.is_some() {
        check.bump("models_with_intermediate_header_version", 1);
    }
    if let Some(k) = r.rejected {
        check.bump(&format!("writer_rejected:{k}"), 1);
    } else {
        check.bump("models_written_and_parsed", 1);
    }
    Ok(())
}

fn skin_class(s: &SkinSpec) -> (String, bool) {
    let parts = [
        !s.indices.is_empty(),
        !s.triangles.is_empty(),
        !s.bone_quads.is_empty(),
        !s.submeshes.is_empty(),
        !s.batches.is_empty(),
    ];
    let n = parts.iter().filter(|x| **x).count();
    let layout = match s.new_version {
        None => "old".to_string(),
        Some(v) => format!("new{v}"),
    };
    (
        format!(
            "skin:{layout}->{}:arrays{n}:sub{}:batch{}:idx{}",
            s.target.name(),
            bucket(s.submeshes.len()),
            bucket(s.batches.len()),
            if s.indices.len() <= 4 { "<=4" } else { ">4" }
        ),
        n >= 3,
    )
}

fn run_skin(check: &Check, prefix: &str, s: &SkinSpec) -> CaseResult {
    let (class, nt) = skin_class(s);
    check.count(&format!("{prefix}{class}"), nt);
    if let Some(k) = check_skin(s)? {
        check.bump(&format!("writer_rejected:skin:{k}"), 1);
    }
    Ok(())
}

fn anim_class(a: &AnimSpec) -> (String, bool) {
    let bones: usize = a.sections.iter().map(|s| s.bones.len()).sum();
    let tracks: usize = a
        .sections
        .iter()
        .flat_map(|s| &s.bones)
        .map(|b| b.t.is_some() as usize + b.r.is_some() as usize + b.s.is_some() as usize)
        .sum();
    (
        format!(
            "anim:{}:sections{}:bones{}:tracks{}",
            if a.modern { "modern" } else { "legacy" },
            bucket(a.sections.len()),
            bucket(bones),
            bucket(tracks)
        ),
        tracks > 0 || a.sections.len() >= 2,
    )
}

fn run_anim(check: &Check, prefix: &str, a: &AnimSpec) -> CaseResult {
    let (class, nt) = anim_class(a);
    check.count(&format!("{prefix}{class}"), nt);
    if let Some(k) = check_anim(a)? {
        check.bump(&format!("writer_rejected:anim:{k}"), 1);
    }
    Ok(())
}

fn jm(c: &ModelCase) -> Value {
    json!({"kind": "model", "case": c})
}
fn js(c: &SkinSpec) -> Value {
    json!({"kind": "skin", "case": c})
}
fn ja(c: &AnimSpec) -> Value {
    json!({"kind": "anim", "case": c})
}

fn direct<F: FnOnce() -> CaseResult>(check: &Check, case: Value, f: F) {
    let r = vcheck::engine::guard("c13-case", f).and_then(|x| x);
    if let Err(fl) = r {
        check.fail(&fl, case);
    }
}

/// Deterministic grid: essential classes by construction, independent of VERIF_SEED.
fn grid(check: &Check) {
    let x = Excl::all();
    for ver in Ver::ALL {
        // empty model, name only, every section alone at one and at three elements
        for (label, spec) in [
            ("empty", only_section(full_spec(ver, 1, false, false), None, false)),
            ("name-only", only_section(full_spec(ver, 1, false, false), None, true)),
        ] {
            let c = ModelCase { spec, target: ver, via_converter: false };
            check.bump(&format!("grid:{label}"), 1);
            direct(check, jm(&c), || run_model(check, "grid:", &c));
        }
        for (i, sec) in SECTIONS.iter().enumerate() {
            if *sec == "embedded_skins" && ver.num() > 263 {
                continue;
            }
            for n in [1usize, 3] {
                for keys in [false, true] {
                    let mut c = ModelCase {
                        spec: only_section(full_spec(ver, n, keys, false), Some(i), n == 3),
                        target: ver,
                        via_converter: false,
                    };
                    x.apply(&mut c);
                    check.bump(&format!("grid:section:{sec}"), 1);
                    direct(check, jm(&c), || run_model(check, "grid:", &c));
                }
            }
        }
        // skeletons above the range of a byte-wide bone index: 255/256/300 bones, vertices that use the two highest
        // indices a byte can hold for that skeleton (254/255 once the model has 256 bones or more)
        for nb in [255usize, 256, 300] {
            let mut spec = only_section(full_spec(ver, 2, false, false), None, true);
            spec.bones = (0..nb).map(|i| crate::spec::BoneSpec { seed: 9000 + i as u32, parent: if i == 0 { -1 } else { (i - 1) as i16 }, t: None, r: None, s: None }).collect();
            spec.vertices = (0..6u32)
                .map(|i| crate::spec::VertexSpec { seed: 77 + i, weights: [[255, 0, 0, 0], [128, 127, 0, 0], [0, 0, 0, 0]][i as usize % 3], indices: { let top = (nb - 1).min(255) as u8; [[top, 0, 0, 0], [top - 1, top, 0, 0], [top, top, top, top]][i as usize / 2] }, tc2: false })
                .collect();
            let mut c = ModelCase { spec, target: ver, via_converter: false };
            x.apply(&mut c);
            check.bump("grid:many-bones", 1);
            direct(check, jm(&c), || run_model(check, "grid:", &c));
        }
        // intermediate build numbers of the version: full model and every section alone
        let inter: &[u32] = match ver {
            Ver::Vanilla => &[257, 258, 259],
            Ver::TBC => &[261, 262, 263],
            Ver::WotLK => &[265, 268, 271],
            _ => &[],
        };
        for &h in inter {
            for idx in std::iter::once(None).chain((0..SECTIONS.len()).map(Some)) {
                if idx.is_some_and(|i| SECTIONS[i] == "embedded_skins" && ver.num() > 263) {
                    continue;
                }
                let mut spec = match idx {
                    None => full_spec(ver, 2, true, false),
                    Some(i) => only_section(full_spec(ver, 2, true, false), Some(i), true),
                };
                spec.hdr_version = Some(h);
                let mut c = ModelCase { spec, target: ver, via_converter: false };
                x.apply(&mut c);
                check.bump("grid:intermediate-header-version", 1);
                direct(check, jm(&c), || run_model(check, "grid:", &c));
            }
        }
        // all sections populated × all conversion targets × both conversion entry points
        for target in Ver::ALL {
            for keys in [false, true] {
                for via in [false, true] {
                    let mut c = ModelCase {
                        spec: full_spec(ver, 2, keys, false),
                        target,
                        via_converter: via,
                    };
                    x.apply(&mut c);
                    check.bump(&format!("grid:pair:{}->{}", ver.name(), target.name()), 1);
                    direct(check, jm(&c), || run_model(check, "grid:", &c));
                }
            }
        }
    }
    // skins: both layouts × empty / one / many per array × all targets
    for layout in [None, Some(0u32), Some(1), Some(2), Some(3), Some(4), Some(5)] {
        for n in [0usize, 1, 6] {
            for target in Ver::ALL {
                for with_batches in [false, true] {
                    let s = SkinSpec {
                        new_version: layout,
                        indices: (0..(n * 3) as u16).collect(),
                        triangles: (0..(n * 3) as u16).rev().collect(),
                        bone_quads: (0..n).map(|i| [i as u8, 1, 2, 3]).collect(),
                        submeshes: (0..n.min(3)).map(|i| 0x51A0 + i as u32).collect(),
                        batches: if with_batches { (0..n.min(3)).map(|i| 0xBA70 + i as u32).collect() } else { vec![] },
                        bone_count_max: 21,
                        vertex_count: (n * 3) as u32,
                        target,
                    };
                    check.bump(&format!("grid:skin:{}", if layout.is_some() { "new" } else { "old" }), 1);
                    direct(check, js(&s), || run_skin(check, "grid:", &s));
                }
            }
        }
    }
    // anim files: both containers × 0/1/3 sections × bones without / with tracks
    for modern in [false, true] {
        for nsec in [0usize, 1, 3] {
            for nb in [0usize, 1, 3] {
                for tracks in [false, true] {
                    let a = AnimSpec {
                        modern,
                        version: 1,
                        unknown: 0,
                        sections: (0..nsec)
                            .map(|i| AnimSectionSpec {
                                id: 1 + i as u32,
                                start: 0,
                                end: 0,
                                bones: (0..nb)
                                    .map(|j| AnimBoneSpec {
                                        bone_id: j as u32,
                                        t: if tracks { Some(2) } else { None },
                                        r: if tracks && j % 2 == 0 { Some(1) } else { None },
                                        s: None,
                                        seed: 0xA11 + j as u32,
                                    })
                                    .collect(),
                            })
                            .collect(),
                    };
                    check.bump(&format!("grid:anim:{}", if modern { "modern" } else { "legacy" }), 1);
                    direct(check, ja(&a), || run_anim(check, "grid:", &a));
                }
            }
        }
    }
}

/// Canaries: a fixed set of cases inside each excluded region, so that every open finding keeps
/// being measured (and its disappearance after a fix is noticed).
fn canaries(check: &Check) {
    for ver in Ver::ALL {
        // texture file names
        for n in [1usize, 3] {
            let c = ModelCase { spec: only_section(full_spec(ver, n, false, true), Some(6), true), target: ver, via_converter: false };
            check.bump("canary:texture_filenames", 1);
            direct(check, jm(&c), || run_model(check, "canary:", &c));
            let c = ModelCase { spec: full_spec(ver, n, false, true), target: ver, via_converter: false };
            check.bump("canary:texture_filenames", 1);
            direct(check, jm(&c), || run_model(check, "canary:", &c));
        }
        // event ranges
        let mut s = only_section(full_spec(ver, 2, true, false), Some(19), false);
        for e in &mut s.events {
            e.n_rng = 1;
        }
        let c = ModelCase { spec: s, target: ver, via_converter: false };
        check.bump("canary:event_ranges", 1);
        direct(check, jm(&c), || run_model(check, "canary:", &c));
        // header slot flags
        for fl in [0x08u32, 0x0800_0000, 0x0800_0008] {
            let mut s = only_section(full_spec(ver, 1, false, false), Some(5), true);
            s.flags = fl;
            let c = ModelCase { spec: s, target: ver, via_converter: false };
            check.bump("canary:header_slot_flags", 1);
            direct(check, jm(&c), || run_model(check, "canary:", &c));
        }
        // sequence start near u32::MAX
        let mut s = only_section(full_spec(ver, 1, false, false), Some(1), false);
        s.sequences[0].start = u32::MAX - 5;
        for target in [ver, Ver::Vanilla] {
            let c = ModelCase { spec: s.clone(), target, via_converter: false };
            check.bump("canary:seq_start_overflow", 1);
            direct(check, jm(&c), || run_model(check, "canary:", &c));
        }
        // embedded skins with batches / across 256<->260
        if ver.num() <= 263 {
            let mut s = only_section(full_spec(ver, 2, false, false), Some(27), false);
            for e in &mut s.embedded_skins {
                e.n_batch = 2;
            }
            let c = ModelCase { spec: s, target: ver, via_converter: false };
            check.bump("canary:embedded_skin_batches", 1);
            direct(check, jm(&c), || run_model(check, "canary:", &c));
            let other = if ver == Ver::Vanilla { Ver::TBC } else { Ver::Vanilla };
            let s = only_section(full_spec(ver, 2, false, false), Some(27), false);
            let c = ModelCase { spec: s, target: other, via_converter: false };
            check.bump("canary:embedded_skins_on_convert", 1);
            direct(check, jm(&c), || run_model(check, "canary:", &c));
        }
    }
}

fn replay(check: &Check, p: &std::path::Path) {
    let v: Value = serde_json::from_str(&std::fs::read_to_string(p).expect("replay file")).expect("json");
    let c = &v["case"];
    let r: CaseResult = match c["kind"].as_str().unwrap_or("") {
        "model" => {
            let m: ModelCase = serde_json::from_value(c["case"].clone()).expect("model case");
            vcheck::engine::guard("c13-case", || run_model(check, "replay:", &m)).and_then(|x| x)
        }
        "skin" => {
            let s: SkinSpec = serde_json::from_value(c["case"].clone()).expect("skin case");
            vcheck::engine::guard("c13-case", || run_skin(check, "replay:", &s)).and_then(|x| x)
        }
        "anim" => {
            let a: AnimSpec = serde_json::from_value(c["case"].clone()).expect("anim case");
            vcheck::engine::guard("c13-case", || run_anim(check, "replay:", &a)).and_then(|x| x)
        }
        k => {
            eprintln!("unknown replay kind {k}");
            std::process::exit(2)
        }
    };
    if let Err(f) = r {
        check.fail(&f, c.clone());
    }
}

fn main() {
    let (check, _args) = Check::new("C13", "exploration");
    check.set_rule(
        "models: M2Model::default() + M2Header::new(version) populated through public fields from a \
         generated spec (28 variable-size sections each empty/one/many under a random section mask, \
         names 0..200 chars incl. non-ASCII, scalar fields biased to ±0/denormal/inf/NaN/MAX, key-frame \
         payloads attached to bone/attachment/event/light/camera/emitter/texture/colour/transparency \
         tracks the way a parsed model carries them, embedded skin profiles for <=263) × versions \
         Vanilla/TBC/WotLK/Cataclysm/MoP × conversion target (all 25 pairs, M2Model::convert and \
         M2Converter::convert); skins: old and new(0,1,2) layouts with generated indices/triangles/bone \
         quads/submeshes/batches × 5 conversion targets; anim files: legacy and modern containers with \
         generated sections/bones/tracks. A deterministic grid visits every section alone (1 and 3 \
         elements, with and without key frames) × 5 versions, the fully populated model × 25 pairs × 2 \
         entry points, every skin layout × sizes × targets and every anim container × sizes. \
         non-trivial = >=3 variable-size sections populated, or key-frame data present, or a conversion \
         across a record-size threshold (256/260/264/272); skins: >=3 arrays populated; anim: any track \
         or >=2 sections. distinct = (kind, version→target, section-count bucket, keys?, file names?, \
         embedded skins? | skin layout, arrays, submesh/batch buckets | container, section/bone/track buckets).",
    );
    check.assume("m2layout record sizes come from the format documentation and the crate's own record documentation (header 324/304, sequence 32/52, bone 108/112/88, camera 124/132 as written, …); where /repo/docs describes the retail 64-byte sequence record the crate's documented 52 bytes are used — conformance with retail files is not part of C13");
    check.assume("content excludes file offsets and fields the on-disk version has no slot for (bone name CRC <260, sequence replay/extent fields, camera id <264, ribbon slice <272, particle physics block, bone `unknown`)");
    check.assume("preconditions taken from the crate docs: vertex bone indices refer to existing bones (the parser documents repairing others), bone pivots are not NaN (documented NaN→0 repair), names contain no NUL, texture file names use the parsed convention (count = len+1, non-zero offset; `validate()` rejects count>0 with offset 0), track header counts match the attached key-frame arrays, ANIM metadata is consistent (`validate()`), old-layout skins with <=4 indices are only checked through the typed parser (documented detection heuristic)");
    check.assume("track headers without key frames carry the default interpolation/global-sequence (what the constructors produce)");

    check.set_extra(
        "chunked_legion_plus",
        json!("not writable: the public API has no MD21 writer (M2Model::write always emits MD20); counted as 'not writable' per DESIGN, no cases generated"),
    );
    if let Some(p) = check.replay.clone() {
        replay(&check, &p);
        check.finish();
    }

    grid(&check);
    canaries(&check);

    let x = Excl::all();
    let n_models = check.tier.pick(24_000u32, 600_000);
    pt::run(
        &check,
        "m2-random",
        n_models,
        pt::Opts::default(),
        || model_case(x),
        |(c, _)| jm(c),
        |(c, fired)| {
            for f in fired {
                check.bump(&format!("excluded:{f}"), 1);
            }
            check.sample(&model_class(c).0, || {
                json!({"kind":"model","version":c.spec.ver.name(),"target":c.target.name(),
                       "populated":c.spec.populated(),"keys":c.spec.has_keys(),"name":c.spec.name})
            });
            run_model(&check, "", c)
        },
    );
    // a slice of the random volume runs with every switch off: measures the excluded regions at
    // depth (all failures there must be known findings)
    let n_open = check.tier.pick(2_000u32, 40_000);
    pt::run(
        &check,
        "m2-random-unrestricted",
        n_open,
        pt::Opts::default(),
        || model_case(Excl::none()),
        |(c, _)| jm(c),
        |(c, _)| run_model(&check, "open:", c),
    );
    let n_skin = check.tier.pick(16_000u32, 400_000);
    pt::run(
        &check,
        "skin-random",
        n_skin,
        pt::Opts::default(),
        || skin_spec(x),
        |(s, _)| js(s),
        |(s, fired)| {
            for f in fired {
                check.bump(&format!("excluded:{f}"), 1);
            }
            check.sample(&skin_class(s).0, || js(s));
            run_skin(&check, "", s)
        },
    );
    pt::run(
        &check,
        "skin-random-unrestricted",
        check.tier.pick(1_000u32, 20_000),
        pt::Opts::default(),
        || skin_spec(Excl::none()),
        |(s, _)| js(s),
        |(s, _)| run_skin(&check, "open:", s),
    );
    let n_anim = check.tier.pick(10_000u32, 200_000);
    pt::run(
        &check,
        "anim-random",
        n_anim,
        pt::Opts::default(),
        || anim_spec(x),
        |(a, _)| ja(a),
        |(a, fired)| {
            for f in fired {
                check.bump(&format!("excluded:{f}"), 1);
            }
            run_anim(&check, "", a)
        },
    );
    pt::run(
        &check,
        "anim-random-unrestricted",
        check.tier.pick(1_000u32, 20_000),
        pt::Opts::default(),
        || anim_spec(Excl::none()),
        |(a, _)| ja(a),
        |(a, _)| run_anim(&check, "open:", a),
    );

    // self-test: essential classes were hit by the grid whatever the seed
    for ver in Ver::ALL {
        for t in Ver::ALL {
            if check.counter(&format!("grid:pair:{}->{}", ver.name(), t.name())) == 0 {
                check.inconclusive("grid did not visit every conversion pair");
            }
        }
    }
    for sec in SECTIONS {
        if check.counter(&format!("grid:section:{sec}")) == 0 {
            check.inconclusive(&format!("grid did not visit section {sec}"));
        }
    }
    for k in ["grid:skin:old", "grid:skin:new", "grid:anim:legacy", "grid:anim:modern", "grid:empty"] {
        if check.counter(k) == 0 {
            check.inconclusive(&format!("grid class {k} empty"));
        }
    }
    if check.counter("models_written_and_parsed") == 0 {
        check.inconclusive("no model passed through write→parse (all rejected or failing)");
    }
    check.finish();
}
