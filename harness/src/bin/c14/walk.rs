//! Independent IFF chunk walker + ADT offset-table resolver.
//!
//! Written from the published ADT v18 layout (wowdev.wiki) and the repository's own format
//! document (`docs/src/formats/world-data/adt.md`); it never calls into `wow-adt`.
//!
//! On disk every chunk is `magic[4] (byte-reversed: "MVER" is stored as "REVM"), u32 LE size,
//! payload[size]`.  Judged:
//!  * top-level chunks tile the file exactly, MVER (size 4, value 18) first, MHDR (64 bytes) second
//!  * every non-zero MHDR offset (relative to the start of the MHDR *payload*) lands on the header
//!    of a top-level chunk of the named type, and every chunk that has an MHDR slot is named there;
//!    the MHDR flag word does not announce an MFBO (0x1) or MH2O (0x2, this crate's documented
//!    convention) chunk that the file does not hold, and an MFBO chunk is announced
//!  * MCIN is 256×16 bytes; every non-zero entry names the offset of an MCNK chunk and records its
//!    size *including* the 8-byte chunk header (the repository's format document and its legacy
//!    writer both use that convention); every MCNK is indexed, in file order
//!  * MMID / MWID entries point at string starts inside MMDX / MWMO
//!  * inside each MCNK: sub-chunks tile the space after the header; every non-zero header
//!    sub-offset (relative to the MCNK chunk start) lands on a sub-chunk header of the named type;
//!    every sub-chunk that owns a header slot is named by that slot
use std::collections::BTreeMap;
use vcheck::engine::Fail;

#[derive(Clone, Debug)]
pub struct Chunk {
    /// logical name (already un-reversed)
    pub name: [u8; 4],
    pub off: usize,
    pub size: usize,
}

impl Chunk {
    pub fn name_str(&self) -> String {
        name_str(&self.name)
    }
}

pub fn name_str(n: &[u8; 4]) -> String {
    n.iter()
        .map(|&c| if c.is_ascii_graphic() { c as char } else { '?' })
        .collect()
}

fn rd32(b: &[u8], at: usize) -> Option<u32> {
    b.get(at..at + 4).map(|s| u32::from_le_bytes(s.try_into().unwrap()))
}

/// Walk `b[start..end]` as a chunk sequence. `Err(pos)` = position where tiling breaks.
pub fn walk_range(b: &[u8], start: usize, end: usize) -> Result<Vec<Chunk>, usize> {
    let mut out = vec![];
    let mut p = start;
    while p < end {
        if p + 8 > end {
            return Err(p);
        }
        let name = [b[p + 3], b[p + 2], b[p + 1], b[p]];
        let size = rd32(b, p + 4).unwrap() as usize;
        if p + 8 + size > end {
            return Err(p);
        }
        out.push(Chunk { name, off: p, size });
        p += 8 + size;
    }
    Ok(out)
}

/// per-type byte totals (top level, and MCNK sub-chunk types as "MCNK/XXXX"); used to attribute growth
pub type Sizes = BTreeMap<String, usize>;

pub struct Walked {
    pub top: Vec<Chunk>,
    pub sizes: Sizes,
    pub n_mcnk: usize,
    /// name of the last sub-chunk of the last MCNK (what the file ends with)
    pub last_sub: Option<String>,
}

impl Walked {
    /// the NUL-terminated strings of a top-level string table (MTEX / MMDX / MWMO), decoded here
    pub fn strings(&self, b: &[u8], name: &[u8; 4]) -> Option<Vec<Vec<u8>>> {
        let c = self.top.iter().find(|c| &c.name == name)?;
        let data = &b[c.off + 8..c.off + 8 + c.size];
        let mut out: Vec<Vec<u8>> = data.split(|&x| x == 0).map(|s| s.to_vec()).collect();
        // a well-formed table ends with a terminator, which leaves one empty tail piece
        if out.last().is_some_and(|l| l.is_empty()) {
            out.pop();
        } else if !data.is_empty() {
            return None; // unterminated last string
        }
        Some(out)
    }
}

/// MHDR slots: (byte offset inside MHDR payload, chunk name, required in a monolithic root file)
const MHDR_SLOTS: [(usize, &[u8; 4], bool); 11] = [
    (0x04, b"MCIN", true),
    (0x08, b"MTEX", true),
    (0x0C, b"MMDX", true),
    (0x10, b"MMID", true),
    (0x14, b"MWMO", true),
    (0x18, b"MWID", true),
    (0x1C, b"MDDF", true),
    (0x20, b"MODF", true),
    (0x24, b"MFBO", false),
    (0x28, b"MH2O", false),
    (0x2C, b"MTXF", false),
];

/// MCNK header slots (offset inside the 128-byte header as published), accepted sub-chunk names
const MCNK_SLOTS: [(usize, &[&[u8; 4]]); 10] = [
    (0x14, &[b"MCVT"]),
    (0x18, &[b"MCNR"]),
    (0x1C, &[b"MCLY"]),
    // ofsRefs names MCRF; the split-file successors MCRD/MCRW are documented by the crate as
    // sharing the slot, so they are accepted too (not demanding more than the docs say)
    (0x20, &[b"MCRF", b"MCRD", b"MCRW"]),
    (0x24, &[b"MCAL"]),
    (0x2C, &[b"MCSH"]),
    (0x58, &[b"MCSE"]),
    (0x60, &[b"MCLQ"]),
    (0x74, &[b"MCCV"]),
    (0x78, &[b"MCLV"]),
];

pub fn check_file(b: &[u8], stage: &str) -> (Option<Walked>, Vec<Fail>) {
    let mut fails = vec![];
    macro_rules! f {
        ($sig:expr, $($arg:tt)*) => {
            fails.push(Fail::new(format!("walker:{}", $sig), format!("[{stage}] {}", format!($($arg)*))))
        };
    }
    let top = match walk_range(b, 0, b.len()) {
        Ok(t) => t,
        Err(p) => {
            f!(
                "top-level-chunks-do-not-tile",
                "chunk framing breaks at file offset {p} (file length {})",
                b.len()
            );
            return (None, fails);
        }
    };
    let mut sizes = Sizes::new();
    for c in &top {
        *sizes.entry(c.name_str()).or_insert(0) += 8 + c.size;
    }
    // MVER first
    match top.first() {
        Some(c) if &c.name == b"MVER" => {
            if c.size != 4 || rd32(b, c.off + 8) != Some(18) {
                f!("mver-bad", "MVER size {} value {:?}", c.size, rd32(b, c.off + 8));
            }
        }
        other => f!("mver-not-first", "first chunk is {:?}", other.map(|c| c.name_str())),
    }
    let find_all = |n: &[u8; 4]| top.iter().filter(|c| &c.name == n).collect::<Vec<_>>();
    // MHDR
    let mhdrs = find_all(b"MHDR");
    if mhdrs.len() != 1 || mhdrs[0].size != 64 {
        f!(
            "mhdr-missing-or-bad-size",
            "{} MHDR chunks, first size {:?}",
            mhdrs.len(),
            mhdrs.first().map(|c| c.size)
        );
    } else {
        let mhdr = mhdrs[0];
        if top.get(1).map(|c| c.off) != Some(mhdr.off) {
            f!("mhdr-not-second", "MHDR at {} is not the second chunk", mhdr.off);
        }
        let base = mhdr.off + 8;
        for (slot, name, required) in MHDR_SLOTS {
            let ofs = rd32(b, base + slot).unwrap() as usize;
            let chunks = find_all(name);
            let nm = name_str(name);
            if chunks.len() > 1 {
                f!(format!("duplicate-top-level-chunk:{nm}"), "{} {nm} chunks", chunks.len());
                continue;
            }
            match (ofs, chunks.first()) {
                (0, None) => {
                    if required {
                        f!(format!("required-chunk-missing:{nm}"), "no {nm} chunk in a monolithic root file");
                    }
                }
                (0, Some(c)) => f!(
                    format!("mhdr-offset-missing:{nm}"),
                    "{nm} chunk exists at {} but its MHDR offset is 0",
                    c.off
                ),
                (o, None) => f!(
                    format!("mhdr-offset-dangling:{nm}"),
                    "MHDR {nm} offset {o} but the file has no {nm} chunk"
                ),
                (o, Some(c)) => {
                    if base + o != c.off {
                        let rel_file = if o == c.off { " (it is relative to the file start)" } else { "" };
                        f!(
                            format!("mhdr-offset-wrong:{nm}"),
                            "MHDR {nm} offset {o} resolves to {} but the {nm} chunk header is at {}{rel_file}",
                            base + o,
                            c.off
                        );
                    }
                }
            }
        }
        // the flag word in front of the offsets names chunks too. wowdev: 0x1 = "contains MFBO";
        // the crate's serializer documents "0x01: MFBO present, 0x02: MH2O present".
        let flags = rd32(b, base).unwrap();
        for (bit, name, both_ways) in [(0x1u32, b"MFBO", true), (0x2, b"MH2O", false)] {
            let nm = name_str(name);
            let present = !find_all(name).is_empty();
            if flags & bit != 0 && !present {
                f!(
                    format!("mhdr-flag-announces-absent-chunk:{nm}"),
                    "MHDR flags {flags:#x} announce a {nm} chunk (bit {bit:#x}) but the file has none"
                );
            } else if both_ways && present && flags & bit == 0 {
                f!(
                    format!("mhdr-flag-missing:{nm}"),
                    "the file holds a {nm} chunk but MHDR flags {flags:#x} lack bit {bit:#x}"
                );
            }
        }
    }
    // string tables
    for (tab, idx) in [(b"MMDX", b"MMID"), (b"MWMO", b"MWID")] {
        if let (Some(t), Some(i)) = (find_all(tab).first(), find_all(idx).first()) {
            let data = &b[t.off + 8..t.off + 8 + t.size];
            let n_strings = data.iter().filter(|&&c| c == 0).count();
            let in_ = name_str(idx);
            if i.size % 4 != 0 {
                f!(format!("index-size-not-multiple-of-4:{in_}"), "{in_} size {}", i.size);
            } else {
                let n = i.size / 4;
                if n != n_strings {
                    f!(
                        format!("string-index-count-mismatch:{in_}"),
                        "{in_} has {n} entries, {} has {n_strings} strings",
                        name_str(tab)
                    );
                }
                for k in 0..n {
                    let o = rd32(b, i.off + 8 + 4 * k).unwrap() as usize;
                    let ok = o < data.len() && (o == 0 || data[o - 1] == 0);
                    if !ok {
                        f!(
                            format!("string-index-not-at-string-start:{in_}"),
                            "{in_}[{k}] = {o} is not the start of a string in {} (size {})",
                            name_str(tab),
                            data.len()
                        );
                        break;
                    }
                }
            }
        }
    }
    // MCNK + MCIN
    let mcnks = find_all(b"MCNK");
    let mcins = find_all(b"MCIN");
    if let Some(mcin) = mcins.first() {
        if mcin.size != 4096 {
            f!("mcin-size-not-4096", "MCIN payload is {} bytes", mcin.size);
        } else {
            let mut next = 0usize; // MCNK chunks must be indexed in order
            let mut reported_hdr = false;
            for k in 0..256 {
                let e = mcin.off + 8 + 16 * k;
                let ofs = rd32(b, e).unwrap() as usize;
                let sz = rd32(b, e + 4).unwrap() as usize;
                if ofs == 0 && sz == 0 {
                    continue;
                }
                match mcnks.iter().position(|c| c.off == ofs) {
                    None => {
                        f!(
                            "mcin-entry-not-at-mcnk",
                            "MCIN[{k}] offset {ofs} is not the header of an MCNK chunk"
                        );
                        break;
                    }
                    Some(pos) => {
                        if pos != next {
                            f!(
                                "mcin-order",
                                "MCIN[{k}] names MCNK #{pos} in file order, expected #{next}"
                            );
                            break;
                        }
                        next += 1;
                        let c = mcnks[pos];
                        if sz != c.size + 8 && !reported_hdr {
                            reported_hdr = true;
                            if sz == c.size {
                                f!(
                                    "mcin-size-excludes-8-byte-chunk-header",
                                    "MCIN[{k}] size {sz} = MCNK payload size; documented value is the chunk size including its header ({})",
                                    c.size + 8
                                );
                            } else {
                                f!(
                                    "mcin-size-wrong",
                                    "MCIN[{k}] size {sz}, MCNK at {ofs} has payload {} (+8 header)",
                                    c.size
                                );
                            }
                        }
                    }
                }
            }
            if next != mcnks.len() && !fails.iter().any(|x| x.signature.contains("mcin-entry") || x.signature.contains("mcin-order")) {
                f!(
                    "mcnk-not-indexed",
                    "{} MCNK chunks in the file, MCIN names {next}",
                    mcnks.len()
                );
            }
        }
    }
    if mcnks.len() > 256 {
        f!("too-many-mcnk", "{} MCNK chunks", mcnks.len());
    }
    // MCNK interiors
    let mut last_sub = None;
    for (i, c) in mcnks.iter().enumerate() {
        let l = check_mcnk(b, c, i, stage, &mut sizes, &mut fails);
        if i + 1 == mcnks.len() && c.off + 8 + c.size == b.len() {
            last_sub = l;
        }
        if fails.len() > 40 {
            break;
        }
    }
    let n_mcnk = mcnks.len();
    (Some(Walked { top, sizes, n_mcnk, last_sub }), fails)
}

/// returns the name of the last sub-chunk
fn check_mcnk(b: &[u8], c: &Chunk, i: usize, stage: &str, sizes: &mut Sizes, fails: &mut Vec<Fail>) -> Option<String> {
    macro_rules! f {
        ($sig:expr, $($arg:tt)*) => {
            fails.push(Fail::new(format!("walker:{}", $sig), format!("[{stage}] MCNK #{i} at {}: {}", c.off, format!($($arg)*))))
        };
    }
    if c.size < 128 {
        f!("mcnk-shorter-than-header", "payload {} bytes", c.size);
        return None;
    }
    let hdr = c.off + 8;
    let end = c.off + 8 + c.size;
    // sub-chunk tiling: the published header is 128 bytes; this crate writes 136 (8 bytes of
    // padding). Either is accepted, since readers locate sub-chunks through the offsets.
    let mut subs = None;
    let mut broke = 0;
    for hsize in [128usize, 136] {
        if c.size < hsize {
            continue;
        }
        match walk_range(b, hdr + hsize, end) {
            Ok(s) => {
                subs = Some(s);
                break;
            }
            Err(p) => broke = p,
        }
    }
    let Some(subs) = subs else {
        f!("mcnk-subchunks-do-not-tile", "sub-chunk framing breaks at file offset {broke} (MCNK ends at {end})");
        return None;
    };
    for s in &subs {
        *sizes.entry(format!("MCNK/{}", s.name_str())).or_insert(0) += 8 + s.size;
    }
    *sizes.entry("MCNK/header".into()).or_insert(0) += 8 + (subs.first().map(|s| s.off).unwrap_or(end) - hdr);
    let flags = rd32(b, hdr).unwrap();
    let hires = flags & 0x200 != 0; // then 0x14/0x18 hold the hole map, not offsets
    for (slot, names) in MCNK_SLOTS {
        if hires && (slot == 0x14 || slot == 0x18) {
            continue;
        }
        let ofs = rd32(b, hdr + slot).unwrap() as usize;
        let nm = name_str(names[0]);
        let present: Vec<&Chunk> = subs.iter().filter(|s| names.iter().any(|n| **n == s.name)).collect();
        if ofs == 0 {
            // a sub-chunk that owns a slot must be named by it (MCRD/MCRW only borrow the slot)
            if let Some(p) = present.iter().find(|s| s.name == *names[0]) {
                // zero-size sub-chunks carry nothing; a zero offset is then acceptable
                if p.size != 0 {
                    f!(
                        format!("mcnk-suboffset-missing:{nm}"),
                        "{nm} sub-chunk exists at +{} but its header offset is 0",
                        p.off - c.off
                    );
                }
            }
            continue;
        }
        match subs.iter().find(|s| s.off == c.off + ofs) {
            None => f!(
                format!("mcnk-suboffset-not-at-subchunk:{nm}"),
                "{nm} offset {ofs} (file {}) is not a sub-chunk header",
                c.off + ofs
            ),
            Some(s) => {
                if !names.iter().any(|n| **n == s.name) {
                    f!(
                        format!("mcnk-suboffset-wrong-type:{nm}"),
                        "{nm} offset {ofs} lands on a {} sub-chunk",
                        s.name_str()
                    );
                }
            }
        }
    }
    subs.last().map(|s| s.name_str())
}
