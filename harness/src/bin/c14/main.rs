//! C14 — ADT terrain survives build→serialise→parse, and re-serialisation is stable.
//!
//! generator: `case.rs` (shape + seed, proptest) → `build.rs` (deterministic materialiser, only
//! public `AdtBuilder` calls) ; oracle: `content.rs` (named content blobs, bitwise) + `walk.rs`
//! (independent chunk walker / offset-table resolver).
mod build;
mod case;
mod content;
mod walk;

use case::{Case, ChunkShape, Switches, WaterShape};
use content::Content;
use serde_json::json;
use std::io::Cursor;
use vcheck::engine::{guard, pt, Check, Fail};
use wow_adt::builder::{AdtBuilder, BuiltAdt};
use wow_adt::{parse_adt, ParsedAdt};

/// Everything one case produced: the class, all clause failures (each with its own signature),
/// and a few observations for the evidence file.
struct Outcome {
    class: String,
    nontrivial: bool,
    fails: Vec<Fail>,
    removed: Vec<&'static str>,
    version_note: Option<String>,
    rounds_done: u32,
    fixpoint: bool,
    reached_compare: bool,
    /// the until-EOF fields were cut back before a rebuild (Switches::trim_unbounded)
    trimmed: bool,
    file_len: usize,
    /// what the edit stage (Case::edit) did to the parsed tile, if it ran
    edit_note: Option<&'static str>,
}

fn parse_root(bytes: &[u8], stage: &str, last_sub: Option<&str>) -> Result<Box<wow_adt::api::RootAdt>, Fail> {
    let r = guard("parse_adt", || parse_adt(&mut Cursor::new(bytes)))?;
    match r {
        Ok(ParsedAdt::Root(r)) => Ok(r),
        Ok(other) => Err(Fail::new(
            "parse-not-root",
            format!("[{stage}] parse_adt classified the builder's file as {:?}", other.file_type()),
        )),
        Err(e) => {
            let es = e.to_string();
            let cls = vcheck::engine::normalise_msg(&es);
            // what the file ends with is the one structural fact that distinguishes the known
            // "reads past the last sub-chunk" class from any other parse failure
            let ctx = last_sub.unwrap_or("?");
            Err(Fail::new(
                format!("parse-error:file-ends-with-{ctx}:{cls}"),
                format!("[{stage}] parse_adt failed on {} bytes (last sub-chunk of the file: {ctx}): {es}", bytes.len()),
            ))
        }
    }
}

/// growth attribution: one Fail per chunk type whose byte total grew
fn growth_fails(stage: &str, prev_len: usize, len: usize, prev: Option<&walk::Sizes>, cur: Option<&walk::Sizes>) -> Vec<Fail> {
    if len <= prev_len {
        return vec![];
    }
    let mut out = vec![];
    if let (Some(p), Some(c)) = (prev, cur) {
        for (k, &v) in c {
            let before = *p.get(k).unwrap_or(&0);
            if v > before && k != "MCNK" {
                out.push(Fail::new(
                    format!("rebuild-grows:{k}"),
                    format!("[{stage}] file grew {prev_len} → {len} bytes; {k} bytes {before} → {v}"),
                ));
            }
        }
    }
    if out.is_empty() {
        out.push(Fail::new("rebuild-grows:unattributed", format!("[{stage}] file grew {prev_len} → {len} bytes")));
    }
    out
}

/// element counts that were written for the six fields the parser reads "until end of file"
struct TrimLens {
    mtxf: usize,
    mtxp: usize,
    mbmh: usize,
    mbbb: usize,
    mbnv: usize,
    mbmi: usize,
}

/// Cut the until-EOF fields back to what was written (see Switches::trim_unbounded). Returns
/// whether anything was cut.
fn trim(root: &mut wow_adt::api::RootAdt, l: &TrimLens) -> bool {
    let mut cut = false;
    macro_rules! t {
        ($field:ident, $vec:ident, $n:expr) => {
            if let Some(x) = root.$field.as_mut() {
                if x.$vec.len() > $n {
                    x.$vec.truncate($n);
                    cut = true;
                }
            }
        };
    }
    t!(texture_flags, flags, l.mtxf);
    t!(texture_params, entries, l.mtxp);
    t!(blend_mesh_headers, entries, l.mbmh);
    t!(blend_mesh_bounds, entries, l.mbbb);
    t!(blend_mesh_vertices, vertices, l.mbnv);
    t!(blend_mesh_indices, indices, l.mbmi);
    cut
}

/// The change a caller makes between parse and rebuild (Case::edit), through the public fields /
/// accessors of `RootAdt` only. Deterministic in (edit, seed). Returns what was done, `None` when
/// the edit does not apply to this tile.
fn apply_edit(root: &mut wow_adt::api::RootAdt, edit: u8, seed: u64) -> Option<&'static str> {
    use wow_adt::chunks::mh2o::{Mh2oChunk, Mh2oEntry};
    if root.version < wow_adt::AdtVersion::WotLK {
        // from_parsed() targets the detected version; the builder documents that it rejects
        // water data below WotLK, so a caller cannot make this edit there
        return None;
    }
    match edit {
        1 => match root.water_data_mut() {
            Some(w) => {
                for e in w.entries.iter_mut() {
                    *e = Mh2oEntry::default();
                }
                Some("every-entry-reset")
            }
            None => {
                root.water_data = Some(Mh2oChunk::new());
                Some("empty-table-inserted")
            }
        },
        2 => {
            let w = root.water_data_mut()?;
            let mut r = build::Sm(seed ^ 0xED17_ED17_ED17_ED17);
            let mut k = 0;
            for e in w.entries.iter_mut().filter(|e| !e.instances.is_empty()) {
                // the first liquid entry is always reset, the others: keep / reset / drop last layer
                let what = if k == 0 { 1 } else { r.below(3) };
                k += 1;
                match what {
                    1 => *e = Mh2oEntry::default(),
                    2 => {
                        e.instances.pop();
                        e.vertex_data.truncate(e.instances.len());
                        e.exists_bitmaps.truncate(e.instances.len());
                        e.header.layer_count = e.instances.len() as u32;
                    }
                    _ => {}
                }
            }
            if w.entries.iter().all(|e| e.instances.is_empty()) {
                // nothing left that the attribute blocks could describe
                for e in w.entries.iter_mut() {
                    *e = Mh2oEntry::default();
                }
                Some("thinned-to-nothing")
            } else {
                Some("thinned")
            }
        }
        3 => {
            root.water_data.take()?;
            Some("table-removed")
        }
        _ => None,
    }
}

fn run_case(raw: &Case, rounds: u32) -> Outcome {
    let (case, removed) = raw.effective();
    let (class, nontrivial) = case.class();
    let mut o = Outcome {
        class,
        nontrivial,
        fails: vec![],
        removed,
        version_note: None,
        rounds_done: 0,
        fixpoint: false,
        reached_compare: false,
        trimmed: false,
        file_len: 0,
        edit_note: None,
    };
    let inputs = build::materialise(&case);
    let built_version = inputs.version;
    let lens = TrimLens {
        mtxf: inputs.mtxf.as_ref().map_or(case.n_tex as usize, |x| x.flags.len()),
        mtxp: inputs.mtxp.as_ref().map_or(0, |x| x.entries.len()),
        mbmh: inputs.mbmh.as_ref().map_or(0, |x| x.entries.len()),
        mbbb: inputs.mbbb.as_ref().map_or(0, |x| x.entries.len()),
        mbnv: inputs.mbnv.as_ref().map_or(0, |x| x.vertices.len()),
        mbmi: inputs.mbmi.as_ref().map_or(0, |x| x.indices.len()),
    };
    let name_tables: [(&[u8; 4], Vec<Vec<u8>>); 3] = [
        (b"MTEX", inputs.textures.iter().map(|s| s.as_bytes().to_vec()).collect()),
        (b"MMDX", inputs.models.iter().map(|s| s.as_bytes().to_vec()).collect()),
        (b"MWMO", inputs.wmos.iter().map(|s| s.as_bytes().to_vec()).collect()),
    ];
    let mut want: Content = inputs.content();
    // the serializer documents that WotLK+ files always carry MTXF (zeros when none was given)
    if case.version >= 3 && case.mtxf == 0 {
        want.insert("texture_flags".into(), vec![0u8; 4 * case.n_tex as usize]);
    }
    let n_given = case.chunks.len();

    // build through the public builder
    let built: BuiltAdt = match guard("AdtBuilder", || inputs.into_builder().build()) {
        Err(f) => {
            o.fails.push(f);
            return o;
        }
        Ok(Err(e)) => {
            o.fails.push(Fail::new(
                format!("build-rejects-valid-input:{}", vcheck::engine::normalise_msg(&e.to_string())),
                format!("AdtBuilder::build() refused an input that honours the documented rules: {e}"),
            ));
            return o;
        }
        Ok(Ok(b)) => b,
    };
    let bytes0 = match guard("to_bytes", || built.to_bytes()) {
        Err(f) => {
            o.fails.push(f);
            return o;
        }
        Ok(Err(e)) => {
            o.fails.push(Fail::new(
                format!("to-bytes-error:{}", vcheck::engine::normalise_msg(&e.to_string())),
                format!("BuiltAdt::to_bytes failed: {e}"),
            ));
            return o;
        }
        Ok(Ok(b)) => b,
    };
    o.file_len = bytes0.len();
    // one case in sixteen (by content): written to a path that already holds a longer file
    if bytes0.iter().step_by(97).fold(0u32, |a, &b| a.wrapping_mul(31).wrapping_add(b as u32)) % 16 == 0 {
        let dir = vcheck::engine::scratch("c14save");
        let path = dir.path().join("tile.adt");
        if std::fs::write(&path, vec![0xEEu8; bytes0.len() + 5000]).is_ok() {
            match guard("write_to_file", || built.write_to_file(&path)) {
                Err(f) => o.fails.push(f),
                Ok(Err(e)) => o.fails.push(Fail::new("write-to-file-error", format!("BuiltAdt::write_to_file failed where to_bytes succeeds: {e}"))),
                Ok(Ok(())) => {
                    let got = std::fs::read(&path).unwrap_or_default();
                    if got != bytes0 {
                        o.fails.push(Fail::new(
                            "write-to-file-over-existing-file-differs",
                            format!("write_to_file over an existing {}-byte file leaves {} bytes, to_bytes gives {}", bytes0.len() + 5000, got.len(), bytes0.len()),
                        ));
                    }
                }
            }
        }
    }
    let (w0, wf) = walk::check_file(&bytes0, "built file");
    o.fails.extend(wf);
    if let Some(w) = &w0 {
        let expect_mcnk = if n_given == 0 { 256 } else { n_given };
        if w.n_mcnk != expect_mcnk {
            o.fails.push(Fail::new(
                "walker:mcnk-count",
                format!("[built file] {} MCNK chunks on disk, {} expected", w.n_mcnk, expect_mcnk),
            ));
        }
    }
    if let Some(w) = &w0 {
        // the name tables, read by the walker itself (not by the crate's parser)
        for (tab, want_names) in &name_tables {
            let got = w.strings(&bytes0, tab);
            if got.as_ref() != Some(want_names) {
                o.fails.push(Fail::new(
                    format!("walker:name-table-differs:{}", walk::name_str(tab)),
                    format!("[built file] {} holds {:?} strings, {} were given", walk::name_str(tab), got.map(|g| g.len()), want_names.len()),
                ));
            }
        }
    }
    let last_sub = w0.as_ref().and_then(|w| w.last_sub.clone());
    let parsed0 = match parse_root(&bytes0, "built file", last_sub.as_deref()) {
        Ok(p) => p,
        Err(f) => {
            o.fails.push(f);
            return o;
        }
    };
    o.reached_compare = true;
    if parsed0.version != built_version {
        o.version_note = Some(format!("{:?}->{:?}", built_version, parsed0.version));
    }
    let mut got0 = content::of_root(&parsed0);
    if n_given == 0 {
        // the 256 chunks were generated by the serializer, not given by the caller: only their
        // number is part of the expectation
        if parsed0.mcnk_chunks.len() != 256 {
            o.fails.push(Fail::new(
                "auto-mcnk-count",
                format!("no chunk given: serializer documents 256 generated chunks, parse sees {}", parsed0.mcnk_chunks.len()),
            ));
        }
        got0.retain(|k, _| !k.starts_with("mcnk["));
    }
    o.fails.extend(content::diff("content", "build→parse", &want, &got0, &bytes0, parsed0.version < built_version));

    // rounds of parse → from_root_adt → to_bytes
    let do_trim = case.switches.trim_unbounded;
    let rounds = if do_trim { rounds } else { rounds.min(2) };
    let edit_root = (case.edit != 0).then(|| (*parsed0).clone());
    let mut prev_root = parsed0;
    let mut prev_bytes = bytes0;
    let mut prev_sizes = w0.map(|w| w.sizes);
    let had_unbounded = o.fails.iter().any(|f| f.signature.starts_with("unbounded-read:"));
    let mut prev_content;
    for r in 1..=rounds {
        let stage = format!("round {r}");
        let mut root_clone = (*prev_root).clone();
        if do_trim && trim(&mut root_clone, &lens) {
            o.trimmed = true;
        }
        // "same content" is judged against what goes into the rebuild
        prev_content = content::of_root(&root_clone);
        let b = match guard("from_root_adt", || BuiltAdt::from_root_adt(root_clone, None).to_bytes()) {
            Err(f) => {
                o.fails.push(f);
                break;
            }
            Ok(Err(e)) => {
                o.fails.push(Fail::new(
                    format!("rebuild-to-bytes-error:{}", vcheck::engine::normalise_msg(&e.to_string())),
                    format!("[{stage}] to_bytes of a parsed tile failed: {e}"),
                ));
                break;
            }
            Ok(Ok(b)) => b,
        };
        let (w, wf) = walk::check_file(&b, &stage);
        o.fails.extend(wf);
        let last_sub = w.as_ref().and_then(|w| w.last_sub.clone());
        let sizes = w.map(|w| w.sizes);
        o.fails.extend(growth_fails(&stage, prev_bytes.len(), b.len(), prev_sizes.as_ref(), sizes.as_ref()));
        let p = match parse_root(&b, &stage, last_sub.as_deref()) {
            Ok(p) => p,
            Err(mut f) => {
                f.signature = format!("rebuild-{}", f.signature);
                o.fails.push(f);
                break;
            }
        };
        let c = content::of_root(&p);
        o.fails.extend(content::diff("rebuild", &stage, &prev_content, &c, &b, false));
        o.rounds_done = r;
        let same = b == prev_bytes;
        prev_root = p;
        prev_bytes = b;
        prev_sizes = sizes;
        if same {
            // byte-identical to the previous round: every later round repeats it
            o.fixpoint = true;
            break;
        }
    }

    // the documented modify workflow: AdtBuilder::from_parsed(root).build() (one round). Without
    // trimming it is skipped when the parse returned out-of-chunk garbage (same root cause, other symptom).
    if (do_trim || !had_unbounded) && o.rounds_done > 0 {
        let mut root_clone = (*prev_root).clone();
        if do_trim {
            trim(&mut root_clone, &lens);
        }
        let prev_content = content::of_root(&root_clone);
        match guard("from_parsed", || AdtBuilder::from_parsed(root_clone).build().and_then(|b| b.to_bytes())) {
            Err(f) => o.fails.push(f),
            Ok(Err(e)) => o.fails.push(Fail::new(
                format!("from-parsed-rejects-parsed-tile:{}", vcheck::engine::normalise_msg(&e.to_string())),
                format!("AdtBuilder::from_parsed(parsed).build() failed: {e}"),
            )),
            Ok(Ok(b)) => {
                let (w, wf) = walk::check_file(&b, "from_parsed");
                o.fails.extend(wf);
                let last_sub = w.as_ref().and_then(|w| w.last_sub.clone());
                let sizes = w.map(|w| w.sizes);
                o.fails.extend(growth_fails("from_parsed", prev_bytes.len(), b.len(), prev_sizes.as_ref(), sizes.as_ref()));
                match parse_root(&b, "from_parsed", last_sub.as_deref()) {
                    Ok(p) => o.fails.extend(content::diff("rebuild", "from_parsed", &prev_content, &content::of_root(&p), &b, false)),
                    Err(mut f) => {
                        f.signature = format!("rebuild-{}", f.signature);
                        o.fails.push(f);
                    }
                }
            }
        }
    }
    // parse → edit → rebuild (Case::edit): the tile as first parsed is changed the way a caller
    // of the modify workflow would, then rebuilt through both entry points. What goes into the
    // rebuild is the expectation; the walker judges the bytes.
    if let Some(mut root) = edit_root {
        if do_trim || !had_unbounded {
            if do_trim {
                trim(&mut root, &lens);
            }
            o.edit_note = apply_edit(&mut root, case.edit, case.seed);
            if o.edit_note.is_some() {
                let want = content::of_root(&root);
                type Entry = (&'static str, fn(wow_adt::api::RootAdt) -> wow_adt::Result<Vec<u8>>);
                let entries: [Entry; 2] = [
                    ("edit→from_root_adt", |r| BuiltAdt::from_root_adt(r, None).to_bytes()),
                    ("edit→from_parsed", |r| AdtBuilder::from_parsed(r).build().and_then(|b| b.to_bytes())),
                ];
                for (stage, rebuild) in entries {
                    let r = root.clone();
                    match guard(stage, move || rebuild(r)) {
                        Err(f) => o.fails.push(f),
                        Ok(Err(e)) => o.fails.push(Fail::new(
                            format!("edited-tile-rejected:{}", vcheck::engine::normalise_msg(&e.to_string())),
                            format!("[{stage}] rebuilding the edited tile ({}) failed: {e}", o.edit_note.unwrap_or("")),
                        )),
                        Ok(Ok(b)) => {
                            let (w, wf) = walk::check_file(&b, stage);
                            o.fails.extend(wf);
                            let last_sub = w.as_ref().and_then(|w| w.last_sub.clone());
                            match parse_root(&b, stage, last_sub.as_deref()) {
                                Ok(p) => o.fails.extend(content::diff("rebuild", stage, &want, &content::of_root(&p), &b, false)),
                                Err(mut f) => {
                                    f.signature = format!("rebuild-{}", f.signature);
                                    o.fails.push(f);
                                }
                            }
                        }
                    }
                }
            }
        }
    }
    // de-duplicate signatures (several rounds hit the same clause)
    let mut seen = std::collections::BTreeSet::new();
    o.fails.retain(|f| seen.insert(f.signature.clone()));
    o
}

/// bookkeeping shared by grid, random and replay runs. Returns the first failure that is neither
/// known nor already reported (for proptest to shrink).
fn account(check: &Check, label: &str, raw: &Case, o: &Outcome) -> Option<Fail> {
    check.count(&format!("{label}:{}", o.class), o.nontrivial);
    for s in &o.removed {
        check.bump(&format!("switch_applied:{s}"), 1);
    }
    if let Some(v) = &o.version_note {
        check.bump(&format!("version_detected_differs:{v}"), 1);
    }
    if let Some(e) = o.edit_note {
        check.bump(&format!("edit_applied:{e}"), 1);
    }
    check.bump(&format!("names_style:{}", raw.name_style), 1);
    check.bump(&format!("float_class:{}", raw.float_class), 1);
    if o.reached_compare {
        check.bump("cases_compared", 1);
        check.bump(&format!("rounds_completed:{}", o.rounds_done), 1);
        if o.fixpoint {
            check.bump("byte_fixpoint_reached", 1);
        }
        if o.trimmed {
            check.bump("cases_with_until_eof_fields_trimmed_before_rebuild", 1);
        }
    } else {
        check.bump("cases_stopped_before_compare", 1);
    }
    if o.nontrivial {
        check.sample(&o.class, || json!({"class": o.class, "file_len": o.file_len, "case": serde_json::to_value(raw).unwrap()}));
    }
    let mut first = None;
    for f in &o.fails {
        if check.is_known(&f.signature) {
            if !pt::suppressed() {
                check.known_hit(&f.signature, &f.message);
            }
        } else if !pt::suppressed() && check.already_reported(&f.signature) {
            // (while proptest shrinks / re-runs its minimal case the verdict must not depend on
            // what other workers reported meanwhile, or the re-run would look flaky)
            check.bump("repeat_violation_hits", 1);
        } else if first.is_none() {
            first = Some(f.clone());
        }
    }
    first
}

fn shape(f: impl FnOnce(&mut ChunkShape)) -> ChunkShape {
    let mut s = ChunkShape::default();
    f(&mut s);
    s
}

fn full_shape(seed: u32) -> ChunkShape {
    ChunkShape {
        seed,
        heights: true,
        normals: true,
        layers: 4,
        alpha: 4,
        shadow: true,
        mccv: true,
        mcse: 2,
        mclq: 1 + (seed % 4) as u8,
        mcrf: 3,
        mclv: true,
        extras: 0,
        mcbb: 0,
    }
}

fn base_case(version: u8, seed: u64, sw: &Switches) -> Case {
    Case {
        version,
        seed,
        name_style: 0,
        n_tex: 3,
        n_models: 2,
        n_wmos: 1,
        n_doodads: 2,
        n_wmo_pl: 1,
        float_class: 0,
        chunks: vec![],
        mfbo: false,
        water: vec![],
        mtxf: 0,
        mamp: false,
        mtxp: 0,
        blend: 0,
        water_table: false,
        edit: 0,
        switches: sw.clone(),
    }
}

/// deterministic grid: the classes DESIGN calls essential, whatever the seed
fn grid(sw: &Switches) -> Vec<(String, Case)> {
    let mut g: Vec<(String, Case)> = vec![];
    for v in 0u8..6 {
        let vn = case::VERSIONS[v as usize];
        let b = |k: u64| base_case(v, 1000 * v as u64 + k, sw);
        // serializer-generated 256 chunks
        g.push((format!("{vn}/auto256"), b(1)));
        // bare chunk (header only)
        let mut c = b(2);
        c.chunks = vec![ChunkShape::default()];
        g.push((format!("{vn}/bare"), c));
        // one-hot: each optional sub-chunk alone
        let onehot: Vec<(&str, ChunkShape)> = vec![
            ("heights", shape(|s| s.heights = true)),
            ("normals", shape(|s| s.normals = true)),
            ("layers1", shape(|s| s.layers = 1)),
            ("layers4", shape(|s| s.layers = 4)),
            ("alpha8", shape(|s| { s.layers = 3; s.alpha = 1 })),
            ("alpha4", shape(|s| { s.layers = 2; s.alpha = 2 })),
            ("alphaRLE", shape(|s| { s.layers = 4; s.alpha = 3 })),
            ("shadow", shape(|s| s.shadow = true)),
            ("mccv", shape(|s| s.mccv = true)),
            ("mcse", shape(|s| s.mcse = 2)),
            ("mclq-water", shape(|s| s.mclq = 1)),
            ("mclq-ocean", shape(|s| s.mclq = 2)),
            ("mclq-magma", shape(|s| s.mclq = 3)),
            ("mclq-slime", shape(|s| s.mclq = 4)),
            ("mcrf", shape(|s| s.mcrf = 3)),
            ("mclv", shape(|s| s.mclv = true)),
        ];
        for (k, (name, s)) in onehot.into_iter().enumerate() {
            let mut c = b(10 + k as u64);
            let mut s = s;
            s.seed = 77 + k as u32;
            c.chunks = vec![s];
            g.push((format!("{vn}/onehot-{name}"), c));
        }
        // single chunk with everything
        let mut c = b(40);
        c.chunks = vec![full_shape(5)];
        g.push((format!("{vn}/single-full"), c));
        // two chunks with different sub-chunk sets
        let mut c = b(41);
        c.chunks = vec![shape(|s| { s.heights = true; s.normals = true; s.seed = 1 }), shape(|s| { s.layers = 2; s.alpha = 3; s.shadow = true; s.seed = 2 })];
        g.push((format!("{vn}/two-different"), c));
        // 256 chunks, every one different
        let mut c = b(42);
        c.chunks = (0..256u32)
            .map(|i| ChunkShape {
                seed: i,
                heights: i % 2 == 0,
                normals: i % 3 != 0,
                layers: (i % 5) as u8,
                alpha: (i % 5) as u8,
                shadow: i % 7 == 0,
                mccv: i % 4 == 1,
                mcse: (i % 11 == 0) as u8 * 2,
                mclq: if i % 13 == 0 { 1 + (i % 4) as u8 } else { 0 },
                mcrf: if i % 9 == 0 { 2 } else { 0 },
                mclv: i % 6 == 0,
                extras: 0,
                mcbb: 0,
            })
            .collect();
        c.mfbo = true;
        c.mtxf = 1;
        c.mamp = true;
        c.mtxp = 3;
        c.water = (0..256u32).filter(|i| i % 5 == 0).map(|i| WaterShape { index: i as u8, layers: 1 + (i % 3) as u8, lvf: (i % 5) as u8, bitmap: i % 2 == 0, attributes: i % 3 == 0, full: i % 4 == 0 }).collect();
        g.push((format!("{vn}/256-full"), c));
        // names and floats
        for style in 1u8..=5 {
            let mut c = b(50 + style as u64);
            c.name_style = style;
            c.n_tex = 5;
            c.n_models = 4;
            c.n_wmos = 3;
            c.n_doodads = 5;
            c.n_wmo_pl = 4;
            c.chunks = vec![full_shape(style as u32)];
            g.push((format!("{vn}/names{style}"), c));
        }
        for fc in 1u8..=2 {
            let mut c = b(60 + fc as u64);
            c.float_class = fc;
            c.chunks = vec![full_shape(9), full_shape(10)];
            c.water = vec![WaterShape { index: 3, layers: 2, lvf: 0, bitmap: true, attributes: true, full: false }];
            c.mtxp = 2;
            c.blend = 2;
            g.push((format!("{vn}/floats{fc}"), c));
        }
        // top-level optional chunks, one at a time (where the version allows; effective() masks the rest)
        if v >= 2 {
            let mut c = b(70);
            c.mfbo = true;
            c.chunks = vec![full_shape(1)];
            g.push((format!("{vn}/top-mfbo"), c));
        }
        if v >= 3 {
            let mut c = b(71);
            c.mtxf = 1;
            c.chunks = vec![full_shape(2)];
            g.push((format!("{vn}/top-mtxf"), c));
            for lvf in 0u8..=4 {
                for (bitmap, full) in [(false, true), (true, false)] {
                    let mut c = b(80 + lvf as u64 * 2 + bitmap as u64);
                    c.chunks = vec![full_shape(3), shape(|s| s.heights = true)];
                    c.water = vec![
                        WaterShape { index: 0, layers: 1, lvf, bitmap, attributes: bitmap, full },
                        WaterShape { index: 17, layers: 3, lvf, bitmap, attributes: !bitmap, full },
                        WaterShape { index: 255, layers: 2, lvf, bitmap: !bitmap, attributes: false, full: !full },
                    ];
                    g.push((format!("{vn}/water-lvf{lvf}-bm{}", bitmap as u8), c));
                }
            }
            let mut c = b(95);
            c.water = (0..=255u8).map(|i| WaterShape { index: i, layers: 1, lvf: i % 5, bitmap: i % 2 == 1, attributes: true, full: i % 3 == 0 }).collect();
            g.push((format!("{vn}/water-all-chunks"), c));
            // water on the empty set of chunks: the builder is handed a table without liquid
            // (with / without MFBO in front of it, serializer-generated / given terrain chunks)
            let mut c = b(100);
            c.water_table = true;
            g.push((format!("{vn}/water-empty-table"), c));
            let mut c = b(101);
            c.water_table = true;
            c.mfbo = true;
            c.mtxf = 1;
            c.chunks = vec![full_shape(3), shape(|s| s.heights = true)];
            g.push((format!("{vn}/water-empty-table+chunks"), c));
            // entries that hold an attribute block but no layer, next to liquid ones
            let some_water = || {
                vec![
                    WaterShape { index: 0, layers: 0, lvf: 0, bitmap: false, attributes: true, full: true },
                    WaterShape { index: 5, layers: 2, lvf: 1, bitmap: true, attributes: true, full: false },
                    WaterShape { index: 6, layers: 1, lvf: 4, bitmap: false, attributes: false, full: true },
                    WaterShape { index: 200, layers: 3, lvf: 3, bitmap: true, attributes: false, full: false },
                    WaterShape { index: 255, layers: 0, lvf: 0, bitmap: false, attributes: true, full: true },
                ]
            };
            let mut c = b(102);
            c.chunks = vec![full_shape(3), shape(|s| s.heights = true)];
            c.water = some_water();
            g.push((format!("{vn}/water-attr-only-entries"), c));
            // parse → edit → rebuild: water emptied / thinned / removed, and an empty table put
            // into a tile that had no water
            for e in 1u8..=3 {
                let mut c = b(110 + e as u64);
                c.chunks = vec![full_shape(3), shape(|s| s.heights = true)];
                c.mfbo = e != 2;
                c.water = some_water();
                c.edit = e;
                g.push((format!("{vn}/edit-{}", case::EDITS[e as usize]), c));
            }
            let mut c = b(120);
            c.chunks = vec![full_shape(4)];
            c.edit = 1;
            g.push((format!("{vn}/edit-empty-table-inserted"), c));
            let mut c = b(121);
            c.mfbo = true;
            c.edit = 1;
            g.push((format!("{vn}/edit-empty-table-inserted-auto256"), c));
        }
        if v >= 4 {
            let mut c = b(72);
            c.mamp = true;
            c.chunks = vec![full_shape(4)];
            g.push((format!("{vn}/top-mamp"), c));
        }
        if v >= 5 {
            let mut c = b(73);
            c.mtxp = 3;
            c.chunks = vec![full_shape(5)];
            g.push((format!("{vn}/top-mtxp"), c));
            let mut c = b(74);
            c.mtxp = 3;
            c.blend = 3;
            c.chunks = vec![full_shape(6)];
            g.push((format!("{vn}/top-blend+mtxp"), c));
            let mut c = b(75);
            c.mfbo = true;
            c.mtxf = 1;
            c.mamp = true;
            c.mtxp = 2;
            c.blend = 1;
            c.water = vec![WaterShape { index: 9, layers: 1, lvf: 1, bitmap: false, attributes: true, full: true }];
            c.chunks = vec![full_shape(7), full_shape(8)];
            g.push((format!("{vn}/top-everything"), c));
        }
    }
    g
}

/// canaries: a fixed set of cases with every exclusion switch off, so that each open finding
/// keeps being measured (and its disappearance after a fix is noticed)
fn canaries() -> Vec<(String, Case)> {
    let off = Switches::all_off();
    let mut g = vec![];
    for v in 0u8..6 {
        let vn = case::VERSIONS[v as usize];
        // MCLQ as the very last sub-chunk of the file
        let mut c = base_case(v, 9000 + v as u64, &off);
        c.chunks = vec![shape(|s| s.heights = true), shape(|s| { s.mclq = 1; s.seed = 4 })];
        g.push((format!("{vn}/canary-trailing-mclq"), c));
        // MCRF references
        let mut c = base_case(v, 9100 + v as u64, &off);
        c.chunks = vec![shape(|s| { s.mcrf = 4; s.heights = true; s.seed = 5 })];
        g.push((format!("{vn}/canary-mcrf"), c));
        if v >= 4 {
            for (k, name) in ["mcrd", "mcrw", "mcmt", "mcdd"].iter().enumerate() {
                let mut c = base_case(v, 9200 + v as u64 * 10 + k as u64, &off);
                c.chunks = vec![shape(|s| { s.extras = 1 << k; s.heights = true; s.seed = 6 })];
                g.push((format!("{vn}/canary-{name}"), c));
            }
        }
        if v >= 2 {
            // no MFBO given (from_root_adt invents one when the detected version is ≥ TBC)
            let mut c = base_case(v, 9400 + v as u64, &Switches { trim_unbounded: true, ..off.clone() });
            c.chunks = vec![shape(|s| s.heights = true)];
            c.mamp = true;
            g.push((format!("{vn}/canary-no-mfbo"), c));
        }
        if v >= 3 {
            // faithful rounds, nothing trimmed: the until-EOF reads make the file grow
            let mut c = base_case(v, 9500 + v as u64, &off);
            c.chunks = vec![shape(|s| s.heights = true), shape(|s| s.layers = 2)];
            c.mfbo = true;
            c.mtxf = 1;
            c.mamp = true;
            c.mtxp = 2;
            c.blend = 2;
            g.push((format!("{vn}/canary-untrimmed"), c));
        }
        if v >= 5 {
            let mut c = base_case(v, 9300, &off);
            c.blend = 2;
            c.mtxp = 0;
            c.chunks = vec![shape(|s| s.heights = true)];
            g.push((format!("{vn}/canary-blend-without-mtxp"), c));
            let mut c = base_case(v, 9301, &off);
            c.blend = 2;
            c.mtxp = 2;
            c.chunks = vec![shape(|s| { s.mcbb = 2; s.heights = true })];
            g.push((format!("{vn}/canary-mcbb"), c));
        }
    }
    g
}

fn main() {
    let (check, _args) = Check::new("C14", "exploration");
    check.set_rule(
        "A case is a shape (version × names style × counts × per-MCNK sub-chunk sets × alpha encodings × water layout × \
         top-level optional chunks × float class) plus a seed; build.rs expands it deterministically into public-API \
         builder calls honouring the documented filename / version / count rules. Deterministic grid (every version × \
         {serializer-generated 256, bare, each sub-chunk alone, all sub-chunks, two different chunks, 256 different chunks, \
         name styles, float classes, each top-level optional chunk, every MH2O vertex format ± bitmap, a water table without liquid (water on the \
         empty set of chunks), attribute-only water entries, and the modify workflow parse → edit → rebuild with the water \
         emptied / thinned / removed / an empty table inserted}) + canaries with \
         the exclusion switches off + proptest volume (three batches: steered, steered with 180..256-chunk tiles — 1 \
         tile in 10 —, and unsteered). Every case: build → to_bytes → walker → parse → content diff, then up to 3 (6) \
         rounds of from_root_adt → to_bytes → walker → parse → diff + length, then one from_parsed().build() round; cases with an edit (1 in 4 of the WotLK+ ones) also change the first \
         parse through RootAdt's public water accessors and rebuild it through from_root_adt and from_parsed (walker + \
         parse + diff against the edited tile). \
         Non-trivial = ≥2 MCNK with different sub-chunk sets, or MH2O water, or version ≥ WotLK with version-specific \
         chunks (MTXF/MAMP/MTXP/blend mesh/MCLV). Distinct = batch × version × chunk-count class (auto256, 1, 2-4, 5-15, \
         16-255, 256) × number of distinct sub-chunk sets (1, 2, 3+) × set of alpha encodings × legacy liquid? × \
         refs/extras? × set of top-level optional chunks (W liquid, Wo with attribute-only entries, w table without \
         liquid) × edit; name styles and float classes are tallied in counters.",
    );
    check.assume("chunk magics are byte-reversed on disk; MHDR offsets are relative to the MHDR payload start; MCNK sub-offsets are relative to the MCNK chunk header (wowdev ADT/v18; also the crate's own comments)");
    check.assume("MCIN.size counts the MCNK chunk including its 8-byte header (repository docs/src/formats/world-data/adt.md and the crate's legacy writer mcnk_writer.rs both say so)");
    check.assume("the MHDR flag word belongs to the header table: bit 0x1 announces MFBO (wowdev, and the serializer's own comment), bit 0x2 announces MH2O in this crate's files (serializer comment '0x02: MH2O present'); only 'announced but absent' is judged for MH2O");
    check.assume("a water table in which no entry holds liquid is a legal builder input (Mh2oChunk::new() is the crate's constructor for it, 'water on arbitrary chunks' includes the empty set) and is the same content as no water; attribute blocks without any liquid in the whole table are not generated");
    check.assume("an absent chunk and an empty one are the same content; WotLK+ files carry a zero MTXF when none was given (documented by the serializer)");
    check.assume("the detected `version` field is not content: the statement lists content and demands it for every *target* version; detection differences are only counted (counter version_detected_differs:*) unless they drop content");
    check.assume("MCNK headers given to the builder describe their sub-chunks (flag 0x01/0x40/liquid bits, reference counts); flag 0x200 (MoP 5.3 high-res holes) is not generated");

    let rounds = check.tier.pick(3u32, 6);
    if let Some(p) = check.replay.clone() {
        let v: serde_json::Value = serde_json::from_str(&std::fs::read_to_string(&p).expect("replay file")).expect("json");
        let case: Case = serde_json::from_value(v["case"].clone()).expect("case");
        let o = run_case(&case, 6);
        check.count(&format!("replay:{}", o.class), true);
        for f in &o.fails {
            println!("replay: {} — {}", f.signature, f.message);
            check.fail(f, v["case"].clone());
        }
        check.finish();
    }

    let sw = Switches::all_on();

    // 1. deterministic grid + canaries
    let mut fixed = grid(&sw);
    fixed.extend(canaries());
    let results: Vec<(String, Case, Outcome)> = {
        use rayon::prelude::*;
        let pool = rayon::ThreadPoolBuilder::new().num_threads(16).stack_size(64 << 20).build().unwrap();
        pool.install(|| fixed.into_par_iter().map(|(name, c)| { let o = run_case(&c, rounds); (name, c, o) }).collect())
    };
    let mut essential: std::collections::BTreeMap<String, (u32, u32)> = Default::default();
    for (name, c, o) in &results {
        let label = if name.contains("canary") { "canary" } else { "grid" };
        // every failing clause of a fixed case is reported (no shrinking needed)
        check.count(&format!("{label}:{}", o.class), o.nontrivial);
        for s in &o.removed {
            check.bump(&format!("switch_applied:{s}"), 1);
        }
        if let Some(v) = &o.version_note {
            check.bump(&format!("version_detected_differs:{v}"), 1);
        }
        check.bump(if o.reached_compare { "cases_compared" } else { "cases_stopped_before_compare" }, 1);
        if let Some(e) = o.edit_note {
            check.bump(&format!("edit_applied:{e}"), 1);
        }
        if o.nontrivial {
            check.sample(name, || json!({"grid": name, "class": o.class, "file_len": o.file_len, "case": serde_json::to_value(c).unwrap()}));
        }
        for f in &o.fails {
            check.fail(f, serde_json::to_value(c).unwrap());
        }
        if label == "grid" {
            let key = name.split('/').nth(1).unwrap_or("").to_string();
            let ess = [
                "auto256", "single-full", "two-different", "256-full", "water-all-chunks", "top-everything", "top-mfbo",
                "water-empty-table", "water-empty-table+chunks", "edit-water-emptied", "edit-water-thinned", "edit-water-removed",
                "edit-empty-table-inserted",
            ];
            if ess.contains(&key.as_str()) {
                let e = essential.entry(name.clone()).or_insert((0, 0));
                e.0 += 1;
                // an edit class is reached only if the edit was really made and rebuilt
                e.1 += (o.reached_compare && (c.edit == 0 || o.edit_note.is_some())) as u32;
            }
        }
    }
    for (name, (n, compared)) in &essential {
        if *n == 0 || *compared == 0 {
            check.inconclusive(&format!("essential grid class {name} never reached the comparison stage"));
        }
    }
    // 4 classes × 6 versions, top-mfbo × 4, water-all-chunks + the 6 water-table / edit classes × 3, top-everything × 1
    if essential.len() < 6 * 4 + 4 + 7 * 3 + 1 {
        check.inconclusive("essential grid classes missing");
    }

    // 2. random volume. "random" / "random-big": every exclusion switch on. "random-unsteered":
    // the switches whose findings do not stop the rest of the oracle are off (MCRF, split extras,
    // MFBO, blend without MTXP), so those regions are still explored with all other clauses live.
    let soft_off = Switches { no_mcrf: false, no_split_extras: false, mop_blend_needs_mtxp: false, tbc_plus_always_mfbo: false, ..Switches::all_on() };
    let n_small = check.tier.pick(12_000u32, 300_000);
    let n_big = check.tier.pick(1_200u32, 30_000);
    let n_unsteered = check.tier.pick(3_000u32, 80_000);
    for (label, n, big, shrink, sw) in [
        ("random", n_small, false, 600u32, sw.clone()),
        ("random-big", n_big, true, 150, sw.clone()),
        ("random-unsteered", n_unsteered, false, 600, soft_off),
    ] {
        pt::run(
            &check,
            label,
            n,
            pt::Opts { max_shrink_iters: shrink, ..pt::Opts::default() },
            || case::case_strategy(sw.clone(), big),
            |c| serde_json::to_value(c).unwrap(),
            |c| {
                let o = run_case(c, rounds);
                match account(&check, label, c, &o) {
                    None => Ok(()),
                    Some(f) => Err(f),
                }
            },
        );
    }
    check.set_extra(
        "exclusion_switches",
        json!({
            "no_trailing_mclq": "the last MCNK of the file never ends with MCLQ (a sound emitter is appended); canary: */canary-trailing-mclq",
            "no_mcrf": "no MCRF references in steered batches; explored in random-unsteered and */canary-mcrf",
            "no_split_extras": "no MCRD/MCRW/MCMT/MCDD/MCBB in steered batches; explored in random-unsteered and canaries",
            "mop_blend_needs_mtxp": "MoP blend-mesh tiles always get MTXP in steered batches; canary MoP/canary-blend-without-mtxp",
            "tbc_plus_always_mfbo": "tiles ≥ TBC always get MFBO in steered batches; canaries */canary-no-mfbo, random-unsteered",
            "trim_unbounded": "oracle side: until-EOF fields of the parsed tile are cut back to their written length before each rebuild; canaries */canary-untrimmed run the faithful rounds",
            "counts": "see counters switch_applied:*"
        }),
    );
    // vacuity guard: the run must have compared content on nearly everything it generated
    let compared = check.counter("cases_compared");
    if compared * 10 < check.evaluations() * 9 {
        check.inconclusive(&format!("only {compared} of {} cases reached the content comparison", check.evaluations()));
    }
    check.finish();
}
