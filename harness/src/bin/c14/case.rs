//! Case descriptor for C14: a compact, JSON-serialisable *shape* (+ content seed) from which
//! `build.rs` deterministically reconstructs the full builder input. proptest generates and
//! shrinks shapes; replay needs only the JSON.
use proptest::prelude::*;
use serde::{Deserialize, Serialize};

pub const VERSIONS: [&str; 6] = ["VanillaEarly", "VanillaLate", "TBC", "WotLK", "Cataclysm", "MoP"];

#[derive(Clone, Debug, Default, Serialize, Deserialize, PartialEq, Eq, PartialOrd, Ord)]
pub struct ChunkShape {
    pub seed: u32,
    pub heights: bool,
    pub normals: bool,
    /// 0..=4 MCLY layers
    pub layers: u8,
    /// alpha encoding for the blend layers: 0 none, 1 8-bit 4096, 2 4-bit 2048, 3 RLE, 4 mixed
    pub alpha: u8,
    pub shadow: bool,
    /// MCCV (VanillaLate+ in this crate's version model)
    pub mccv: bool,
    /// 0..=3 sound emitters
    pub mcse: u8,
    /// legacy liquid: 0 none, 1 water, 2 ocean, 3 magma, 4 slime
    pub mclq: u8,
    /// number of MCRF references (0 = no MCRF)
    pub mcrf: u8,
    /// MCLV (Cataclysm+)
    pub mclv: bool,
    /// split-file style extras (Cataclysm+): bit0 MCRD, bit1 MCRW, bit2 MCMT, bit3 MCDD
    pub extras: u8,
    /// MCBB blend batches (MoP), count
    pub mcbb: u8,
}

#[derive(Clone, Debug, Default, Serialize, Deserialize)]
pub struct WaterShape {
    /// MH2O entry index 0..=255
    pub index: u8,
    /// 0..=3 liquid layers. 0 = an entry without liquid: with `attributes` it carries only the
    /// attribute block (kept only while some other entry of the table has liquid), without it
    /// carries nothing at all
    pub layers: u8,
    /// per layer vertex format: 0..=3 = LVF with vertex data, 4 = no vertex data
    pub lvf: u8,
    pub bitmap: bool,
    pub attributes: bool,
    /// true: full 8×8 instance, false: a sub-rectangle derived from the seed
    pub full: bool,
}

/// Exclusion switches (true = steer around the open finding). Stored in the case so that a
/// replay reproduces exactly what ran.
#[derive(Clone, Debug, Serialize, Deserialize)]
pub struct Switches {
    /// never leave an MCLQ as the very last sub-chunk of the file (the parser reads 8 bytes past it)
    pub no_trailing_mclq: bool,
    /// no MCRF object references (parser mirrors them into MCRD+MCRW, rebuild then grows)
    pub no_mcrf: bool,
    /// no split-file extras MCRD/MCRW/MCMT/MCDD and no MCBB (never parsed back)
    pub no_split_extras: bool,
    /// MoP tiles with blend-mesh data always carry MTXP (otherwise detected as an older version and dropped)
    pub mop_blend_needs_mtxp: bool,
    /// tiles of version ≥ TBC always carry MFBO (from_root_adt invents a zero MFBO otherwise)
    pub tbc_plus_always_mfbo: bool,
    /// oracle-side: before each rebuild, cut the six "read until end of file" fields of the parsed
    /// tile back to the length that was written, so that rounds 2..n explore everything else
    /// instead of re-serialising exponentially growing garbage. Off = faithful (≤ 2 rounds).
    pub trim_unbounded: bool,
}

impl Switches {
    /// The switches of findings that are still open. Every finding these switches steered
    /// around was repaired in /repo, so the "steered" batches now explore the full space too.
    pub fn all_on() -> Self {
        Self::all_off()
    }
    pub fn all_off() -> Self {
        Switches {
            no_trailing_mclq: false,
            no_mcrf: false,
            no_split_extras: false,
            mop_blend_needs_mtxp: false,
            tbc_plus_always_mfbo: false,
            trim_unbounded: false,
        }
    }
}

#[derive(Clone, Debug, Serialize, Deserialize)]
pub struct Case {
    /// index into VERSIONS
    pub version: u8,
    pub seed: u64,
    /// 0 plain, 1 mixed-case extension + spaces, 2 UTF-8, 3 long paths, 4 duplicates, 5 minimal names
    pub name_style: u8,
    pub n_tex: u8,
    pub n_models: u8,
    pub n_wmos: u8,
    pub n_doodads: u8,
    pub n_wmo_pl: u8,
    /// 0 ordinary, 1 extreme values (±0, denormals, ±inf, max), 2 arbitrary bit patterns incl. NaN
    pub float_class: u8,
    /// 0 chunks = the serializer generates 256 minimal chunks itself
    pub chunks: Vec<ChunkShape>,
    pub mfbo: bool,
    pub water: Vec<WaterShape>,
    /// 0 none, 1 one flag per texture
    pub mtxf: u8,
    pub mamp: bool,
    /// 0 none, else number of MTXP entries
    pub mtxp: u8,
    /// 0 none, else number of blend-mesh headers
    pub blend: u8,
    /// the builder is handed a water table (`add_water_data`) even when no entry of it holds
    /// liquid: "water on an arbitrary set of chunks" where the set is empty (WotLK+)
    #[serde(default)]
    pub water_table: bool,
    /// the documented modify workflow (parse → change the tile → rebuild), applied to the first
    /// parse of the built file and rebuilt through both entry points (WotLK+). The edit is named
    /// by the state it leaves: 0 none; 1 water table present but without any liquid (every entry
    /// reset through `water_data_mut()`, or an empty table put into a tile that had none);
    /// 2 water thinned (some entries reset, some lose their last layer, some kept);
    /// 3 water table removed
    #[serde(default)]
    pub edit: u8,
    pub switches: Switches,
}

pub const EDITS: [&str; 4] = ["none", "water-emptied", "water-thinned", "water-removed"];

impl Case {
    /// Apply "where the version allows" and the exclusion switches. Returns the effective case
    /// and the list of switches that actually removed something.
    pub fn effective(&self) -> (Case, Vec<&'static str>) {
        let mut c = self.clone();
        let mut removed = vec![];
        let v = c.version.min(5);
        c.version = v;
        c.n_tex = c.n_tex.clamp(1, 12);
        if c.n_models == 0 {
            c.n_doodads = 0;
        }
        if c.n_wmos == 0 {
            c.n_wmo_pl = 0;
        }
        if v < 2 {
            c.mfbo = false;
        } else if c.switches.tbc_plus_always_mfbo && !c.mfbo {
            c.mfbo = true;
            removed.push("tbc_plus_always_mfbo");
        }
        // "Flag count should match texture count" (add_texture_flags docs): only matching MTXF
        c.mtxf = c.mtxf.min(1);
        if v < 3 {
            // (the builder documents that it rejects MH2O for older targets)
            c.water.clear();
            c.mtxf = 0;
            c.water_table = false;
            c.edit = 0;
        }
        c.edit = c.edit.min(3);
        if v < 4 {
            c.mamp = false;
        }
        if v < 5 {
            c.mtxp = 0;
            c.blend = 0;
        }
        if c.switches.mop_blend_needs_mtxp && c.blend > 0 && c.mtxp == 0 {
            c.mtxp = c.n_tex;
            removed.push("mop_blend_needs_mtxp");
        }
        c.chunks.truncate(256);
        let mut sw_mcrf = false;
        let mut sw_extras = false;
        for s in c.chunks.iter_mut() {
            s.layers = s.layers.min(4);
            if s.layers < 2 {
                s.alpha = 0; // alpha maps belong to blend layers
            }
            s.alpha = s.alpha.min(4);
            s.mcse = s.mcse.min(3);
            s.mclq = s.mclq.min(4);
            s.mcrf = s.mcrf.min(6);
            if v < 1 {
                s.mccv = false;
            }
            if v < 4 {
                s.mclv = false;
                s.extras = 0;
            }
            if v < 5 {
                s.mcbb = 0;
            }
            if c.blend == 0 {
                s.mcbb = 0;
            }
            s.extras &= 0x0F;
            if c.switches.no_mcrf && s.mcrf > 0 {
                s.mcrf = 0;
                sw_mcrf = true;
            }
            if c.switches.no_split_extras && (s.extras != 0 || s.mcbb != 0) {
                s.extras = 0;
                s.mcbb = 0;
                sw_extras = true;
            }
        }
        if sw_mcrf {
            removed.push("no_mcrf");
        }
        if sw_extras {
            removed.push("no_split_extras");
        }
        if c.switches.no_trailing_mclq {
            if let Some(last) = c.chunks.last_mut() {
                // (followers that the parser never reads back would vanish on the first rebuild)
                let followed = last.mccv || last.mcse > 0 || last.mclv;
                if last.mclq != 0 && !followed {
                    // keep the liquid, give it a follower: sound emitters are valid in every version
                    last.mcse = 1;
                    removed.push("no_trailing_mclq");
                }
            }
        }
        for w in c.water.iter_mut() {
            w.layers = w.layers.min(3);
            w.lvf = w.lvf.min(4);
        }
        // one water shape per MH2O entry
        c.water.sort_by_key(|w| w.index);
        c.water.dedup_by_key(|w| w.index);
        if c.water.iter().any(|w| w.layers > 0) {
            // entries that carry nothing are the table's default; attribute-only entries stay
            c.water.retain(|w| w.layers > 0 || w.attributes);
            c.water_table = false; // (implied)
        } else {
            // no liquid anywhere: the caller still hands over a table. Attribute blocks describe
            // liquid (fishable / deep), a table of attribute blocks alone is not generated.
            if !c.water.is_empty() {
                c.water_table = true;
            }
            c.water.clear();
            // nothing to thin; nothing to remove either (such a table parses as "no water")
            c.edit = match c.edit {
                2 => 1,
                3 => 0,
                e => e,
            };
        }
        (c, removed)
    }

    pub fn version_name(&self) -> &'static str {
        VERSIONS[self.version.min(5) as usize]
    }

    /// sub-chunk set of a chunk as a bit mask (shape only)
    fn set_of(s: &ChunkShape) -> u32 {
        (s.heights as u32)
            | (s.normals as u32) << 1
            | ((s.layers > 0) as u32) << 2
            | ((s.alpha > 0) as u32) << 3
            | (s.shadow as u32) << 4
            | (s.mccv as u32) << 5
            | ((s.mcse > 0) as u32) << 6
            | ((s.mclq > 0) as u32) << 7
            | ((s.mcrf > 0) as u32) << 8
            | (s.mclv as u32) << 9
            | ((s.extras as u32) & 0xF) << 10
            | ((s.mcbb > 0) as u32) << 14
    }

    /// (class signature, non-trivial?) of an *effective* case
    pub fn class(&self) -> (String, bool) {
        let n = self.chunks.len();
        let size = match n {
            0 => "auto256",
            1 => "1",
            2..=4 => "2-4",
            5..=15 => "5-15",
            16..=255 => "16-255",
            _ => "256",
        };
        let mut sets: Vec<u32> = self.chunks.iter().map(Self::set_of).collect();
        sets.sort();
        sets.dedup();
        let union: u32 = sets.iter().fold(0, |a, b| a | b);
        let dsets = match sets.len() {
            0 => "0",
            1 => "1",
            2 => "2",
            _ => "3+",
        };
        let alpha: u8 = self.chunks.iter().map(|s| 1u8 << s.alpha).fold(0, |a, b| a | b) >> 1;
        let mut top = String::new();
        if self.mfbo {
            top.push('F');
        }
        if !self.water.is_empty() {
            top.push('W');
            if self.water.iter().any(|w| w.layers == 0) {
                top.push('o'); // attribute-only entries next to liquid ones
            }
        } else if self.water_table {
            top.push('w'); // a water table without liquid
        }
        if self.mtxf > 0 {
            top.push('X');
        }
        if self.mamp {
            top.push('A');
        }
        if self.mtxp > 0 {
            top.push('P');
        }
        if self.blend > 0 {
            top.push('B');
        }
        let liquid = self.chunks.iter().any(|s| s.mclq > 0);
        let extras = union >> 8 & 0x7d != 0; // MCRF / split extras / MCBB present
        let mut sig = format!(
            "{}:n{}:sets{}:alpha{:x}:lq{}:x{}:top[{}]",
            self.version_name(),
            size,
            dsets,
            alpha,
            liquid as u8,
            extras as u8,
            top
        );
        if self.edit != 0 {
            sig.push_str(&format!(":edit[{}]", EDITS[self.edit.min(3) as usize]));
        }
        let version_specific = self.version >= 3
            && (self.mtxf > 0 || self.mamp || self.mtxp > 0 || self.blend > 0 || self.chunks.iter().any(|s| s.mclv));
        let nt = (n >= 2 && sets.len() >= 2) || !self.water.is_empty() || version_specific || self.water_table || self.edit != 0;
        (sig, nt)
    }
}

pub fn chunk_shape() -> impl Strategy<Value = ChunkShape> {
    (
        any::<u32>(),
        (any::<bool>(), any::<bool>(), 0u8..=4, 0u8..=4, any::<bool>(), any::<bool>()),
        (
            prop_oneof![3 => Just(0u8), 1 => 1u8..=3],
            prop_oneof![3 => Just(0u8), 2 => 1u8..=4],
            prop_oneof![3 => Just(0u8), 1 => 1u8..=6],
            any::<bool>(),
            prop_oneof![6 => Just(0u8), 1 => 1u8..=15],
            prop_oneof![4 => Just(0u8), 1 => 1u8..=3],
        ),
    )
        .prop_map(|(seed, (heights, normals, layers, alpha, shadow, mccv), (mcse, mclq, mcrf, mclv, extras, mcbb))| ChunkShape {
            seed,
            heights,
            normals,
            layers,
            alpha,
            shadow,
            mccv,
            mcse,
            mclq,
            mcrf,
            mclv,
            extras,
            mcbb,
        })
}

pub fn water_shape() -> impl Strategy<Value = WaterShape> {
    (any::<u8>(), prop_oneof![1 => Just(0u8), 6 => 1u8..=3], 0u8..=4, any::<bool>(), any::<bool>(), any::<bool>()).prop_map(
        |(index, layers, lvf, bitmap, attributes, full)| WaterShape { index, layers, lvf, bitmap, attributes, full },
    )
}

/// `big`: allow 200..=256-chunk tiles (≈0.5 MB each); kept to about 1 in 10 by the caller
pub fn case_strategy(switches: Switches, big: bool) -> impl Strategy<Value = Case> {
    let chunks = if big {
        prop_oneof![
            1 => proptest::collection::vec(chunk_shape(), 256..=256),
            1 => proptest::collection::vec(chunk_shape(), 180..=256),
        ]
        .boxed()
    } else {
        prop_oneof![
            2 => proptest::collection::vec(chunk_shape(), 0..=0),
            6 => proptest::collection::vec(chunk_shape(), 1..=5),
            3 => proptest::collection::vec(chunk_shape(), 6..=24),
            1 => proptest::collection::vec(chunk_shape(), 25..=70),
        ]
        .boxed()
    };
    (
        (0u8..6, any::<u64>(), 0u8..=5, 1u8..=8, 0u8..=5, 0u8..=4, 0u8..=6, 0u8..=5),
        (
            prop_oneof![4 => Just(0u8), 1 => Just(1u8), 1 => Just(2u8)],
            chunks,
            any::<bool>(),
            prop_oneof![
                3 => Just(vec![]),
                2 => proptest::collection::vec(water_shape(), 1..=4),
                1 => proptest::collection::vec(water_shape(), 5..=40),
            ],
            0u8..=1,
            any::<bool>(),
            prop_oneof![2 => Just(0u8), 2 => 1u8..=8],
            prop_oneof![3 => Just(0u8), 1 => 1u8..=3],
            prop_oneof![3 => Just(false), 1 => Just(true)],
            prop_oneof![6 => Just(0u8), 2 => 1u8..=3],
        ),
    )
        .prop_map(
            move |((version, seed, name_style, n_tex, n_models, n_wmos, n_doodads, n_wmo_pl), (float_class, chunks, mfbo, water, mtxf, mamp, mtxp, blend, water_table, edit))| Case {
                version,
                seed,
                name_style,
                n_tex,
                n_models,
                n_wmos,
                n_doodads,
                n_wmo_pl,
                float_class,
                chunks,
                mfbo,
                water,
                mtxf,
                mamp,
                mtxp,
                blend,
                water_table,
                edit,
                switches: switches.clone(),
            },
        )
}
