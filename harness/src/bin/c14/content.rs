//! Content model: every piece of tile content as a named byte blob, encoded by *this* code from
//! the public fields of the crate's structs (never with the crate's writer). The same extractor
//! is applied to the generator's inputs and to a parsed `RootAdt`; floats are compared bitwise.
//!
//! Keys look like `mcnk[3].heights`; the *class* of a key (indices removed: `mcnk.heights`) goes
//! into failure signatures. An absent chunk and an empty one are the same content.
use std::collections::BTreeMap;
use vcheck::engine::Fail;
use wow_adt::api::RootAdt;
use wow_adt::chunks::mh2o::{Mh2oChunk, VertexDataArray};
use wow_adt::chunks::{
    DoodadPlacement, MampChunk, MbbbChunk, MbmhChunk, MbmiChunk, MbnvChunk, McnkChunk, MfboChunk,
    MtxfChunk, MtxpChunk, WmoPlacement,
};

pub type Content = BTreeMap<String, Vec<u8>>;

fn put(c: &mut Content, key: String, v: Vec<u8>) {
    if !v.is_empty() {
        c.insert(key, v);
    }
}

fn f(v: f32) -> [u8; 4] {
    v.to_bits().to_le_bytes()
}

pub fn strings(c: &mut Content, key: &str, v: &[String]) {
    for (i, s) in v.iter().enumerate() {
        // a zero-length name would vanish from the map; mark it
        let mut b = vec![b'"'];
        b.extend_from_slice(s.as_bytes());
        c.insert(format!("{key}[{i}]"), b);
    }
}

pub fn doodads(c: &mut Content, v: &[DoodadPlacement]) {
    for (i, p) in v.iter().enumerate() {
        let mut b = vec![];
        b.extend(p.name_id.to_le_bytes());
        b.extend(p.unique_id.to_le_bytes());
        for x in p.position.iter().chain(p.rotation.iter()) {
            b.extend(f(*x));
        }
        b.extend(p.scale.to_le_bytes());
        b.extend(p.flags.to_le_bytes());
        c.insert(format!("doodad_placements[{i}]"), b);
    }
}

pub fn wmo_placements(c: &mut Content, v: &[WmoPlacement]) {
    for (i, p) in v.iter().enumerate() {
        let mut b = vec![];
        b.extend(p.name_id.to_le_bytes());
        b.extend(p.unique_id.to_le_bytes());
        for x in p.position.iter().chain(p.rotation.iter()).chain(p.extents_min.iter()).chain(p.extents_max.iter()) {
            b.extend(f(*x));
        }
        for x in [p.flags, p.doodad_set, p.name_set, p.scale] {
            b.extend(x.to_le_bytes());
        }
        c.insert(format!("wmo_placements[{i}]"), b);
    }
}

pub fn mcnk(c: &mut Content, i: usize, m: &McnkChunk) {
    let k = |s: &str| format!("mcnk[{i}].{s}");
    let h = &m.header;
    {
        let mut b = vec![];
        b.extend(h.flags.value.to_le_bytes());
        b.extend(h.index_x.to_le_bytes());
        b.extend(h.index_y.to_le_bytes());
        b.extend(h.area_id.to_le_bytes());
        b.extend(h.holes_low_res.to_le_bytes());
        b.extend(h.pred_tex);
        b.extend(h.no_effect_doodad);
        for x in h.position {
            b.extend(f(x));
        }
        c.insert(k("header"), b);
    }
    if let Some(x) = &m.heights {
        put(c, k("heights"), x.heights.iter().flat_map(|v| f(*v)).collect());
    }
    if let Some(x) = &m.normals {
        put(c, k("normals"), x.normals.iter().flat_map(|n| [n.x as u8, n.y as u8, n.z as u8]).collect());
    }
    if let Some(x) = &m.layers {
        put(
            c,
            k("layers"),
            x.layers
                .iter()
                .flat_map(|l| [l.texture_id, l.flags.value, l.offset_in_mcal, l.effect_id])
                .flat_map(|v| v.to_le_bytes())
                .collect(),
        );
    }
    if let Some(x) = &m.refs {
        let mut b: Vec<u8> = x.references.iter().flat_map(|v| v.to_le_bytes()).collect();
        if !b.is_empty() {
            // the split between doodad and WMO references lives in the header counts
            b.extend(h.n_doodad_refs.to_le_bytes());
            b.extend(h.n_map_obj_refs.to_le_bytes());
        }
        put(c, k("refs"), b);
    }
    if let Some(x) = &m.doodad_refs {
        put(c, k("doodad_refs"), x.doodad_refs.iter().flat_map(|v| v.to_le_bytes()).collect());
    }
    if let Some(x) = &m.wmo_refs {
        put(c, k("wmo_refs"), x.wmo_refs.iter().flat_map(|v| v.to_le_bytes()).collect());
    }
    if let Some(x) = &m.alpha {
        put(c, k("alpha"), x.data.clone());
    }
    if let Some(x) = &m.shadow {
        put(c, k("shadow"), x.shadow_map.clone());
    }
    if let Some(x) = &m.vertex_colors {
        put(c, k("vertex_colors"), x.colors.iter().flat_map(|v| [v.r, v.g, v.b, v.a]).collect());
    }
    if let Some(x) = &m.vertex_lighting {
        put(c, k("vertex_lighting"), x.colors.iter().flat_map(|v| v.to_le_bytes()).collect());
    }
    if let Some(x) = &m.sound_emitters {
        put(
            c,
            k("sound_emitters"),
            x.emitters
                .iter()
                .flat_map(|e| {
                    let mut b = e.sound_entry_id.to_le_bytes().to_vec();
                    for v in e.position.iter().chain(e.size_min.iter()) {
                        b.extend(f(*v));
                    }
                    b
                })
                .collect(),
        );
    }
    if let Some(x) = &m.liquid {
        let mut b = vec![x.liquid_type as u8];
        b.extend(f(x.min_height));
        b.extend(f(x.max_height));
        for v in &x.vertices {
            b.extend(v.union_data);
            b.extend(f(v.height));
        }
        b.extend(x.tile_flags);
        c.insert(k("liquid"), b);
    }
    if let Some(x) = &m.materials {
        c.insert(k("materials"), x.material_ids.to_vec());
    }
    if let Some(x) = &m.doodad_disable {
        c.insert(k("doodad_disable"), x.disable.to_vec());
    }
    if let Some(x) = &m.blend_batches {
        put(
            c,
            k("blend_batches"),
            x.batches
                .iter()
                .flat_map(|b| [b.mbmh_index, b.index_count, b.index_first, b.vertex_count, b.vertex_first])
                .flat_map(|v| v.to_le_bytes())
                .collect(),
        );
    }
}

pub fn mfbo(c: &mut Content, v: &Option<MfboChunk>) {
    if let Some(x) = v {
        c.insert(
            "flight_bounds".into(),
            x.max_plane.iter().chain(x.min_plane.iter()).flat_map(|v| v.to_le_bytes()).collect(),
        );
    }
}

pub fn water(c: &mut Content, v: &Option<Mh2oChunk>) {
    let Some(w) = v else { return };
    for (i, e) in w.entries.iter().enumerate() {
        for (j, inst) in e.instances.iter().enumerate() {
            let mut b = vec![];
            b.extend(inst.liquid_type.to_le_bytes());
            b.extend(inst.liquid_object_or_lvf.to_le_bytes());
            b.extend(f(inst.min_height_level));
            b.extend(f(inst.max_height_level));
            b.extend([inst.x_offset, inst.y_offset, inst.width, inst.height]);
            c.insert(format!("water[{i}].instance[{j}]"), b);
            if let Some(Some(bm)) = e.exists_bitmaps.get(j) {
                c.insert(format!("water[{i}].exists_bitmap[{j}]"), bm.to_le_bytes().to_vec());
            }
            if let Some(Some(vd)) = e.vertex_data.get(j) {
                let mut b = vec![];
                macro_rules! grid {
                    ($tag:expr, $g:expr, $enc:expr) => {{
                        b.push($tag);
                        for (idx, cell) in $g.iter().enumerate() {
                            if let Some(v) = cell {
                                b.push(idx as u8);
                                let e: Vec<u8> = $enc(v);
                                b.extend(e);
                            }
                        }
                    }};
                }
                match vd {
                    VertexDataArray::HeightDepth(g) => grid!(0u8, g, |v: &wow_adt::chunks::HeightDepthVertex| {
                        let mut o = f(v.height).to_vec();
                        o.push(v.depth);
                        o
                    }),
                    VertexDataArray::HeightUv(g) => grid!(1u8, g, |v: &wow_adt::chunks::HeightUvVertex| {
                        let mut o = f(v.height).to_vec();
                        o.extend(v.uv.u.to_le_bytes());
                        o.extend(v.uv.v.to_le_bytes());
                        o
                    }),
                    VertexDataArray::DepthOnly(g) => grid!(2u8, g, |v: &wow_adt::chunks::DepthOnlyVertex| vec![v.depth]),
                    VertexDataArray::HeightUvDepth(g) => grid!(3u8, g, |v: &wow_adt::chunks::HeightUvDepthVertex| {
                        let mut o = f(v.height).to_vec();
                        o.extend(v.uv.u.to_le_bytes());
                        o.extend(v.uv.v.to_le_bytes());
                        o.push(v.depth);
                        o
                    }),
                }
                c.insert(format!("water[{i}].vertex_data[{j}]"), b);
            }
        }
        if let Some(a) = &e.attributes {
            let mut b = a.fishable.to_le_bytes().to_vec();
            b.extend(a.deep.to_le_bytes());
            c.insert(format!("water[{i}].attributes"), b);
        }
    }
}

pub fn mtxf(c: &mut Content, v: &Option<MtxfChunk>) {
    if let Some(x) = v {
        put(c, "texture_flags".into(), x.flags.iter().flat_map(|v| v.to_le_bytes()).collect());
    }
}
pub fn mamp(c: &mut Content, v: &Option<MampChunk>) {
    if let Some(x) = v {
        c.insert("texture_amplifier".into(), x.amplifier.to_le_bytes().to_vec());
    }
}
pub fn mtxp(c: &mut Content, v: &Option<MtxpChunk>) {
    if let Some(x) = v {
        put(
            c,
            "texture_params".into(),
            x.entries
                .iter()
                .flat_map(|e| {
                    let mut b = e.flags.to_le_bytes().to_vec();
                    b.extend(f(e.height_scale));
                    b.extend(f(e.height_offset));
                    b.extend(e.padding.to_le_bytes());
                    b
                })
                .collect(),
        );
    }
}
pub fn blend(c: &mut Content, h: &Option<MbmhChunk>, bb: &Option<MbbbChunk>, nv: &Option<MbnvChunk>, mi: &Option<MbmiChunk>) {
    if let Some(x) = h {
        put(
            c,
            "blend_mesh_headers".into(),
            x.entries
                .iter()
                .flat_map(|e| [e.map_object_id, e.texture_id, e.unknown, e.mbmi_count, e.mbnv_count, e.mbmi_start, e.mbnv_start])
                .flat_map(|v| v.to_le_bytes())
                .collect(),
        );
    }
    if let Some(x) = bb {
        put(
            c,
            "blend_mesh_bounds".into(),
            x.entries
                .iter()
                .flat_map(|e| {
                    let mut b = e.map_object_id.to_le_bytes().to_vec();
                    for v in e.min.iter().chain(e.max.iter()) {
                        b.extend(f(*v));
                    }
                    b
                })
                .collect(),
        );
    }
    if let Some(x) = nv {
        put(
            c,
            "blend_mesh_vertices".into(),
            x.vertices
                .iter()
                .flat_map(|e| {
                    let mut b = vec![];
                    for v in e.position.iter().chain(e.normal.iter()).chain(e.uv.iter()) {
                        b.extend(f(*v));
                    }
                    for col in e.color {
                        b.extend(col);
                    }
                    b
                })
                .collect(),
        );
    }
    if let Some(x) = mi {
        put(c, "blend_mesh_indices".into(), x.indices.iter().flat_map(|v| v.to_le_bytes()).collect());
    }
}

pub fn of_root(r: &RootAdt) -> Content {
    let mut c = Content::new();
    strings(&mut c, "textures", &r.textures);
    strings(&mut c, "models", &r.models);
    strings(&mut c, "wmos", &r.wmos);
    doodads(&mut c, &r.doodad_placements);
    wmo_placements(&mut c, &r.wmo_placements);
    for (i, m) in r.mcnk_chunks.iter().enumerate() {
        mcnk(&mut c, i, m);
    }
    mfbo(&mut c, &r.flight_bounds);
    water(&mut c, &r.water_data);
    mtxf(&mut c, &r.texture_flags);
    mamp(&mut c, &r.texture_amplifier);
    mtxp(&mut c, &r.texture_params);
    blend(&mut c, &r.blend_mesh_headers, &r.blend_mesh_bounds, &r.blend_mesh_vertices, &r.blend_mesh_indices);
    c
}

/// key class: indices removed
pub fn class_of(key: &str) -> String {
    let mut out = String::new();
    let mut skip = false;
    for ch in key.chars() {
        match ch {
            '[' => skip = true,
            ']' => skip = false,
            _ if !skip => out.push(ch),
            _ => {}
        }
    }
    out
}

/// fields the parser reads with "until end of input" from the *file* reader
const UNBOUNDED_CANDIDATES: [&str; 6] = [
    "texture_flags",
    "texture_params",
    "blend_mesh_headers",
    "blend_mesh_bounds",
    "blend_mesh_vertices",
    "blend_mesh_indices",
];

fn first_diff(a: &[u8], b: &[u8]) -> usize {
    a.iter().zip(b.iter()).position(|(x, y)| x != y).unwrap_or(a.len().min(b.len()))
}

/// `extra` is "the rest of the file": some suffix of `file`, short of its end by less than one element
fn is_file_tail(file: &[u8], extra: &[u8]) -> bool {
    !extra.is_empty() && (0..48).any(|t| file.len() >= t && file[..file.len() - t].ends_with(extra))
}

/// top-level chunks the parser only reads when the *detected* version is high enough
fn version_gated(cls: &str) -> bool {
    cls.starts_with("water.")
        || cls.starts_with("blend_mesh_")
        || matches!(cls, "flight_bounds" | "texture_flags" | "texture_amplifier" | "texture_params")
}

/// Compare `want` (input, or previous parse) with `got` (parse of `file`). `kind` = "content"
/// (builder input vs first parse) or "rebuild" (parse r-1 vs parse r). One Fail per
/// (kind, verdict, key class). `detected_lower`: the parser detected an older version than built.
pub fn diff(kind: &str, stage: &str, want: &Content, got: &Content, file: &[u8], detected_lower: bool) -> Vec<Fail> {
    let mut out: BTreeMap<String, (usize, String)> = BTreeMap::new();
    let mut add = |sig: String, msg: String| {
        let e = out.entry(sig).or_insert((0, msg));
        e.0 += 1;
    };
    for (k, w) in want {
        let cls = class_of(k);
        match got.get(k) {
            None => {
                let note = if detected_lower && version_gated(&cls) { "@version-detected-lower" } else { "" };
                add(format!("{kind}-lost{note}:{cls}"), format!("{k} ({} bytes) is gone", w.len()))
            }
            Some(g) if g == w => {}
            Some(g) => {
                if UNBOUNDED_CANDIDATES.contains(&cls.as_str()) && g.len() > w.len() && g.starts_with(w) && is_file_tail(file, &g[w.len()..]) {
                    add(
                        format!("unbounded-read:{cls}"),
                        format!(
                            "{k}: the {} bytes written come back followed by {} more bytes (the rest of the file)",
                            w.len(),
                            g.len() - w.len()
                        ),
                    );
                } else {
                    let d = first_diff(w, g);
                    add(
                        format!("{kind}-changed:{cls}"),
                        format!(
                            "{k}: {} bytes in, {} bytes out, first difference at byte {d}: want {} got {}",
                            w.len(),
                            g.len(),
                            vcheck::engine::hex_short(&w[d.min(w.len())..(d + 8).min(w.len())]),
                            vcheck::engine::hex_short(&g[d.min(g.len())..(d + 8).min(g.len())])
                        ),
                    );
                }
            }
        }
    }
    for (k, g) in got {
        if !want.contains_key(k) {
            let cls = class_of(k);
            if UNBOUNDED_CANDIDATES.contains(&cls.as_str()) && is_file_tail(file, g) {
                // an empty chunk was written; what comes back is everything after it
                add(format!("unbounded-read:{cls}"), format!("{k}: an empty chunk comes back as {} bytes (the rest of the file)", g.len()));
            } else {
                add(format!("{kind}-invented:{cls}"), format!("{k} ({} bytes) appeared from nowhere: {}", g.len(), vcheck::engine::hex_short(g)));
            }
        }
    }
    out.into_iter()
        .map(|(sig, (n, msg))| Fail::new(sig, format!("[{stage}] {msg} ({n} key(s) of this class)")))
        .collect()
}
