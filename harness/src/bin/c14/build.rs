//! Deterministic materialiser: effective `Case` → builder inputs (the crate's public structs),
//! driven by an own splitmix64 stream (no proptest, no thread rng), so a replay file reproduces
//! the exact tile.
//!
//! Preconditions honoured (documented in the crate, so violating them is not a finding):
//!  * texture / model / WMO names: non-empty, no backslash, `.blp` / `.m2` / `.wmo` extension
//!    (case-insensitive); no interior NUL (they are written as C strings)
//!  * doodad scale > 0; placement `name_id` < number of names
//!  * version rules of `validate_version_chunk_compatibility`; blend-mesh chunks all-or-none with
//!    consistent counts
//!  * MCVT 145 heights, MCNR 145 normals, MCCV 145 colours, MCLV 145 colours, MCSH 512 bytes
//!  * MCNK header describes what the chunk carries: flag 0x01 with MCSH, flag 0x40 with MCCV,
//!    liquid-type flag matching `MclqChunk::liquid_type`, `n_doodad_refs + n_map_obj_refs` =
//!    number of MCRF references; flag 0x200 (high-res holes, MoP 5.3+) is never set
//!  * MCLQ: 81 vertices, finite heights with |h| ≤ 10000 and min ≤ max (`has_valid_heights`)
//!  * MH2O: 256 entries (any number of them, none included, with liquid — `Mh2oChunk::new()` is the
//!    crate's own constructor for the table without liquid); instance rectangle inside the 8×8 grid; vertex array variant = LVF and
//!    populated exactly on the instance's (w+1)×(h+1) vertices; exists bitmap uses w·h bits
use crate::case::Case;
use crate::content::{self, Content};
use wow_adt::builder::AdtBuilder;
use wow_adt::chunks::mcnk::{
    BlendBatch, LiquidType, LiquidVertex, McalChunk, McbbChunk, MccvChunk, McddChunk, MclqChunk, MclvChunk,
    MclyChunk, MclyFlags, MclyLayer, McmtChunk, McnkChunk, McnkFlags, McnkHeader, McnrChunk, McrdChunk,
    McrfChunk, McrwChunk, McseChunk, McshChunk, McvtChunk, SoundEmitter, VertexColor, VertexNormal,
};
use wow_adt::chunks::mh2o::{
    DepthOnlyVertex, HeightDepthVertex, HeightUvDepthVertex, HeightUvVertex, Mh2oAttributes, Mh2oChunk,
    Mh2oEntry, Mh2oInstance, UvMapEntry, VertexDataArray,
};
use wow_adt::chunks::{
    DoodadPlacement, MampChunk, MbbbChunk, MbbbEntry, MbmhChunk, MbmhEntry, MbmiChunk, MbnvChunk, MbnvVertex,
    MfboChunk, MtxfChunk, MtxpChunk, TextureHeightParams, WmoPlacement,
};
use wow_adt::AdtVersion;

pub struct Sm(pub u64);
impl Sm {
    pub fn next(&mut self) -> u64 {
        self.0 = self.0.wrapping_add(0x9e3779b97f4a7c15);
        let mut z = self.0;
        z = (z ^ (z >> 30)).wrapping_mul(0xbf58476d1ce4e5b9);
        z = (z ^ (z >> 27)).wrapping_mul(0x94d049bb133111eb);
        z ^ (z >> 31)
    }
    pub fn u32(&mut self) -> u32 {
        (self.next() >> 32) as u32
    }
    pub fn below(&mut self, n: u32) -> u32 {
        if n == 0 { 0 } else { ((self.next() >> 32) * n as u64 >> 32) as u32 }
    }
    pub fn bytes(&mut self, n: usize) -> Vec<u8> {
        let mut v = Vec::with_capacity(n + 8);
        while v.len() < n {
            v.extend(self.next().to_le_bytes());
        }
        v.truncate(n);
        v
    }
    /// float by class: 0 ordinary, 1 extremes, 2 arbitrary bits (NaN payloads included)
    pub fn f32(&mut self, class: u8) -> f32 {
        match class {
            0 => (self.below(160_001) as f32 - 80_000.0) / 64.0,
            1 => {
                const X: [u32; 10] = [
                    0x0000_0000, 0x8000_0000, 0x0000_0001, 0x807f_ffff, 0x7f7f_ffff, 0xff7f_ffff, 0x7f80_0000,
                    0xff80_0000, 0x3f80_0000, 0x0080_0000,
                ];
                let k = self.below(14) as usize;
                if k < 10 { f32::from_bits(X[k]) } else { self.f32(0) }
            }
            _ => f32::from_bits(self.u32()),
        }
    }
    pub fn f32x3(&mut self, class: u8) -> [f32; 3] {
        [self.f32(class), self.f32(class), self.f32(class)]
    }
}

pub fn version_of(v: u8) -> AdtVersion {
    match v {
        0 => AdtVersion::VanillaEarly,
        1 => AdtVersion::VanillaLate,
        2 => AdtVersion::TBC,
        3 => AdtVersion::WotLK,
        4 => AdtVersion::Cataclysm,
        _ => AdtVersion::MoP,
    }
}

fn names(r: &mut Sm, style: u8, n: usize, kind: &str, ext: &str) -> Vec<String> {
    let mut out: Vec<String> = Vec::with_capacity(n);
    for i in 0..n {
        let tag = r.below(100_000);
        let s = match style {
            1 => {
                let e = match r.below(3) {
                    0 => ext.to_uppercase(),
                    1 => {
                        let mut c = ext.chars();
                        let first = c.next().unwrap().to_uppercase().collect::<String>();
                        format!("{first}{}", c.as_str())
                    }
                    _ => ext.to_string(),
                };
                format!("World Of {kind}/Sub Dir {i}/My {kind} {tag}.{e}")
            }
            2 => format!("текстуры/{kind}_{i}/地形 ü {tag}.{ext}"),
            3 => {
                let mut p = String::new();
                for d in 0..(20 + r.below(20)) {
                    p.push_str(&format!("dir{d:03}_{tag}/"));
                }
                format!("{p}{kind}.{ext}")
            }
            4 => {
                if i > 0 && r.below(2) == 0 {
                    out[r.below(i as u32) as usize].clone()
                } else {
                    format!("{kind}/dup_{tag}.{ext}")
                }
            }
            5 => match r.below(3) {
                0 => format!(".{ext}"),
                1 => format!("{}.{ext}", (b'a' + (i % 26) as u8) as char),
                _ => format!("{kind}.{ext}.{ext}"),
            },
            _ => format!("{kind}/set{}/{kind}_{i}_{tag}.{ext}", r.below(9)),
        };
        out.push(s);
    }
    out
}

/// my own RLE encoder for 64×64 alpha (format: control byte, bit7 = fill, low 7 bits = count)
fn rle_alpha(r: &mut Sm) -> Vec<u8> {
    let mut out = vec![];
    let mut left = 4096usize;
    while left > 0 {
        // real files never let a run cross a 64-texel row; keep that
        let row_left = 64 - ((4096 - left) % 64);
        let n = (1 + r.below(row_left.min(127) as u32) as usize).min(left);
        if r.below(2) == 0 {
            out.push(0x80 | n as u8);
            out.push(r.u32() as u8);
        } else {
            out.push(n as u8);
            out.extend(r.bytes(n));
        }
        left -= n;
    }
    out
}

pub struct Inputs {
    pub version: AdtVersion,
    pub textures: Vec<String>,
    pub models: Vec<String>,
    pub wmos: Vec<String>,
    pub doodads: Vec<DoodadPlacement>,
    pub wmo_pl: Vec<WmoPlacement>,
    pub mcnks: Vec<McnkChunk>,
    pub mfbo: Option<MfboChunk>,
    pub water: Option<Mh2oChunk>,
    pub mtxf: Option<MtxfChunk>,
    pub mamp: Option<MampChunk>,
    pub mtxp: Option<MtxpChunk>,
    pub mbmh: Option<MbmhChunk>,
    pub mbbb: Option<MbbbChunk>,
    pub mbnv: Option<MbnvChunk>,
    pub mbmi: Option<MbmiChunk>,
}

fn mk_mcnk(case: &Case, idx: usize, s: &crate::case::ChunkShape, n_tex: u32) -> McnkChunk {
    let mut r = Sm(((s.seed as u64) << 20) ^ case.seed ^ (idx as u64).wrapping_mul(0x1234_5678_9abc_def1));
    let fc = case.float_class;
    let mut flags = 0u32;
    if r.below(2) == 0 {
        flags |= 0x02; // impassable
    }
    if r.below(2) == 0 {
        flags |= 0x8000; // do_not_fix_alpha_map
    }
    if s.shadow {
        flags |= 0x01;
    }
    if s.mccv {
        flags |= 0x40;
    }
    let liquid_type = match s.mclq {
        2 => {
            flags |= 0x08;
            Some(LiquidType::Ocean)
        }
        3 => {
            flags |= 0x10;
            Some(LiquidType::Magma)
        }
        4 => {
            flags |= 0x20;
            Some(LiquidType::Slime)
        }
        1 => {
            if r.below(2) == 0 {
                flags |= 0x04; // river
            }
            Some(LiquidType::Water)
        }
        _ => None,
    };
    let n_refs = s.mcrf as u32;
    let n_doodad_refs = if n_refs > 0 { r.below(n_refs + 1) } else { 0 };
    let header = McnkHeader {
        flags: McnkFlags { value: flags },
        index_x: (idx % 16) as u32,
        index_y: (idx / 16) as u32,
        n_layers: s.layers as u32,
        n_doodad_refs,
        multipurpose_field: McnkHeader::multipurpose_from_offsets(0, 0),
        ofs_layer: 0,
        ofs_refs: 0,
        ofs_alpha: 0,
        size_alpha: 0,
        ofs_shadow: 0,
        size_shadow: 0,
        area_id: r.u32(),
        n_map_obj_refs: n_refs - n_doodad_refs,
        holes_low_res: r.u32() as u16,
        unknown_but_used: 1,
        pred_tex: r.next().to_le_bytes(),
        no_effect_doodad: r.next().to_le_bytes(),
        unknown_8bytes: [0; 8],
        ofs_snd_emitters: 0,
        n_snd_emitters: 0,
        ofs_liquid: 0,
        size_liquid: 0,
        position: r.f32x3(fc),
        ofs_mccv: 0,
        ofs_mclv: 0,
        unused: 0,
        _padding: [0; 8],
    };
    let heights = s.heights.then(|| McvtChunk { heights: (0..145).map(|_| r.f32(fc)).collect() });
    let normals = s.normals.then(|| McnrChunk {
        normals: (0..145)
            .map(|_| {
                let v = r.u32();
                VertexNormal { x: v as i8, z: (v >> 8) as i8, y: (v >> 16) as i8 }
            })
            .collect(),
        padding: vec![0; 13],
    });
    // layers + alpha
    let mut alpha_blob: Vec<u8> = vec![];
    let layers = (s.layers > 0).then(|| {
        let mut v = vec![];
        for l in 0..s.layers {
            let mut lf = r.below(0x80); // animation bits + overbright
            let mut ofs = 0u32;
            if l > 0 && s.alpha > 0 {
                let enc = if s.alpha == 4 { 1 + r.below(3) as u8 } else { s.alpha };
                lf |= 0x100;
                ofs = alpha_blob.len() as u32;
                match enc {
                    1 => alpha_blob.extend(r.bytes(4096)),
                    2 => alpha_blob.extend(r.bytes(2048)),
                    _ => {
                        lf |= 0x200;
                        alpha_blob.extend(rle_alpha(&mut r));
                    }
                }
            }
            v.push(MclyLayer {
                texture_id: r.below(n_tex),
                flags: MclyFlags { value: lf },
                offset_in_mcal: ofs,
                effect_id: if r.below(2) == 0 { 0xFFFF_FFFF } else { r.below(500) },
            });
        }
        MclyChunk { layers: v }
    });
    let alpha = (!alpha_blob.is_empty()).then(|| McalChunk { data: alpha_blob });
    let refs = (n_refs > 0).then(|| McrfChunk { references: (0..n_refs).map(|_| r.below(64)).collect() });
    let shadow = s.shadow.then(|| McshChunk { shadow_map: r.bytes(512) });
    let vertex_colors = s.mccv.then(|| MccvChunk {
        colors: (0..145)
            .map(|_| {
                let v = r.u32();
                VertexColor { b: v as u8, g: (v >> 8) as u8, r: (v >> 16) as u8, a: (v >> 24) as u8 }
            })
            .collect(),
    });
    let sound_emitters = (s.mcse > 0).then(|| McseChunk {
        emitters: (0..s.mcse)
            .map(|_| SoundEmitter { sound_entry_id: r.u32(), position: r.f32x3(fc), size_min: r.f32x3(fc), _padding: [] })
            .collect(),
    });
    let liquid = liquid_type.map(|lt| {
        let a = (r.below(160_001) as f32 - 80_000.0) / 8.0; // |a| ≤ 10000
        let b = (r.below(160_001) as f32 - 80_000.0) / 8.0;
        let mut tile_flags = [0u8; 64];
        tile_flags.copy_from_slice(&r.bytes(64));
        MclqChunk {
            min_height: a.min(b),
            max_height: a.max(b),
            vertices: (0..81)
                .map(|_| LiquidVertex { union_data: r.u32().to_le_bytes(), height: r.f32(fc) })
                .collect(),
            tile_flags,
            liquid_type: lt,
        }
    });
    let vertex_lighting = s.mclv.then(|| MclvChunk { colors: (0..145).map(|_| r.u32()).collect() });
    let doodad_refs = (s.extras & 1 != 0).then(|| McrdChunk { doodad_refs: (0..1 + r.below(4)).map(|_| r.below(64)).collect() });
    let wmo_refs = (s.extras & 2 != 0).then(|| McrwChunk { wmo_refs: (0..1 + r.below(4)).map(|_| r.below(64)).collect() });
    let materials = (s.extras & 4 != 0).then(|| McmtChunk { material_ids: r.u32().to_le_bytes() });
    let doodad_disable = (s.extras & 8 != 0).then(|| {
        let mut d = [0u8; 64];
        d.copy_from_slice(&r.bytes(64));
        McddChunk { disable: d }
    });
    let blend_batches = (s.mcbb > 0).then(|| McbbChunk {
        batches: (0..s.mcbb)
            .map(|_| BlendBatch {
                mbmh_index: r.below(case.blend.max(1) as u32),
                index_count: r.below(30),
                index_first: r.below(30),
                vertex_count: r.below(30),
                vertex_first: r.below(30),
            })
            .collect(),
    });
    McnkChunk {
        header,
        heights,
        normals,
        layers,
        materials,
        refs,
        doodad_refs,
        wmo_refs,
        alpha,
        shadow,
        vertex_colors,
        vertex_lighting,
        sound_emitters,
        liquid,
        doodad_disable,
        blend_batches,
    }
}

fn mk_water(case: &Case, r: &mut Sm) -> Option<Mh2oChunk> {
    if case.water.is_empty() && !case.water_table {
        return None;
    }
    let fc = case.float_class;
    let mut chunk = Mh2oChunk::new();
    for w in &case.water {
        let mut e = Mh2oEntry::default();
        for _ in 0..w.layers {
            let (x, y, wd, ht) = if w.full {
                (0u8, 0u8, 8u8, 8u8)
            } else {
                let wd = 1 + r.below(8) as u8;
                let ht = 1 + r.below(8) as u8;
                (r.below(9 - wd as u32) as u8, r.below(9 - ht as u32) as u8, wd, ht)
            };
            let lvf = if w.lvf < 4 { w.lvf as u16 } else { r.below(4) as u16 };
            e.instances.push(Mh2oInstance {
                liquid_type: r.below(400) as u16,
                liquid_object_or_lvf: lvf,
                min_height_level: r.f32(fc),
                max_height_level: r.f32(fc),
                x_offset: x,
                y_offset: y,
                width: wd,
                height: ht,
                offset_exists_bitmap: 0,
                offset_vertex_data: 0,
            });
            let bits = wd as u32 * ht as u32;
            let mask = if bits >= 64 { u64::MAX } else { (1u64 << bits) - 1 };
            e.exists_bitmaps.push(w.bitmap.then(|| r.next() & mask));
            let vd = if w.lvf >= 4 {
                None
            } else {
                macro_rules! grid {
                    ($t:ty, $variant:ident, $mk:expr) => {{
                        let mut g: [Option<$t>; 81] = [None; 81];
                        for z in y as usize..=(y + ht) as usize {
                            for xx in x as usize..=(x + wd) as usize {
                                g[z * 9 + xx] = Some($mk);
                            }
                        }
                        Some(VertexDataArray::$variant(Box::new(g)))
                    }};
                }
                match w.lvf {
                    0 => grid!(HeightDepthVertex, HeightDepth, HeightDepthVertex { height: r.f32(fc), depth: r.u32() as u8 }),
                    1 => grid!(HeightUvVertex, HeightUv, HeightUvVertex {
                        height: r.f32(fc),
                        uv: UvMapEntry { u: r.u32() as u16, v: r.u32() as u16 }
                    }),
                    2 => grid!(DepthOnlyVertex, DepthOnly, DepthOnlyVertex { depth: r.u32() as u8 }),
                    _ => grid!(HeightUvDepthVertex, HeightUvDepth, HeightUvDepthVertex {
                        height: r.f32(fc),
                        uv: UvMapEntry { u: r.u32() as u16, v: r.u32() as u16 },
                        depth: r.u32() as u8
                    }),
                }
            };
            e.vertex_data.push(vd);
        }
        e.header.layer_count = e.instances.len() as u32;
        if w.attributes {
            e.attributes = Some(Mh2oAttributes { fishable: r.next(), deep: r.next() });
        }
        chunk.entries[w.index as usize] = e;
    }
    Some(chunk)
}

/// `case` must be an *effective* case (see `Case::effective`)
pub fn materialise(case: &Case) -> Inputs {
    let mut r = Sm(case.seed ^ 0xC14C_14C1_4C14_C14C);
    let fc = case.float_class;
    let textures = names(&mut r, case.name_style, case.n_tex as usize, "tex", "blp");
    let models = names(&mut r, case.name_style, case.n_models as usize, "model", "m2");
    let wmos = names(&mut r, case.name_style, case.n_wmos as usize, "wmo", "wmo");
    let doodads = (0..case.n_doodads)
        .map(|_| DoodadPlacement {
            name_id: r.below(case.n_models as u32),
            unique_id: r.u32(),
            position: r.f32x3(fc),
            rotation: r.f32x3(fc),
            scale: 1 + r.below(0xFFFF) as u16,
            flags: r.u32() as u16 & !0x40, // 0x40 = "name_id is a file data id" (Legion+)
        })
        .collect();
    let wmo_pl = (0..case.n_wmo_pl)
        .map(|_| WmoPlacement {
            name_id: r.below(case.n_wmos as u32),
            unique_id: r.u32(),
            position: r.f32x3(fc),
            rotation: r.f32x3(fc),
            extents_min: r.f32x3(fc),
            extents_max: r.f32x3(fc),
            flags: r.u32() as u16 & !0x8,
            doodad_set: r.u32() as u16,
            name_set: r.u32() as u16,
            scale: r.u32() as u16,
        })
        .collect();
    let mcnks = case
        .chunks
        .iter()
        .enumerate()
        .map(|(i, s)| mk_mcnk(case, i, s, case.n_tex as u32))
        .collect();
    let mfbo = case.mfbo.then(|| {
        let mut a = [0i16; 9];
        let mut b = [0i16; 9];
        for k in 0..9 {
            a[k] = r.u32() as i16;
            b[k] = r.u32() as i16;
        }
        MfboChunk { max_plane: a, min_plane: b }
    });
    let water = mk_water(case, &mut r);
    // "Flag count should match texture count" (add_texture_flags docs)
    let mtxf = (case.mtxf > 0).then_some(case.n_tex as usize).map(|n| MtxfChunk { flags: (0..n).map(|_| if r.below(4) == 0 { r.u32() } else { r.below(4) }).collect() });
    let mamp = case.mamp.then(|| MampChunk { amplifier: r.u32() });
    let mtxp = (case.mtxp > 0).then(|| MtxpChunk {
        entries: (0..case.mtxp)
            .map(|_| TextureHeightParams { flags: r.u32(), height_scale: r.f32(fc), height_offset: r.f32(fc), padding: 0 })
            .collect(),
    });
    let (mbmh, mbbb, mbnv, mbmi) = if case.blend > 0 {
        let mut hs = vec![];
        let mut bs = vec![];
        let mut nv = vec![];
        let mut mi = vec![];
        for _ in 0..case.blend {
            let ni = 3 * r.below(4);
            let nvv = r.below(5);
            let id = r.u32();
            hs.push(MbmhEntry {
                map_object_id: id,
                texture_id: r.below(case.n_tex as u32),
                unknown: 0,
                mbmi_count: ni,
                mbnv_count: nvv,
                mbmi_start: mi.len() as u32,
                mbnv_start: nv.len() as u32,
            });
            bs.push(MbbbEntry { map_object_id: id, min: r.f32x3(fc), max: r.f32x3(fc) });
            for _ in 0..nvv {
                nv.push(MbnvVertex {
                    position: r.f32x3(fc),
                    normal: r.f32x3(fc),
                    uv: [r.f32(fc), r.f32(fc)],
                    color: [r.u32().to_le_bytes(), r.u32().to_le_bytes(), r.u32().to_le_bytes()],
                });
            }
            for _ in 0..ni {
                mi.push(r.u32() as u16);
            }
        }
        (
            Some(MbmhChunk { entries: hs }),
            Some(MbbbChunk { entries: bs }),
            Some(MbnvChunk { vertices: nv }),
            Some(MbmiChunk { indices: mi }),
        )
    } else {
        (None, None, None, None)
    };
    Inputs {
        version: version_of(case.version),
        textures,
        models,
        wmos,
        doodads,
        wmo_pl,
        mcnks,
        mfbo,
        water,
        mtxf,
        mamp,
        mtxp,
        mbmh,
        mbbb,
        mbnv,
        mbmi,
    }
}

impl Inputs {
    /// what was put in, as content blobs
    pub fn content(&self) -> Content {
        let mut c = Content::new();
        content::strings(&mut c, "textures", &self.textures);
        content::strings(&mut c, "models", &self.models);
        content::strings(&mut c, "wmos", &self.wmos);
        content::doodads(&mut c, &self.doodads);
        content::wmo_placements(&mut c, &self.wmo_pl);
        for (i, m) in self.mcnks.iter().enumerate() {
            content::mcnk(&mut c, i, m);
        }
        content::mfbo(&mut c, &self.mfbo);
        content::water(&mut c, &self.water);
        content::mtxf(&mut c, &self.mtxf);
        content::mamp(&mut c, &self.mamp);
        content::mtxp(&mut c, &self.mtxp);
        content::blend(&mut c, &self.mbmh, &self.mbbb, &self.mbnv, &self.mbmi);
        c
    }

    /// only public `AdtBuilder` calls
    pub fn into_builder(self) -> AdtBuilder {
        let mut b = AdtBuilder::new().with_version(self.version);
        let mut tex = self.textures.into_iter();
        if let Some(first) = tex.next() {
            b = b.add_texture(first);
        }
        b = b.add_textures(tex);
        for m in self.models {
            b = b.add_model(m);
        }
        for w in self.wmos {
            b = b.add_wmo(w);
        }
        for p in self.doodads {
            b = b.add_doodad_placement(p);
        }
        for p in self.wmo_pl {
            b = b.add_wmo_placement(p);
        }
        for m in self.mcnks {
            b = b.add_mcnk_chunk(m);
        }
        if let Some(x) = self.mfbo {
            b = b.add_flight_bounds(x);
        }
        if let Some(x) = self.water {
            b = b.add_water_data(x);
        }
        if let Some(x) = self.mtxf {
            b = b.add_texture_flags(x);
        }
        if let Some(x) = self.mamp {
            b = b.add_texture_amplifier(x);
        }
        if let Some(x) = self.mtxp {
            b = b.add_texture_params(x);
        }
        if let Some(x) = self.mbmh {
            b = b.add_blend_mesh_headers(x);
        }
        if let Some(x) = self.mbbb {
            b = b.add_blend_mesh_bounds(x);
        }
        if let Some(x) = self.mbnv {
            b = b.add_blend_mesh_vertices(x);
        }
        if let Some(x) = self.mbmi {
            b = b.add_blend_mesh_indices(x);
        }
        b
    }
}
