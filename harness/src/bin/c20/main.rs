//! C20 — the command-line tool's exit status and outputs tell the truth.
//!
//! Part 1: `mpq create` → `mpq extract` round trip against the input files; `mpq list` /
//!         `mpq info` / `mpq tree` against `wow_mpq::Archive::{list,get_info}` of the same archive.
//! Part 2: every sub-command of every family (enumerated from `--help`) on valid, truncated,
//!         mutated, garbage, empty and nonexistent inputs; the library's own in-process reading
//!         of the same bytes (in a supervised worker) is the oracle for "must exit non-zero".
//! Part 3: the content of every output produced with exit 0 (converted files, exports, listings,
//!         verdicts) against what the library produces in-process for the same input and options;
//!         stale outputs of the same size, option order, display flags (part3.rs).
mod damage;
mod fixtures;
mod help;
mod oracle;
mod part1;
mod part2;
mod part3;
mod sandbox;
mod scale;

use damage::Damage;
use part1::{CreateCase, ExtractOpts, InFile, LibCase, NameSel};
use part2::{StatusCase, Template};
use proptest::prelude::*;
use serde_json::{Value, json};
use std::sync::atomic::{AtomicUsize, Ordering};
use vcheck::engine::pt::{self, pick_idx};
use vcheck::engine::{CaseResult, Check, Fail, Tier};
use vcheck::gens::mpq::ContentClass;

/// report every failure of one case; known ones are counted, the first unknown one is returned
fn settle(check: &Check, fails: Vec<Fail>) -> CaseResult {
    let mut first: Option<Fail> = None;
    for f in fails {
        if check.is_known(&f.signature) {
            if !pt::suppressed() {
                check.known_hit(&f.signature, &f.message);
            }
        } else if first.is_none() {
            first = Some(f);
        }
    }
    match first {
        Some(f) => Err(f),
        None => Ok(()),
    }
}

fn status_property(check: &Check, tps: &[Template], case: &StatusCase) -> CaseResult {
    let j = part2::eval(check, tps, case)?;
    if !matches!(case.damage, Damage::None | Damage::Missing) && j.lib != "ok" && j.lib != "n/a" {
        check.bump(&format!("rejected:{}", case.template), 1);
    }
    check.sample(&format!("st:{}:{}", case.template.split(':').next().unwrap_or(""), case.damage.kind()), || {
        json!({"part": "status", "case": case, "library": j.lib, "exit0": j.exit0})
    });
    settle(check, j.fails)
}

pub fn inc(check: &Check, msg: &str) {
    eprintln!("[inconclusive] {msg}");
    check.inconclusive(msg);
}

fn parallel_for<T: Sync>(items: &[T], f: impl Fn(&T) + Sync) {
    let next = AtomicUsize::new(0);
    std::thread::scope(|s| {
        for _ in 0..vcheck::engine::WORKERS.min(items.len().max(1)) {
            s.spawn(|| {
                loop {
                    let i = next.fetch_add(1, Ordering::SeqCst);
                    if i >= items.len() {
                        break;
                    }
                    f(&items[i]);
                }
            });
        }
    });
}

fn grid_create() -> Vec<CreateCase> {
    let mut v = vec![];
    for version in 1u8..=4 {
        for compression in 0u8..4 {
            let k = (version as usize - 1) * 4 + compression as usize;
            let files = vec![
                InFile { name: "readme.txt".into(), class: ContentClass::Text, len: 137, seed: k as u32 },
                InFile { name: "Blob_1.bin".into(), class: ContentClass::Random, len: 16384 + 5, seed: 7 + k as u32 },
                InFile { name: "zero.dat".into(), class: ContentClass::Constant, len: if k % 2 == 0 { 0 } else { 40000 }, seed: 3 },
                InFile { name: "low entropy.tbl".into(), class: ContentClass::LowEntropy, len: 3000, seed: 11 },
                InFile { name: format!("{}.blp", "A_very_long_texture_name_".repeat(4)), class: ContentClass::Period, len: 777, seed: 12 },
            ];
            let extract = match k % 4 {
                0 => ExtractOpts { threads: None, preserve: false, explicit: None, skip_errors: false, prefill: (k % 4) as u8 },
                1 => ExtractOpts { threads: Some(2), preserve: true, explicit: Some(vec![NameSel::Present(0), NameSel::Present(30000)]), skip_errors: false, prefill: (k % 4) as u8 },
                2 => ExtractOpts { threads: Some(1), preserve: false, explicit: Some(vec![NameSel::Present(20000), NameSel::Missing(1)]), skip_errors: false, prefill: (k % 4) as u8 },
                _ => ExtractOpts { threads: None, preserve: true, explicit: Some(vec![NameSel::Missing(0), NameSel::Present(0), NameSel::Present(50000)]), skip_errors: true, prefill: (k % 4) as u8 },
            };
            v.push(CreateCase { files, version, compression, with_listfile: k % 3 != 0, extract });
        }
    }
    v
}

fn grid_lib() -> Vec<LibCase> {
    let mut v = vec![];
    for (i, id) in ["v1", "v2", "v3", "v4"].iter().enumerate() {
        let spec = fixtures::mpq_spec(id).unwrap();
        for k in 0..4usize {
            let extract = match (i + k) % 4 {
                0 => ExtractOpts { threads: None, preserve: true, explicit: None, skip_errors: false, prefill: (k % 4) as u8 },
                1 => ExtractOpts { threads: Some(2), preserve: false, explicit: Some(vec![NameSel::Present(20000), NameSel::Present(40000)]), skip_errors: false, prefill: (k % 4) as u8 },
                2 => ExtractOpts { threads: None, preserve: true, explicit: Some(vec![NameSel::Present(40000), NameSel::Missing(2)]), skip_errors: false, prefill: (k % 4) as u8 },
                _ => ExtractOpts { threads: Some(5), preserve: k % 2 == 0, explicit: Some(vec![NameSel::Missing(3), NameSel::Present(20000)]), skip_errors: true, prefill: (k % 4) as u8 },
            };
            v.push(LibCase { spec: spec.clone(), extract });
        }
        // one directory spelled in several letter cases (game archives do): on a case-sensitive file system
        // --preserve-paths has to create each spelling
        let mut mixed = spec.clone();
        for (f, dir) in mixed.files.iter_mut().zip(["Interface\\Icons", "INTERFACE\\ICONS", "interface/icons", "Interface\\ICONS", "World", "WORLD"]) {
            let leaf = f.name.rsplit(['\\', '/']).next().unwrap().to_string();
            f.name = format!("{dir}\\{leaf}");
        }
        for threads in [None, Some(3)] {
            v.push(LibCase { spec: mixed.clone(), extract: ExtractOpts { threads, preserve: true, explicit: None, skip_errors: false, prefill: 0 } });
        }
    }
    v
}

fn status_strategy(tps: &[Template]) -> impl Strategy<Value = StatusCase> + use<> {
    let keys: Vec<(String, Vec<String>)> = tps.iter().filter(|t| t.input.is_some()).map(|t| (t.key(), t.bases.iter().map(|s| s.to_string()).collect())).collect();
    (any::<u16>(), any::<u16>(), prop_oneof![1 => Just(Damage::None), 12 => damage::damage_strategy()]).prop_map(move |(ti, bi, damage)| {
        let (k, bases) = &keys[pick_idx(ti, keys.len())];
        StatusCase { template: k.clone(), base: bases[pick_idx(bi, bases.len())].clone(), damage }
    })
}

fn replay(check: &Check, tps: &[Template], p: &std::path::Path) {
    let v: Value = serde_json::from_str(&std::fs::read_to_string(p).expect("replay file")).expect("json");
    let c = &v["case"];
    let r: CaseResult = match c["part"].as_str().unwrap_or("") {
        "status" => {
            let case: StatusCase = serde_json::from_value(c["case"].clone()).expect("status case");
            status_property(check, tps, &case)
        }
        "create" => {
            let case: CreateCase = serde_json::from_value(c["case"].clone()).expect("create case");
            part1::run_create(check, &case)
        }
        "lib" => {
            let case: LibCase = serde_json::from_value(c["case"].clone()).expect("lib case");
            part1::run_lib(check, &case)
        }
        "scale" => {
            let case: scale::ScaleCase = serde_json::from_value(c["case"].clone()).expect("scale case");
            scale::run(check, &case)
        }
        k if part3::PARTS.contains(&k) => part3::replay(check, k, &c["case"]),
        k => {
            eprintln!("unknown replay part {k}");
            std::process::exit(2)
        }
    };
    check.count("replay", true);
    if let Err(f) = r {
        check.fail(&f, c.clone());
    }
}

fn main() {
    if std::env::args().nth(1).as_deref() == Some("--worker") {
        oracle::worker_main();
    }
    if std::env::args().nth(1).as_deref() == Some("--dump-fixtures") {
        // development aid: write every valid base input to a directory
        let dir = std::path::PathBuf::from(std::env::args().nth(2).expect("dir"));
        std::fs::create_dir_all(&dir).unwrap();
        for t in part2::templates() {
            for b in t.bases.iter().chain(t.aux.iter().map(|(_, b)| b)) {
                match fixtures::base(b) {
                    Ok(d) => std::fs::write(dir.join(b.replace(':', "_")), &*d).unwrap(),
                    Err(e) => eprintln!("{b}: {e}"),
                }
            }
        }
        return;
    }
    let (check, _args) = Check::new("C20", "exploration");
    check.set_rule(
        "Every case is one or more runs of the real binary in a fresh sandbox (cwd, HOME, XDG_*, TMPDIR inside it). \
         part 1a: proptest file sets (1–6 host-safe flat names; 8 content classes; lengths 0..3 sectors of the tool's 16 KiB sector) × \
         create options (v1–v4 × none/zlib/bzip2/lzma × --with-listfile) × extract options (threads, --preserve-paths, all / named \
         subset incl. names not in the archive, --skip-errors) plus a 16-case grid over version × compression; extracted files are \
         compared with the inputs. part 1b: library-built archives (shared ArchiveSpec generator: V1–V4, sector shifts 0–4, \
         encryption, CRCs, attributes, directory names with \\ and /) → list/info/tree vs Archive::list/get_info and extract vs \
         Archive::read_file. part 1c (scale.rs): the size of the file set — 7 to 5200 files (thorough: to 20011), a 16-case grid at and \
         around the counts where the tool and the library change their way of working (batch sizes 10 / 25, batched extraction above \
         1000 names, larger batches above 5000; multiples and non-multiples of 1000) × origin (mpq create with flat names / \
         library-built with directories) × bulk / every name / a shuffled share of the names on the command line × names not in the \
         archive × threads × --preserve-paths × --skip-errors × stale targets; every requested file must be written bit-identically \
         when the command exits 0, list/info must agree with the library. part 2: every (sub-command template × base file × damage) of a deterministic grid (valid, truncated, \
         byte-mutated, u32 field overwritten, garbage, garbage behind a valid magic, empty, nonexistent) plus proptest damage. \
         part 3 (output content): conv = every converting sub-command (m2 convert / skin-convert / anim-convert, wmo / adt / wdt / wdl \
         convert, blp convert both ways) × base files (part 2's plus seeded variants of every format) × every version name the help \
         text or the library's name table offers (plus one invalid) × blp options (version × format × alpha bits × --no-mipmaps × \
         filter × dxt quality, and unrepresentable combinations) × damage × what the output path held before (nothing / a different \
         result of the same size / longer / shorter) × command-line arrangement (options permuted and moved around the positionals) × \
         -v/-q/-vv; dbc = generated tables (1–6 fields of 9 types, arrays, 0–40 rows, strings with commas and quotes) × export \
         json/csv to file/stdout, list (limit, schema), info, discover (-o), analyze; rebuild / compare (six kinds of second archive × \
         flags × three output formats) / validate (intact, 8 stored bytes of one file inverted) / info tables / extract --patch (one or \
         two patches, named and missing names) / extract -f on the four fixture archives and on generated ArchiveSpecs; wdt tiles in \
         three formats; flags = 30 info/validate/tree/list commands × valid and damaged inputs × subsets of their display flags in two \
         arrangements. \
         class = part : template or create options : damage kind : library verdict : exit class. non-trivial = the library rejects \
         the damaged bytes, or an extraction names a missing file, or a multi-sector/directory round trip, or (part 3) the content of \
         an output was compared with the library's result; distinct = class signature.",
    );
    check.assume("part 3: the expected content is what the library returns in-process for the same bytes and the options the command line states (oracle worker, Entry::P3); option → library-argument mapping follows --help and CHANGELOG 0.6.0 (blp alpha-bit auto-detection), not the tool's source; WDL version names whose layout is the tool's own choice ('tbc', numeric) are not generated");
    check.assume("part 3: image outputs are compared as decoded RGBA8 pixels (encoder settings are not content); JSON exports as parsed values (key order is hash-map order); f32 values bitwise after parsing the printed number; durations, line order, tree drawing and the order of inline [k:v] lists are not content when two arrangements of one command line are compared");
    check.assume("part 3: 'display flags' (-v -q -w -d --no-color --compact --show-* ...; part3.rs flag_cmds) are the ones --help describes as changing only what is shown; a failing run must stay failing with them, a passing run on an undamaged input must stay passing; on damaged inputs a run that asks for more detail may fail where the short one passes (counted, not judged)");
    check.assume("part 3: content of free-form text (info, tree, debug, patch-chain) and of `dbd convert` is not judged (counters content-not-judged:<cmd>, reasons in part3_content_judgement); `dbc discover`'s guessed field types are heuristics and not judged");
    check.assume("the library entry point sequence per sub-command (oracle.rs Entry) was transcribed from warcraft-rs/src/commands/*.rs; a command that starts calling a different parser needs its Entry updated");
    check.assume("an exit status other than 0 (including a panic's 101 or death by signal) counts as 'non-zero'; crash-freedom is not this property");
    check.assume("`mpq db` is excluded (manages a user database, not an input file); dbd convert has no in-process oracle (wow-cdbc 'cli' feature is not built into the harness), only its output and nonexistent-path behaviour are judged");
    check.assume("text wording is never judged; from `mpq info` only 'Format version:' and 'Number of files:', from `mpq tree` only 'sector_size:', from `mpq list` the set of lines");

    if !sandbox::cli_path().is_file() {
        crate::inc(&check, &format!("CLI binary {:?} not found (set VERIF_CLI or run /verif/check C20)", sandbox::cli_path()));
        check.finish();
    }
    let tps = part2::templates();

    // ---- surface: every family / sub-command the binary announces needs a template
    match help::enumerate() {
        Err(e) => {
            crate::inc(&check, &format!("cannot enumerate sub-commands: {e}"));
            check.finish();
        }
        Ok(map) => {
            let mut surface = vec![];
            for (fam, subs) in &map {
                for sub in subs {
                    surface.push(format!("{fam} {sub}").trim().to_string());
                    if part2::EXCLUDED.iter().any(|(f, s, _)| f == fam && s == sub) {
                        continue;
                    }
                    if !tps.iter().any(|t| t.family == fam && t.sub == sub) {
                        crate::inc(&check, &format!("sub-command `{fam} {sub}` appears in --help but has no argument template in part2.rs"));
                    }
                }
            }
            for t in &tps {
                if !map.get(t.family).map(|s| s.iter().any(|x| x == t.sub)).unwrap_or(false) {
                    crate::inc(&check, &format!("template {} refers to a sub-command that --help no longer lists", t.key()));
                }
            }
            check.set_extra("surface_from_help", json!(surface));
            check.set_extra("excluded_subcommands", json!(part2::EXCLUDED.iter().map(|(f, s, why)| json!({"command": format!("{f} {s}"), "why": why})).collect::<Vec<_>>()));
            check.set_extra("templates", json!(tps.len()));
        }
    }
    // ---- fixtures must build
    for t in &tps {
        for b in t.bases.iter().chain(t.aux.iter().map(|(_, b)| b)) {
            if let Err(e) = fixtures::base(b) {
                crate::inc(&check, &format!("valid base input {b} cannot be built with the library's writer: {e}"));
            }
        }
    }
    if check.violation_count() > 0 {
        check.finish();
    }

    if let Some(p) = check.replay.clone() {
        replay(&check, &tps, &p);
        check.finish();
    }

    // development aid: C20_ONLY_P3=1 skips parts 1 and 2 (their essential classes then report inconclusive)
    let only_p3 = std::env::var("C20_ONLY_P3").is_ok();
    if !only_p3 {
        // ---- part 2: deterministic grid
        let thorough = check.tier == Tier::Thorough;
        let mut grid: Vec<StatusCase> = vec![];
        for (ti, t) in tps.iter().enumerate() {
            let bases: Vec<&str> = if thorough { t.bases.clone() } else { vec![t.bases[ti % t.bases.len()]] };
            for (bi, b) in bases.iter().enumerate() {
                for d in damage::grid() {
                    if t.input.is_none() && !matches!(d, Damage::None) {
                        continue;
                    }
                    // every template sees every base at least as a valid input
                    grid.push(StatusCase { template: t.key(), base: b.to_string(), damage: d });
                }
                let _ = bi;
            }
            if !thorough {
                for b in t.bases.iter() {
                    if *b != bases[0] {
                        grid.push(StatusCase { template: t.key(), base: b.to_string(), damage: Damage::None });
                    }
                }
            }
        }
        parallel_for(&grid, |case| {
            let r = vcheck::engine::guard("status-grid", || status_property(&check, &tps, case)).and_then(|x| x);
            if let Err(f) = r {
                check.fail(&f, part2::case_json(case));
            }
        });

        // ---- part 1: deterministic grids
        let gc = grid_create();
        parallel_for(&gc, |c| {
            let r = vcheck::engine::guard("create-grid", || part1::run_create(&check, c)).and_then(|x| x);
            if let Err(f) = r {
                check.fail(&f, json!({"part": "create", "case": c}));
            }
        });
        let gl = grid_lib();
        parallel_for(&gl, |c| {
            let r = vcheck::engine::guard("lib-grid", || part1::run_lib(&check, c)).and_then(|x| x);
            if let Err(f) = r {
                check.fail(&f, json!({"part": "lib", "case": c}));
            }
        });

        // ---- part 1c: size of the file set (counts around the tool's and the library's batching thresholds)
        let gs = scale::grid(check.tier);
        parallel_for(&gs, |c| {
            let r = vcheck::engine::guard("scale-grid", || scale::run(&check, c)).and_then(|x| x);
            if let Err(f) = r {
                check.fail(&f, json!({"part": "scale", "case": c}));
            }
        });

        // ---- random volume
        let opts = || pt::Opts { max_shrink_iters: 60, ..pt::Opts::default() };
        pt::run(&check, "create-random", check.tier.pick(32, 1500), opts(), part1::create_strategy, |c| json!({"part": "create", "case": c}), |c| part1::run_create(&check, c));
        pt::run(&check, "lib-random", check.tier.pick(32, 1500), opts(), part1::lib_strategy, |c| json!({"part": "lib", "case": c}), |c| part1::run_lib(&check, c));
        pt::run(&check, "scale-random", check.tier.pick(16, 320), pt::Opts { max_shrink_iters: 12, max_distinct: 1, ..pt::Opts::default() }, || scale::strategy(thorough), |c| json!({"part": "scale", "case": c}), |c| scale::run(&check, c));
        pt::run(&check, "status-random", check.tier.pick(160, 12000), opts(), || status_strategy(&tps), part2::case_json, |c| status_property(&check, &tps, c));
    }

    // ---- part 3: output-content differential
    part3::run_all(&check, &tps);

    // ---- essential classes
    for t in &tps {
        let k = t.key();
        let ok = check.counter(&format!("valid:{k}:exit0"));
        let nz = check.counter(&format!("valid:{k}:nonzero"));
        if t.always_fails || t.never_ok {
            if nz + ok == 0 {
                crate::inc(&check, &format!("template {k} was never run on a valid input"));
            }
        } else if ok == 0 {
            crate::inc(&check, &format!("template {k}: no valid input made the command exit 0 ({nz} valid runs exited non-zero) — the template or the fixture is wrong, exit-0 clauses were never judged"));
        }
        if t.entry.is_some() && t.input.is_some() && check.counter(&format!("rejected:{k}")) == 0 {
            crate::inc(&check, &format!("template {k}: the library rejected none of the damaged inputs (vacuous 'must exit non-zero' clause)"));
        }
    }
    for must in ["list:name-longer-than-80", "extract:all", "extract:named", "extract:missing-noskip", "extract:missing-skip", "extract:preserve-dirs", "extract:preserve-dirs-in-two-letter-cases"] {
        if check.counter(must) == 0 {
            crate::inc(&check, &format!("no extraction case of class {must}"));
        }
    }
    for must in scale::MUST {
        if check.counter(must) == 0 {
            crate::inc(&check, &format!("no many-files case of class {must}"));
        }
    }
    {
        let m = part2::MATRIX.lock().unwrap();
        let mut lenient = vec![];
        for (cmd, row) in m.iter() {
            let n: u64 = row.iter().filter(|(k, _)| k.contains("lib-ok") && !k.starts_with("valid")).map(|(_, v)| *v).sum();
            if n > 0 {
                lenient.push(json!({"command": cmd, "damaged_inputs_the_library_accepts": n}));
            }
        }
        check.set_extra("library_accepts_damaged_input", json!(lenient));
    }
    check.set_extra("unjudged_library_built_archives", json!(*part1::NOTES.lock().unwrap()));
    check.set_extra("status_matrix", json!(*part2::MATRIX.lock().unwrap()));
    check.set_extra("process_runs", json!(sandbox::RUNS.load(Ordering::Relaxed)));
    check.set_extra("oracle_worker_calls", json!(oracle::ORACLE_CALLS.load(Ordering::Relaxed)));
    check.finish();
}

